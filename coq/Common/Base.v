(* Common/Base.v — shared list / N helpers used by every model.
   Stdlib only.  No axioms. *)
From Coq Require Export List NArith ZArith Lia Bool Permutation.
From Coq Require Import ZifyBool ZifyNat ZifyN.
Export ListNotations.
Open Scope N_scope.

Arguments N.add : simpl never.
Arguments N.sub : simpl never.
Arguments N.mul : simpl never.
Arguments N.eqb : simpl never.
Arguments N.ltb : simpl never.
Arguments N.leb : simpl never.

(** key/cost association lists *)
Definition kc := (N * N)%type.

Definition keys (l : list kc) : list N := map fst l.

Fixpoint total (l : list kc) : N :=
  match l with [] => 0 | (_, c) :: t => c + total t end.

Fixpoint lookup (k : N) (l : list kc) : option N :=
  match l with
  | [] => None
  | (k', c) :: t => if N.eqb k k' then Some c else lookup k t
  end.

Fixpoint rm (k : N) (l : list kc) : list kc :=
  match l with
  | [] => []
  | (k', c) :: t => if N.eqb k k' then rm k t else (k', c) :: rm k t
  end.

Definition mem (k : N) (l : list N) : bool := existsb (N.eqb k) l.

Definition cost_of (l : list kc) (k : N) : N :=
  match lookup k l with Some c => c | None => 0 end.

Fixpoint sumN (l : list N) : N :=
  match l with [] => 0 | x :: t => x + sumN t end.

Definition without (vs : list N) (l : list kc) : list kc :=
  filter (fun p => negb (mem (fst p) vs)) l.

(** basic facts *)
Lemma mem_In k l : mem k l = true <-> In k l.
Proof.
  unfold mem. rewrite existsb_exists. split.
  - intros [x [Hx He]]. apply N.eqb_eq in He. subst. exact Hx.
  - intros H. exists k. split; [exact H | apply N.eqb_refl].
Qed.

Lemma mem_false_In k l : mem k l = false <-> ~ In k l.
Proof.
  rewrite <- mem_In. destruct (mem k l); split; intros H.
  - discriminate.
  - exfalso. apply H. reflexivity.
  - intros H2. discriminate.
  - reflexivity.
Qed.

Lemma lookup_In k l c : lookup k l = Some c -> In (k, c) l.
Proof.
  induction l as [|[k' c'] t IH]; cbn [lookup]; intros H; [discriminate|].
  destruct (N.eqb_spec k k') as [->|Hn].
  - inversion H; subst. left. reflexivity.
  - right. apply IH. exact H.
Qed.

Lemma lookup_None k l : lookup k l = None <-> ~ In k (keys l).
Proof.
  induction l as [|[k' c'] t IH]; cbn [lookup keys map fst].
  - split; auto.
  - destruct (N.eqb_spec k k') as [->|Hn].
    + split; [discriminate | intros H; exfalso; apply H; left; reflexivity].
    + rewrite IH. unfold keys. split.
      * intros H [He|Hi]; [congruence | auto].
      * intros H Hi. apply H. right. exact Hi.
Qed.

Lemma lookup_Some_keys k l c : lookup k l = Some c -> In k (keys l).
Proof.
  intros H. destruct (in_dec N.eq_dec k (keys l)) as [Hi|Hn]; [exact Hi|].
  apply lookup_None in Hn. congruence.
Qed.

Lemma In_keys_lookup k l : In k (keys l) -> exists c, lookup k l = Some c.
Proof.
  intros H. destruct (lookup k l) eqn:E; [eauto|].
  apply lookup_None in E. contradiction.
Qed.

Lemma NoDup_lookup k c l : NoDup (keys l) -> In (k, c) l -> lookup k l = Some c.
Proof.
  induction l as [|[k' c'] t IH]; cbn [lookup keys map fst]; intros Hnd Hin; [contradiction|].
  inversion Hnd as [|? ? Hni Hnd']; subst.
  destruct Hin as [He|Hin].
  - inversion He; subst. rewrite N.eqb_refl. reflexivity.
  - destruct (N.eqb_spec k k') as [->|Hn].
    + exfalso. apply Hni. change (In k' (keys t)). unfold keys.
      apply in_map_iff. exists (k', c). auto.
    + apply IH; assumption.
Qed.

Lemma rm_keys_subset k l x : In x (keys (rm k l)) -> In x (keys l) /\ x <> k.
Proof.
  induction l as [|[k' c'] t IH]; cbn [rm keys map fst]; intros H; [contradiction|].
  destruct (N.eqb_spec k k') as [->|Hn].
  - destruct (IH H) as [A B]. split; [right; exact A | exact B].
  - cbn [keys map fst] in H. destruct H as [He|Hi].
    + subst. split; [left; reflexivity | congruence].
    + destruct (IH Hi) as [A B]. split; [right; exact A | exact B].
Qed.

Lemma rm_keys_keep k l x : In x (keys l) -> x <> k -> In x (keys (rm k l)).
Proof.
  induction l as [|[k' c'] t IH]; cbn [rm keys map fst]; intros H Hne; [contradiction|].
  destruct (N.eqb_spec k k') as [->|Hn].
  - destruct H as [He|Hi]; [congruence | apply IH; assumption].
  - cbn [keys map fst]. destruct H as [He|Hi]; [left; exact He | right; apply IH; assumption].
Qed.

Lemma rm_not_in k l : ~ In k (keys (rm k l)).
Proof. intros H. apply rm_keys_subset in H. destruct H. congruence. Qed.

Lemma rm_NoDup k l : NoDup (keys l) -> NoDup (keys (rm k l)).
Proof.
  induction l as [|[k' c'] t IH]; cbn [rm keys map fst]; intros H; [constructor|].
  inversion H as [|? ? Hni Hnd]; subst.
  destruct (N.eqb_spec k k') as [->|Hn]; [apply IH; exact Hnd|].
  cbn [keys map fst]. constructor; [|apply IH; exact Hnd].
  intros Hi. apply rm_keys_subset in Hi. destruct Hi. contradiction.
Qed.

Lemma rm_id k l : ~ In k (keys l) -> rm k l = l.
Proof.
  induction l as [|[k' c'] t IH]; cbn [rm keys map fst]; intros H; [reflexivity|].
  destruct (N.eqb_spec k k') as [->|Hn]; [exfalso; apply H; left; reflexivity|].
  f_equal. apply IH. intros Hi. apply H. right. exact Hi.
Qed.

Lemma lookup_rm_same k l : lookup k (rm k l) = None.
Proof. apply lookup_None. apply rm_not_in. Qed.

Lemma lookup_rm_other k x l : x <> k -> lookup x (rm k l) = lookup x l.
Proof.
  intros Hne. induction l as [|[k' c'] t IH]; cbn [rm lookup]; [reflexivity|].
  destruct (N.eqb_spec k k') as [->|Hn].
  - destruct (N.eqb_spec x k'); [congruence | exact IH].
  - cbn [lookup]. destruct (N.eqb_spec x k'); [reflexivity | exact IH].
Qed.

Lemma total_app a b : total (a ++ b) = total a + total b.
Proof. induction a as [|[k c] t IH]; cbn [app total]; lia. Qed.

Lemma total_rm k l : NoDup (keys l) -> total (rm k l) + cost_of l k = total l.
Proof.
  unfold cost_of.
  induction l as [|[k' c'] t IH]; cbn [rm total lookup keys map fst]; intros H; [reflexivity|].
  inversion H as [|? ? Hni Hnd]; subst.
  destruct (N.eqb_spec k k') as [->|Hn].
  - rewrite rm_id by exact Hni. lia.
  - cbn [total]. specialize (IH Hnd). lia.
Qed.

Lemma total_perm a b : Permutation a b -> total a = total b.
Proof.
  induction 1 as [| [k c] l l' _ IH | [k c] [k' c'] l | l l' l'' _ IH1 _ IH2];
    cbn [total]; lia.
Qed.

Lemma keys_perm a b : Permutation a b -> Permutation (keys a) (keys b).
Proof. apply Permutation_map. Qed.

Lemma NoDup_keys_perm a b : Permutation a b -> NoDup (keys a) -> NoDup (keys b).
Proof. intros P H. eapply Permutation_NoDup; [apply keys_perm; exact P | exact H]. Qed.

Lemma lookup_perm a b k : NoDup (keys a) -> Permutation a b -> lookup k a = lookup k b.
Proof.
  intros Hnd P.
  assert (Hnd' : NoDup (keys b)) by (eapply NoDup_keys_perm; eauto).
  destruct (lookup k a) eqn:Ea.
  - symmetry. apply NoDup_lookup; [exact Hnd'|].
    eapply Permutation_in; [exact P | apply lookup_In; exact Ea].
  - symmetry. apply lookup_None. apply lookup_None in Ea. intros Hi. apply Ea.
    eapply Permutation_in; [apply Permutation_sym, keys_perm; exact P | exact Hi].
Qed.

Lemma keys_app a b : keys (a ++ b) = keys a ++ keys b.
Proof. apply map_app. Qed.

Lemma keys_rev a : keys (rev a) = rev (keys a).
Proof. apply map_rev. Qed.

Lemma total_rev a : total (rev a) = total a.
Proof. apply total_perm. apply Permutation_sym, Permutation_rev. Qed.

Lemma without_nil l : without [] l = l.
Proof.
  unfold without. induction l as [|p t IH]; cbn [filter mem existsb negb]; [reflexivity|].
  f_equal. exact IH.
Qed.

Lemma rm_filter k l : rm k l = filter (fun p => negb (N.eqb k (fst p))) l.
Proof.
  induction l as [|[k' c'] t IH]; cbn [rm filter fst]; [reflexivity|].
  destruct (N.eqb k k'); cbn [negb]; rewrite IH; reflexivity.
Qed.
