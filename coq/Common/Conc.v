(* Common/Conc.v — generic framework for atomic-step (K3) models:
   a system, runs under arbitrary schedules, invariant lifting, trace replay. *)
From Coq Require Import List.
Import ListNotations.

Record system := mkSystem {
  state  : Type;
  tid    : Type;
  choice : Type;          (* per-step nondeterminism resolved by the environment:
                             spin-or-move-on, spurious CAS failure, timeout fires, ... *)
  event  : Type;
  init   : state;
  (* None = this thread cannot take a step with this choice (parked without token,
     finished, choice not applicable) *)
  step   : state -> tid -> choice -> option (state * event)
}.

Section Runs.
  Variable S : system.

  (* a schedule entry that is not enabled is skipped *)
  Fixpoint run (s : state S) (sch : list (tid S * choice S)) : state S * list (tid S * event S) :=
    match sch with
    | [] => (s, [])
    | (t, c) :: r =>
        match step S s t c with
        | None => run s r
        | Some (s', e) => let '(s'', tr) := run s' r in (s'', (t, e) :: tr)
        end
    end.

  Definition reachable (s : state S) : Prop := exists sch, fst (run (init S) sch) = s.

  Lemma run_app s a b :
    fst (run s (a ++ b)) = fst (run (fst (run s a)) b).
  Proof.
    revert s. induction a as [|[t c] r IH]; intros s; cbn [app run]; [reflexivity|].
    destruct (step S s t c) as [[s' e]|]; [|apply IH].
    specialize (IH s'). destruct (run s' (r ++ b)) as [x y]. destruct (run s' r) as [x' y'].
    cbn [fst] in *. exact IH.
  Qed.

  Theorem invariant_lift (I : state S -> Prop) :
    I (init S) ->
    (forall s t c s' e, I s -> step S s t c = Some (s', e) -> I s') ->
    forall s, reachable s -> I s.
  Proof.
    intros Hinit Hstep s [sch Hs]. subst s.
    assert (H : forall sch s0, I s0 -> I (fst (run s0 sch))).
    { induction sch0 as [|[t c] r IH]; intros s0 H0; cbn [run fst]; [exact H0|].
      destruct (step S s0 t c) as [[s' e]|] eqn:E.
      - specialize (IH s' (Hstep _ _ _ _ _ H0 E)). destruct (run s' r). exact IH.
      - apply IH. exact H0. }
    apply H. exact Hinit.
  Qed.

  (* strict trace replay, used by the D2 tie: every scheduled step must be enabled and
     must produce exactly the observed event *)
  Fixpoint replay (eqb : event S -> event S -> bool) (s : state S)
           (tr : list (tid S * choice S * event S)) : option (state S) + nat :=
    match tr with
    | [] => inl (Some s)
    | (t, c, e) :: r =>
        match step S s t c with
        | None => inr (length r)
        | Some (s', e') => if eqb e e' then replay eqb s' r else inr (length r)
        end
    end.

  Definition quiescent (s : state S) : Prop := forall t c, step S s t c = None.
End Runs.
