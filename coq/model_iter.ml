
(** val negb : bool -> bool **)

let negb = function
| true -> false
| false -> true

type nat =
| O
| S of nat

(** val fst : ('a1 * 'a2) -> 'a1 **)

let fst = function
| (x, _) -> x

(** val snd : ('a1 * 'a2) -> 'a2 **)

let snd = function
| (_, y) -> y

(** val length : 'a1 list -> nat **)

let rec length = function
| [] -> O
| _ :: l' -> S (length l')

(** val app : 'a1 list -> 'a1 list -> 'a1 list **)

let rec app l m =
  match l with
  | [] -> m
  | a :: l1 -> a :: (app l1 m)

type comparison =
| Eq
| Lt
| Gt

module Coq__1 = struct
 (** val add : nat -> nat -> nat **)
 let rec add n0 m =
   match n0 with
   | O -> m
   | S p -> S (add p m)
end
include Coq__1

(** val sub : nat -> nat -> nat **)

let rec sub n0 m =
  match n0 with
  | O -> n0
  | S k -> (match m with
            | O -> n0
            | S l -> sub k l)

module Nat =
 struct
  (** val eqb : nat -> nat -> bool **)

  let rec eqb n0 m =
    match n0 with
    | O -> (match m with
            | O -> true
            | S _ -> false)
    | S n' -> (match m with
               | O -> false
               | S m' -> eqb n' m')

  (** val leb : nat -> nat -> bool **)

  let rec leb n0 m =
    match n0 with
    | O -> true
    | S n' -> (match m with
               | O -> false
               | S m' -> leb n' m')

  (** val ltb : nat -> nat -> bool **)

  let ltb n0 m =
    leb (S n0) m

  (** val max : nat -> nat -> nat **)

  let rec max n0 m =
    match n0 with
    | O -> m
    | S n' -> (match m with
               | O -> n0
               | S m' -> S (max n' m'))

  (** val min : nat -> nat -> nat **)

  let rec min n0 m =
    match n0 with
    | O -> O
    | S n' -> (match m with
               | O -> O
               | S m' -> S (min n' m'))
 end

(** val nth : nat -> 'a1 list -> 'a1 -> 'a1 **)

let rec nth n0 l default =
  match n0 with
  | O -> (match l with
          | [] -> default
          | x :: _ -> x)
  | S m -> (match l with
            | [] -> default
            | _ :: t -> nth m t default)

(** val rev : 'a1 list -> 'a1 list **)

let rec rev = function
| [] -> []
| x :: l' -> app (rev l') (x :: [])

(** val concat : 'a1 list list -> 'a1 list **)

let rec concat = function
| [] -> []
| x :: l0 -> app x (concat l0)

(** val map : ('a1 -> 'a2) -> 'a1 list -> 'a2 list **)

let rec map f = function
| [] -> []
| a :: t -> (f a) :: (map f t)

(** val fold_left : ('a1 -> 'a2 -> 'a1) -> 'a2 list -> 'a1 -> 'a1 **)

let rec fold_left f l a0 =
  match l with
  | [] -> a0
  | b :: t -> fold_left f t (f a0 b)

(** val existsb : ('a1 -> bool) -> 'a1 list -> bool **)

let rec existsb f = function
| [] -> false
| a :: l0 -> (||) (f a) (existsb f l0)

(** val filter : ('a1 -> bool) -> 'a1 list -> 'a1 list **)

let rec filter f = function
| [] -> []
| x :: l0 -> if f x then x :: (filter f l0) else filter f l0

(** val find : ('a1 -> bool) -> 'a1 list -> 'a1 option **)

let rec find f = function
| [] -> None
| x :: tl -> if f x then Some x else find f tl

(** val firstn : nat -> 'a1 list -> 'a1 list **)

let rec firstn n0 l =
  match n0 with
  | O -> []
  | S n1 -> (match l with
             | [] -> []
             | a :: l0 -> a :: (firstn n1 l0))

(** val skipn : nat -> 'a1 list -> 'a1 list **)

let rec skipn n0 l =
  match n0 with
  | O -> l
  | S n1 -> (match l with
             | [] -> []
             | _ :: l0 -> skipn n1 l0)

(** val seq : nat -> nat -> nat list **)

let rec seq start = function
| O -> []
| S len0 -> start :: (seq (S start) len0)

(** val repeat : 'a1 -> nat -> 'a1 list **)

let rec repeat x = function
| O -> []
| S k -> x :: (repeat x k)

type positive =
| XI of positive
| XO of positive
| XH

type n =
| N0
| Npos of positive

module Pos =
 struct
  type mask =
  | IsNul
  | IsPos of positive
  | IsNeg
 end

module Coq_Pos =
 struct
  (** val succ : positive -> positive **)

  let rec succ = function
  | XI p -> XO (succ p)
  | XO p -> XI p
  | XH -> XO XH

  (** val add : positive -> positive -> positive **)

  let rec add x y =
    match x with
    | XI p ->
      (match y with
       | XI q -> XO (add_carry p q)
       | XO q -> XI (add p q)
       | XH -> XO (succ p))
    | XO p ->
      (match y with
       | XI q -> XI (add p q)
       | XO q -> XO (add p q)
       | XH -> XI p)
    | XH -> (match y with
             | XI q -> XO (succ q)
             | XO q -> XI q
             | XH -> XO XH)

  (** val add_carry : positive -> positive -> positive **)

  and add_carry x y =
    match x with
    | XI p ->
      (match y with
       | XI q -> XI (add_carry p q)
       | XO q -> XO (add_carry p q)
       | XH -> XI (succ p))
    | XO p ->
      (match y with
       | XI q -> XO (add_carry p q)
       | XO q -> XI (add p q)
       | XH -> XO (succ p))
    | XH ->
      (match y with
       | XI q -> XI (succ q)
       | XO q -> XO (succ q)
       | XH -> XI XH)

  (** val pred_double : positive -> positive **)

  let rec pred_double = function
  | XI p -> XI (XO p)
  | XO p -> XI (pred_double p)
  | XH -> XH

  type mask = Pos.mask =
  | IsNul
  | IsPos of positive
  | IsNeg

  (** val succ_double_mask : mask -> mask **)

  let succ_double_mask = function
  | IsNul -> IsPos XH
  | IsPos p -> IsPos (XI p)
  | IsNeg -> IsNeg

  (** val double_mask : mask -> mask **)

  let double_mask = function
  | IsPos p -> IsPos (XO p)
  | x0 -> x0

  (** val double_pred_mask : positive -> mask **)

  let double_pred_mask = function
  | XI p -> IsPos (XO (XO p))
  | XO p -> IsPos (XO (pred_double p))
  | XH -> IsNul

  (** val sub_mask : positive -> positive -> mask **)

  let rec sub_mask x y =
    match x with
    | XI p ->
      (match y with
       | XI q -> double_mask (sub_mask p q)
       | XO q -> succ_double_mask (sub_mask p q)
       | XH -> IsPos (XO p))
    | XO p ->
      (match y with
       | XI q -> succ_double_mask (sub_mask_carry p q)
       | XO q -> double_mask (sub_mask p q)
       | XH -> IsPos (pred_double p))
    | XH -> (match y with
             | XH -> IsNul
             | _ -> IsNeg)

  (** val sub_mask_carry : positive -> positive -> mask **)

  and sub_mask_carry x y =
    match x with
    | XI p ->
      (match y with
       | XI q -> succ_double_mask (sub_mask_carry p q)
       | XO q -> double_mask (sub_mask p q)
       | XH -> IsPos (pred_double p))
    | XO p ->
      (match y with
       | XI q -> double_mask (sub_mask_carry p q)
       | XO q -> succ_double_mask (sub_mask_carry p q)
       | XH -> double_pred_mask p)
    | XH -> IsNeg

  (** val mul : positive -> positive -> positive **)

  let rec mul x y =
    match x with
    | XI p -> add y (XO (mul p y))
    | XO p -> XO (mul p y)
    | XH -> y

  (** val iter : ('a1 -> 'a1) -> 'a1 -> positive -> 'a1 **)

  let rec iter f x = function
  | XI n' -> f (iter f (iter f x n') n')
  | XO n' -> iter f (iter f x n') n'
  | XH -> f x

  (** val pow : positive -> positive -> positive **)

  let pow x =
    iter (mul x) XH

  (** val compare_cont : comparison -> positive -> positive -> comparison **)

  let rec compare_cont r x y =
    match x with
    | XI p ->
      (match y with
       | XI q -> compare_cont r p q
       | XO q -> compare_cont Gt p q
       | XH -> Gt)
    | XO p ->
      (match y with
       | XI q -> compare_cont Lt p q
       | XO q -> compare_cont r p q
       | XH -> Gt)
    | XH -> (match y with
             | XH -> r
             | _ -> Lt)

  (** val compare : positive -> positive -> comparison **)

  let compare =
    compare_cont Eq

  (** val eqb : positive -> positive -> bool **)

  let rec eqb p q =
    match p with
    | XI p0 -> (match q with
                | XI q0 -> eqb p0 q0
                | _ -> false)
    | XO p0 -> (match q with
                | XO q0 -> eqb p0 q0
                | _ -> false)
    | XH -> (match q with
             | XH -> true
             | _ -> false)

  (** val iter_op : ('a1 -> 'a1 -> 'a1) -> positive -> 'a1 -> 'a1 **)

  let rec iter_op op0 p a =
    match p with
    | XI p0 -> op0 a (iter_op op0 p0 (op0 a a))
    | XO p0 -> iter_op op0 p0 (op0 a a)
    | XH -> a

  (** val to_nat : positive -> nat **)

  let to_nat x =
    iter_op Coq__1.add x (S O)

  (** val of_succ_nat : nat -> positive **)

  let rec of_succ_nat = function
  | O -> XH
  | S x -> succ (of_succ_nat x)
 end

module N =
 struct
  (** val succ_double : n -> n **)

  let succ_double = function
  | N0 -> Npos XH
  | Npos p -> Npos (XI p)

  (** val double : n -> n **)

  let double = function
  | N0 -> N0
  | Npos p -> Npos (XO p)

  (** val add : n -> n -> n **)

  let add n0 m =
    match n0 with
    | N0 -> m
    | Npos p -> (match m with
                 | N0 -> n0
                 | Npos q -> Npos (Coq_Pos.add p q))

  (** val sub : n -> n -> n **)

  let sub n0 m =
    match n0 with
    | N0 -> N0
    | Npos n' ->
      (match m with
       | N0 -> n0
       | Npos m' ->
         (match Coq_Pos.sub_mask n' m' with
          | Coq_Pos.IsPos p -> Npos p
          | _ -> N0))

  (** val mul : n -> n -> n **)

  let mul n0 m =
    match n0 with
    | N0 -> N0
    | Npos p -> (match m with
                 | N0 -> N0
                 | Npos q -> Npos (Coq_Pos.mul p q))

  (** val compare : n -> n -> comparison **)

  let compare n0 m =
    match n0 with
    | N0 -> (match m with
             | N0 -> Eq
             | Npos _ -> Lt)
    | Npos n' -> (match m with
                  | N0 -> Gt
                  | Npos m' -> Coq_Pos.compare n' m')

  (** val eqb : n -> n -> bool **)

  let eqb n0 m =
    match n0 with
    | N0 -> (match m with
             | N0 -> true
             | Npos _ -> false)
    | Npos p -> (match m with
                 | N0 -> false
                 | Npos q -> Coq_Pos.eqb p q)

  (** val leb : n -> n -> bool **)

  let leb x y =
    match compare x y with
    | Gt -> false
    | _ -> true

  (** val ltb : n -> n -> bool **)

  let ltb x y =
    match compare x y with
    | Lt -> true
    | _ -> false

  (** val pow : n -> n -> n **)

  let pow n0 = function
  | N0 -> Npos XH
  | Npos p0 -> (match n0 with
                | N0 -> N0
                | Npos q -> Npos (Coq_Pos.pow q p0))

  (** val pos_div_eucl : positive -> n -> n * n **)

  let rec pos_div_eucl a b =
    match a with
    | XI a' ->
      let (q, r) = pos_div_eucl a' b in
      let r' = succ_double r in
      if leb b r' then ((succ_double q), (sub r' b)) else ((double q), r')
    | XO a' ->
      let (q, r) = pos_div_eucl a' b in
      let r' = double r in
      if leb b r' then ((succ_double q), (sub r' b)) else ((double q), r')
    | XH ->
      (match b with
       | N0 -> (N0, (Npos XH))
       | Npos p -> (match p with
                    | XH -> ((Npos XH), N0)
                    | _ -> (N0, (Npos XH))))

  (** val div_eucl : n -> n -> n * n **)

  let div_eucl a b =
    match a with
    | N0 -> (N0, N0)
    | Npos na -> (match b with
                  | N0 -> (N0, a)
                  | Npos _ -> pos_div_eucl na b)

  (** val modulo : n -> n -> n **)

  let modulo a b =
    snd (div_eucl a b)

  (** val to_nat : n -> nat **)

  let to_nat = function
  | N0 -> O
  | Npos p -> Coq_Pos.to_nat p

  (** val of_nat : nat -> n **)

  let of_nat = function
  | O -> N0
  | S n' -> Npos (Coq_Pos.of_succ_nat n')
 end

type kc = n * n

(** val rm : n -> kc list -> kc list **)

let rec rm k = function
| [] -> []
| k0 :: t ->
  let (k', c) = k0 in if N.eqb k k' then rm k t else (k', c) :: (rm k t)

(** val mem : n -> n list -> bool **)

let mem k l =
  existsb (N.eqb k) l

(** val sumN : n list -> n **)

let rec sumN = function
| [] -> N0
| x :: t -> N.add x (sumN t)

type entry = { ekey : n; eval : n; ecost : n; eexp : n; ela : n }

type item = n * n

(** val item_of : entry -> item **)

let item_of e =
  (e.ekey, e.eval)

(** val is_expired : n option -> n -> entry -> bool **)

let is_expired tti now e =
  (||) ((&&) (N.ltb N0 e.eexp) (N.leb e.eexp now))
    (match tti with
     | Some d -> N.leb (N.add e.ela d) now
     | None -> false)

(** val live : n option -> n -> entry -> bool **)

let live tti now e =
  negb (is_expired tti now e)

type cursor = { c_shard : nat; c_seen : nat }

type iter_st = { it_buf : item list; it_cur : cursor; it_fin : bool }

(** val iter_init : iter_st **)

let iter_init =
  { it_buf = []; it_cur = { c_shard = O; c_seen = O }; it_fin = false }

(** val refill :
    entry list list -> n option -> nat -> nat -> n -> cursor -> item list ->
    (cursor * item list) * bool **)

let rec refill shards tti batch fuel now cur buf =
  match fuel with
  | O -> ((cur, buf), false)
  | S f ->
    if (&&) (Nat.ltb cur.c_shard (length shards)) (Nat.ltb (length buf) batch)
    then let sh = nth cur.c_shard shards [] in
         if Nat.leb (length sh) cur.c_seen
         then refill shards tti batch f now { c_shard = (S cur.c_shard);
                c_seen = O } buf
         else let needed = sub batch (length buf) in
              let chunk = firstn needed (skipn cur.c_seen sh) in
              refill shards tti batch f now { c_shard = cur.c_shard; c_seen =
                (add cur.c_seen (length chunk)) }
                (app buf (map item_of (filter (live tti now) chunk)))
    else ((cur, buf), true)

(** val refill_fuel : entry list list -> nat **)

let refill_fuel shards =
  S (add (length shards) (length (concat shards)))

(** val iter_next :
    entry list list -> n option -> nat -> n -> iter_st -> (item
    option * iter_st) * bool **)

let iter_next shards tti batch now st =
  match st.it_buf with
  | [] ->
    if st.it_fin
    then ((None, st), true)
    else let (p, ok) =
           refill shards tti batch (refill_fuel shards) now st.it_cur []
         in
         let (cur', buf') = p in
         let fin' = Nat.leb (length shards) cur'.c_shard in
         (match buf' with
          | [] -> ((None, { it_buf = []; it_cur = cur'; it_fin = fin' }), ok)
          | x :: b ->
            (((Some x), { it_buf = b; it_cur = cur'; it_fin = fin' }), ok))
  | x :: b ->
    (((Some x), { it_buf = b; it_cur = st.it_cur; it_fin = st.it_fin }), true)

(** val drain :
    entry list list -> n option -> nat -> nat -> (nat -> n) -> nat -> iter_st
    -> item list * bool **)

let rec drain shards tti batch fuel clk c st =
  match fuel with
  | O -> ([], false)
  | S f ->
    let (p, ok) = iter_next shards tti batch (clk c) st in
    let (o, st') = p in
    (match o with
     | Some x ->
       let (r, ok') = drain shards tti batch f clk (S c) st' in
       ((x :: r), ((&&) ok ok'))
     | None -> ([], ok))

(** val drain_fuel : entry list list -> nat **)

let drain_fuel shards =
  S (S (length (concat shards)))

(** val iterate_clk :
    entry list list -> n option -> nat -> (nat -> n) -> item list * bool **)

let iterate_clk shards tti batch clk =
  drain shards tti batch (drain_fuel shards) clk O iter_init

(** val iterate_adv :
    entry list list -> n option -> nat -> n -> n -> nat -> item list * bool **)

let iterate_adv shards tti batch now d k =
  iterate_clk shards tti batch (fun c ->
    N.add now (N.mul (N.of_nat (Nat.min c k)) d))

(** val touch : n option -> n -> entry -> entry **)

let touch tti now e =
  match tti with
  | Some _ ->
    { ekey = e.ekey; eval = e.eval; ecost = e.ecost; eexp = e.eexp; ela =
      now }
  | None -> e

(** val fetch_in :
    n option -> n -> n -> entry list -> n option * entry list **)

let rec fetch_in tti now k = function
| [] -> (None, [])
| e :: r ->
  if N.eqb e.ekey k
  then if is_expired tti now e
       then (None, (e :: r))
       else ((Some e.eval), ((touch tti now e) :: r))
  else let (o, r') = fetch_in tti now k r in (o, (e :: r'))

(** val shard_idx : nat -> n -> nat **)

let shard_idx n0 k =
  N.to_nat (N.modulo k (N.of_nat n0))

(** val set_nth : nat -> 'a1 -> 'a1 list -> 'a1 list **)

let rec set_nth i x = function
| [] -> []
| h :: t -> (match i with
             | O -> x :: t
             | S j -> h :: (set_nth j x t))

(** val fetch :
    n option -> n -> entry list list -> n -> n option * entry list list **)

let fetch tti now shards k =
  let i = shard_idx (length shards) k in
  let (o, sh') = fetch_in tti now k (nth i shards []) in
  (o, (set_nth i sh' shards))

(** val snap_pass :
    n option -> n -> n list -> entry list list -> item list * entry list list **)

let rec snap_pass tti now ks shards =
  match ks with
  | [] -> ([], shards)
  | k :: r ->
    let (o, s1) = fetch tti now shards k in
    let (os, s2) = snap_pass tti now r s1 in
    ((match o with
      | Some v -> (k, v) :: os
      | None -> os), s2)

(** val snap_from :
    n option -> n -> nat -> nat -> entry list list -> item list * entry list
    list **)

let rec snap_from tti now todo i shards =
  match todo with
  | O -> ([], shards)
  | S t ->
    let ks = map (fun e -> e.ekey) (nth i shards []) in
    let (o1, s1) = snap_pass tti now ks shards in
    let (o2, s2) = snap_from tti now t (S i) s1 in ((app o1 o2), s2)

(** val snap_iterate :
    n option -> n -> entry list list -> item list * entry list list **)

let snap_iterate tti now shards =
  snap_from tti now (length shards) O shards

type lru_list = kc list

(** val ll_push_front : n -> n -> lru_list -> lru_list **)

let ll_push_front k c l =
  (k, c) :: (rm k l)

(** val pop_while : n -> n -> kc list -> (n list * n) * kc list **)

let rec pop_while want freed r = match r with
| [] -> (([], freed), [])
| k0 :: t ->
  let (k, c) = k0 in
  if N.ltb freed want
  then let (p, rest) = pop_while want (N.add freed c) t in
       let (vs, f) = p in (((k :: vs), f), rest)
  else (([], freed), r)

(** val ll_evict : n -> lru_list -> (lru_list * n list) * n **)

let ll_evict n0 l =
  let (p, rest) = pop_while n0 N0 (rev l) in
  let (vs, f) = p in (((rev rest), vs), f)

type shardst = { sh_map : entry list; sh_pol : lru_list; sh_pend : kc list }

type cache = { c_shs : shardst list; c_cost : n; c_cap : n option;
               c_ttl : n option; c_tti : n option; c_now : n }

(** val w64 : n **)

let w64 =
  N.pow (Npos (XO XH)) (Npos (XO (XO (XO (XO (XO (XO XH)))))))

(** val wadd : n -> n -> n **)

let wadd a b =
  N.modulo (N.add a b) w64

(** val wsub : n -> n -> n **)

let wsub a b =
  N.modulo (N.sub (N.add a w64) (N.modulo b w64)) w64

(** val empty_sh : shardst **)

let empty_sh =
  { sh_map = []; sh_pol = []; sh_pend = [] }

(** val new_cache : nat -> n option -> n option -> n option -> n -> cache **)

let new_cache n0 cap ttl tti now =
  { c_shs = (repeat empty_sh n0); c_cost = N0; c_cap = cap; c_ttl = ttl;
    c_tti = tti; c_now = now }

(** val maps : cache -> entry list list **)

let maps c =
  map (fun s -> s.sh_map) c.c_shs

(** val set_maps : shardst list -> entry list list -> shardst list **)

let rec set_maps shs ms =
  match shs with
  | [] -> []
  | sh :: r ->
    (match ms with
     | [] -> []
     | m :: r' ->
       { sh_map = m; sh_pol = sh.sh_pol; sh_pend =
         sh.sh_pend } :: (set_maps r r'))

(** val upsert : entry -> entry list -> entry list * entry option **)

let rec upsert e = function
| [] -> ((e :: []), None)
| h :: t ->
  if N.eqb h.ekey e.ekey
  then ((e :: t), (Some h))
  else let (t', o) = upsert e t in ((h :: t'), o)

(** val new_entry : cache -> n -> n -> n -> n option -> entry **)

let new_entry c k v cst ttl =
  { ekey = k; eval = v; ecost = cst; eexp =
    (match ttl with
     | Some d -> N.add c.c_now d
     | None -> N0); ela =
    (match c.c_tti with
     | Some _ -> c.c_now
     | None -> N0) }

(** val insert_entry : cache -> entry -> cache **)

let insert_entry c e =
  let i = shard_idx (length c.c_shs) e.ekey in
  let sh = nth i c.c_shs empty_sh in
  let (m', old) = upsert e sh.sh_map in
  let oldc = match old with
             | Some o -> o.ecost
             | None -> N0 in
  { c_shs =
  (set_nth i { sh_map = m'; sh_pol = sh.sh_pol; sh_pend =
    (app sh.sh_pend ((e.ekey, e.ecost) :: [])) } c.c_shs); c_cost =
  (wadd (wsub c.c_cost oldc) e.ecost); c_cap = c.c_cap; c_ttl = c.c_ttl;
  c_tti = c.c_tti; c_now = c.c_now }

(** val find_key : n -> entry list -> entry option **)

let find_key k m =
  find (fun e -> N.eqb e.ekey k) m

(** val peek : cache -> n -> n option **)

let peek c k =
  match find_key k (nth (shard_idx (length c.c_shs) k) (maps c) []) with
  | Some e -> if is_expired c.c_tti c.c_now e then None else Some e.eval
  | None -> None

(** val drain_limit : nat **)

let drain_limit =
  S (S (S (S (S (S (S (S (S (S (S (S (S (S (S (S O)))))))))))))))

(** val admit_all : kc list -> lru_list -> lru_list **)

let admit_all ws l =
  fold_left (fun l0 w -> ll_push_front (fst w) (snd w) l0) ws l

(** val remove_keys : n list -> entry list -> entry list **)

let remove_keys vs m =
  filter (fun e -> negb (mem e.ekey vs)) m

(** val maint_one : n option -> shardst -> n -> shardst * n **)

let maint_one cap sh cost =
  let ws = firstn drain_limit sh.sh_pend in
  let pend' = skipn drain_limit sh.sh_pend in
  (match cap with
   | Some cp ->
     let pol1 = admit_all ws sh.sh_pol in
     if N.leb cost cp
     then ({ sh_map = sh.sh_map; sh_pol = pol1; sh_pend = pend' }, cost)
     else let (p, freed) = ll_evict (N.sub cost cp) pol1 in
          let (pol2, vs) = p in
          (match vs with
           | [] ->
             ({ sh_map = sh.sh_map; sh_pol = pol2; sh_pend = pend' }, cost)
           | _ :: _ ->
             ({ sh_map = (remove_keys vs sh.sh_map); sh_pol = pol2; sh_pend =
               pend' }, (wsub cost freed)))
   | None ->
     ({ sh_map = sh.sh_map; sh_pol = sh.sh_pol; sh_pend = pend' }, cost))

(** val maint_shards : n option -> shardst list -> n -> shardst list * n **)

let rec maint_shards cap shs cost =
  match shs with
  | [] -> ([], cost)
  | sh :: r ->
    let (sh', c1) = maint_one cap sh cost in
    let (r', c2) = maint_shards cap r c1 in ((sh' :: r'), c2)

(** val run_maintenance : cache -> cache **)

let run_maintenance c =
  let (shs', cost') = maint_shards c.c_cap c.c_shs c.c_cost in
  { c_shs = shs'; c_cost = cost'; c_cap = c.c_cap; c_ttl = c.c_ttl; c_tti =
  c.c_tti; c_now = c.c_now }

type pentry = { pkey : n; pval : n; pcost : n; pttl : n option }

type snap = { s_entries : pentry list; s_cap : n option; s_shards : nat }

(** val pentry_of : n -> entry -> pentry **)

let pentry_of now e =
  { pkey = e.ekey; pval = e.eval; pcost = e.ecost; pttl =
    (if N.eqb e.eexp N0
     then None
     else if N.leb now e.eexp then Some (N.sub e.eexp now) else None) }

(** val snapshot : cache -> snap **)

let snapshot c =
  { s_entries =
    (map (pentry_of c.c_now)
      (filter (live c.c_tti c.c_now) (concat (maps c)))); s_cap = c.c_cap;
    s_shards = (length c.c_shs) }

(** val entry_of_p : n -> n option -> pentry -> entry **)

let entry_of_p now tti p =
  { ekey = p.pkey; eval = p.pval; ecost = p.pcost; eexp =
    (match p.pttl with
     | Some d -> N.add now d
     | None -> N0); ela = (match tti with
                           | Some _ -> now
                           | None -> N0) }

(** val restore_shard : nat -> nat -> entry list -> entry list **)

let restore_shard n0 i es =
  fold_left (fun m e -> fst (upsert e m))
    (filter (fun e -> Nat.eqb (shard_idx n0 e.ekey) i) es) []

(** val restore : snap -> n -> n option -> n option -> cache **)

let restore s now ttl tti =
  let es = map (entry_of_p now tti) s.s_entries in
  { c_shs =
  (map (fun i -> { sh_map = (restore_shard s.s_shards i es); sh_pol = [];
    sh_pend = [] }) (seq O s.s_shards)); c_cost =
  (sumN (map (fun p -> p.pcost) s.s_entries)); c_cap = s.s_cap; c_ttl = ttl;
  c_tti = tti; c_now = now }

type op =
| OIns of n * n * n
| OInsTtl of n * n * n * n
| OAdv of n
| OFetch of n
| OPeek of n
| OIter of nat * n * nat
| OIterSnap
| OSnap of n * n option
| OMaint
| OCost

type res =
| RUnit
| RVal of n option
| RItems of item list * bool
| RSnap of pentry list
| RCost of n

(** val step : cache -> op -> cache * res **)

let step c = function
| OIns (k, v, cst) -> ((insert_entry c (new_entry c k v cst c.c_ttl)), RUnit)
| OInsTtl (k, v, cst, d) ->
  ((insert_entry c (new_entry c k v cst (Some d))), RUnit)
| OAdv d ->
  ({ c_shs = c.c_shs; c_cost = c.c_cost; c_cap = c.c_cap; c_ttl = c.c_ttl;
    c_tti = c.c_tti; c_now = (N.add c.c_now d) }, RUnit)
| OFetch k ->
  let (r, ms) = fetch c.c_tti c.c_now (maps c) k in
  ({ c_shs = (set_maps c.c_shs ms); c_cost = c.c_cost; c_cap = c.c_cap;
  c_ttl = c.c_ttl; c_tti = c.c_tti; c_now = c.c_now }, (RVal r))
| OPeek k -> (c, (RVal (peek c k)))
| OIter (b, d, k) ->
  let (out, ok) = iterate_adv (maps c) c.c_tti (Nat.max (S O) b) c.c_now d k
  in
  ({ c_shs = c.c_shs; c_cost = c.c_cost; c_cap = c.c_cap; c_ttl = c.c_ttl;
  c_tti = c.c_tti; c_now = (N.add c.c_now (N.mul (N.of_nat k) d)) }, (RItems
  (out, ok)))
| OIterSnap ->
  let (out, ms) = snap_iterate c.c_tti c.c_now (maps c) in
  ({ c_shs = (set_maps c.c_shs ms); c_cost = c.c_cost; c_cap = c.c_cap;
  c_ttl = c.c_ttl; c_tti = c.c_tti; c_now = c.c_now }, (RItems (out, true)))
| OSnap (gap, rtti) ->
  let s = snapshot c in
  ((restore s (N.add c.c_now gap) None rtti), (RSnap s.s_entries))
| OMaint -> ((run_maintenance c), RUnit)
| OCost -> (c, (RCost c.c_cost))

(** val run : cache -> op list -> cache * res list **)

let rec run c = function
| [] -> (c, [])
| o :: r ->
  let (c1, x) = step c o in let (c2, xs) = run c1 r in (c2, (x :: xs))
