
type __ = Obj.t

(** val negb : bool -> bool **)

let negb = function
| true -> false
| false -> true

type nat =
| O
| S of nat

(** val fst : ('a1 * 'a2) -> 'a1 **)

let fst = function
| (x, _) -> x

(** val snd : ('a1 * 'a2) -> 'a2 **)

let snd = function
| (_, y) -> y

(** val length : 'a1 list -> nat **)

let rec length = function
| [] -> O
| _ :: l' -> S (length l')

(** val app : 'a1 list -> 'a1 list -> 'a1 list **)

let rec app l m =
  match l with
  | [] -> m
  | a :: l1 -> a :: (app l1 m)

type comparison =
| Eq
| Lt
| Gt

(** val compOpp : comparison -> comparison **)

let compOpp = function
| Eq -> Eq
| Lt -> Gt
| Gt -> Lt

(** val pred : nat -> nat **)

let pred n0 = match n0 with
| O -> n0
| S u -> u

module Coq__1 = struct
 (** val add : nat -> nat -> nat **)
 let rec add n0 m =
   match n0 with
   | O -> m
   | S p -> S (add p m)
end
include Coq__1

module Nat =
 struct
  (** val leb : nat -> nat -> bool **)

  let rec leb n0 m =
    match n0 with
    | O -> true
    | S n' -> (match m with
               | O -> false
               | S m' -> leb n' m')

  (** val ltb : nat -> nat -> bool **)

  let ltb n0 m =
    leb (S n0) m
 end

(** val rev : 'a1 list -> 'a1 list **)

let rec rev = function
| [] -> []
| x :: l' -> app (rev l') (x :: [])

(** val map : ('a1 -> 'a2) -> 'a1 list -> 'a2 list **)

let rec map f = function
| [] -> []
| a :: t -> (f a) :: (map f t)

(** val fold_left : ('a1 -> 'a2 -> 'a1) -> 'a2 list -> 'a1 -> 'a1 **)

let rec fold_left f l a0 =
  match l with
  | [] -> a0
  | b :: t -> fold_left f t (f a0 b)

(** val existsb : ('a1 -> bool) -> 'a1 list -> bool **)

let rec existsb f = function
| [] -> false
| a :: l0 -> (||) (f a) (existsb f l0)

(** val filter : ('a1 -> bool) -> 'a1 list -> 'a1 list **)

let rec filter f = function
| [] -> []
| x :: l0 -> if f x then x :: (filter f l0) else filter f l0

(** val firstn : nat -> 'a1 list -> 'a1 list **)

let rec firstn n0 l =
  match n0 with
  | O -> []
  | S n1 -> (match l with
             | [] -> []
             | a :: l0 -> a :: (firstn n1 l0))

(** val skipn : nat -> 'a1 list -> 'a1 list **)

let rec skipn n0 l =
  match n0 with
  | O -> l
  | S n1 -> (match l with
             | [] -> []
             | _ :: l0 -> skipn n1 l0)

type positive =
| XI of positive
| XO of positive
| XH

type n =
| N0
| Npos of positive

type z =
| Z0
| Zpos of positive
| Zneg of positive

module Pos =
 struct
  type mask =
  | IsNul
  | IsPos of positive
  | IsNeg
 end

module Coq_Pos =
 struct
  (** val succ : positive -> positive **)

  let rec succ = function
  | XI p -> XO (succ p)
  | XO p -> XI p
  | XH -> XO XH

  (** val add : positive -> positive -> positive **)

  let rec add x y =
    match x with
    | XI p ->
      (match y with
       | XI q -> XO (add_carry p q)
       | XO q -> XI (add p q)
       | XH -> XO (succ p))
    | XO p ->
      (match y with
       | XI q -> XI (add p q)
       | XO q -> XO (add p q)
       | XH -> XI p)
    | XH -> (match y with
             | XI q -> XO (succ q)
             | XO q -> XI q
             | XH -> XO XH)

  (** val add_carry : positive -> positive -> positive **)

  and add_carry x y =
    match x with
    | XI p ->
      (match y with
       | XI q -> XI (add_carry p q)
       | XO q -> XO (add_carry p q)
       | XH -> XI (succ p))
    | XO p ->
      (match y with
       | XI q -> XO (add_carry p q)
       | XO q -> XI (add p q)
       | XH -> XO (succ p))
    | XH ->
      (match y with
       | XI q -> XI (succ q)
       | XO q -> XO (succ q)
       | XH -> XI XH)

  (** val pred_double : positive -> positive **)

  let rec pred_double = function
  | XI p -> XI (XO p)
  | XO p -> XI (pred_double p)
  | XH -> XH

  type mask = Pos.mask =
  | IsNul
  | IsPos of positive
  | IsNeg

  (** val succ_double_mask : mask -> mask **)

  let succ_double_mask = function
  | IsNul -> IsPos XH
  | IsPos p -> IsPos (XI p)
  | IsNeg -> IsNeg

  (** val double_mask : mask -> mask **)

  let double_mask = function
  | IsPos p -> IsPos (XO p)
  | x0 -> x0

  (** val double_pred_mask : positive -> mask **)

  let double_pred_mask = function
  | XI p -> IsPos (XO (XO p))
  | XO p -> IsPos (XO (pred_double p))
  | XH -> IsNul

  (** val sub_mask : positive -> positive -> mask **)

  let rec sub_mask x y =
    match x with
    | XI p ->
      (match y with
       | XI q -> double_mask (sub_mask p q)
       | XO q -> succ_double_mask (sub_mask p q)
       | XH -> IsPos (XO p))
    | XO p ->
      (match y with
       | XI q -> succ_double_mask (sub_mask_carry p q)
       | XO q -> double_mask (sub_mask p q)
       | XH -> IsPos (pred_double p))
    | XH -> (match y with
             | XH -> IsNul
             | _ -> IsNeg)

  (** val sub_mask_carry : positive -> positive -> mask **)

  and sub_mask_carry x y =
    match x with
    | XI p ->
      (match y with
       | XI q -> succ_double_mask (sub_mask_carry p q)
       | XO q -> double_mask (sub_mask p q)
       | XH -> IsPos (pred_double p))
    | XO p ->
      (match y with
       | XI q -> double_mask (sub_mask_carry p q)
       | XO q -> succ_double_mask (sub_mask_carry p q)
       | XH -> double_pred_mask p)
    | XH -> IsNeg

  (** val mul : positive -> positive -> positive **)

  let rec mul x y =
    match x with
    | XI p -> add y (XO (mul p y))
    | XO p -> XO (mul p y)
    | XH -> y

  (** val compare_cont : comparison -> positive -> positive -> comparison **)

  let rec compare_cont r x y =
    match x with
    | XI p ->
      (match y with
       | XI q -> compare_cont r p q
       | XO q -> compare_cont Gt p q
       | XH -> Gt)
    | XO p ->
      (match y with
       | XI q -> compare_cont Lt p q
       | XO q -> compare_cont r p q
       | XH -> Gt)
    | XH -> (match y with
             | XH -> r
             | _ -> Lt)

  (** val compare : positive -> positive -> comparison **)

  let compare =
    compare_cont Eq

  (** val eqb : positive -> positive -> bool **)

  let rec eqb p q =
    match p with
    | XI p0 -> (match q with
                | XI q0 -> eqb p0 q0
                | _ -> false)
    | XO p0 -> (match q with
                | XO q0 -> eqb p0 q0
                | _ -> false)
    | XH -> (match q with
             | XH -> true
             | _ -> false)

  (** val iter_op : ('a1 -> 'a1 -> 'a1) -> positive -> 'a1 -> 'a1 **)

  let rec iter_op op0 p a =
    match p with
    | XI p0 -> op0 a (iter_op op0 p0 (op0 a a))
    | XO p0 -> iter_op op0 p0 (op0 a a)
    | XH -> a

  (** val to_nat : positive -> nat **)

  let to_nat x =
    iter_op Coq__1.add x (S O)

  (** val of_succ_nat : nat -> positive **)

  let rec of_succ_nat = function
  | O -> XH
  | S x -> succ (of_succ_nat x)
 end

module N =
 struct
  (** val succ_double : n -> n **)

  let succ_double = function
  | N0 -> Npos XH
  | Npos p -> Npos (XI p)

  (** val double : n -> n **)

  let double = function
  | N0 -> N0
  | Npos p -> Npos (XO p)

  (** val add : n -> n -> n **)

  let add n0 m =
    match n0 with
    | N0 -> m
    | Npos p -> (match m with
                 | N0 -> n0
                 | Npos q -> Npos (Coq_Pos.add p q))

  (** val sub : n -> n -> n **)

  let sub n0 m =
    match n0 with
    | N0 -> N0
    | Npos n' ->
      (match m with
       | N0 -> n0
       | Npos m' ->
         (match Coq_Pos.sub_mask n' m' with
          | Coq_Pos.IsPos p -> Npos p
          | _ -> N0))

  (** val mul : n -> n -> n **)

  let mul n0 m =
    match n0 with
    | N0 -> N0
    | Npos p -> (match m with
                 | N0 -> N0
                 | Npos q -> Npos (Coq_Pos.mul p q))

  (** val compare : n -> n -> comparison **)

  let compare n0 m =
    match n0 with
    | N0 -> (match m with
             | N0 -> Eq
             | Npos _ -> Lt)
    | Npos n' -> (match m with
                  | N0 -> Gt
                  | Npos m' -> Coq_Pos.compare n' m')

  (** val eqb : n -> n -> bool **)

  let eqb n0 m =
    match n0 with
    | N0 -> (match m with
             | N0 -> true
             | Npos _ -> false)
    | Npos p -> (match m with
                 | N0 -> false
                 | Npos q -> Coq_Pos.eqb p q)

  (** val leb : n -> n -> bool **)

  let leb x y =
    match compare x y with
    | Gt -> false
    | _ -> true

  (** val ltb : n -> n -> bool **)

  let ltb x y =
    match compare x y with
    | Lt -> true
    | _ -> false

  (** val pos_div_eucl : positive -> n -> n * n **)

  let rec pos_div_eucl a b =
    match a with
    | XI a' ->
      let (q, r) = pos_div_eucl a' b in
      let r' = succ_double r in
      if leb b r' then ((succ_double q), (sub r' b)) else ((double q), r')
    | XO a' ->
      let (q, r) = pos_div_eucl a' b in
      let r' = double r in
      if leb b r' then ((succ_double q), (sub r' b)) else ((double q), r')
    | XH ->
      (match b with
       | N0 -> (N0, (Npos XH))
       | Npos p -> (match p with
                    | XH -> ((Npos XH), N0)
                    | _ -> (N0, (Npos XH))))

  (** val div_eucl : n -> n -> n * n **)

  let div_eucl a b =
    match a with
    | N0 -> (N0, N0)
    | Npos na -> (match b with
                  | N0 -> (N0, a)
                  | Npos _ -> pos_div_eucl na b)

  (** val div : n -> n -> n **)

  let div a b =
    fst (div_eucl a b)

  (** val modulo : n -> n -> n **)

  let modulo a b =
    snd (div_eucl a b)

  (** val to_nat : n -> nat **)

  let to_nat = function
  | N0 -> O
  | Npos p -> Coq_Pos.to_nat p

  (** val of_nat : nat -> n **)

  let of_nat = function
  | O -> N0
  | S n' -> Npos (Coq_Pos.of_succ_nat n')
 end

module Z =
 struct
  (** val double : z -> z **)

  let double = function
  | Z0 -> Z0
  | Zpos p -> Zpos (XO p)
  | Zneg p -> Zneg (XO p)

  (** val succ_double : z -> z **)

  let succ_double = function
  | Z0 -> Zpos XH
  | Zpos p -> Zpos (XI p)
  | Zneg p -> Zneg (Coq_Pos.pred_double p)

  (** val pred_double : z -> z **)

  let pred_double = function
  | Z0 -> Zneg XH
  | Zpos p -> Zpos (Coq_Pos.pred_double p)
  | Zneg p -> Zneg (XI p)

  (** val pos_sub : positive -> positive -> z **)

  let rec pos_sub x y =
    match x with
    | XI p ->
      (match y with
       | XI q -> double (pos_sub p q)
       | XO q -> succ_double (pos_sub p q)
       | XH -> Zpos (XO p))
    | XO p ->
      (match y with
       | XI q -> pred_double (pos_sub p q)
       | XO q -> double (pos_sub p q)
       | XH -> Zpos (Coq_Pos.pred_double p))
    | XH ->
      (match y with
       | XI q -> Zneg (XO q)
       | XO q -> Zneg (Coq_Pos.pred_double q)
       | XH -> Z0)

  (** val add : z -> z -> z **)

  let add x y =
    match x with
    | Z0 -> y
    | Zpos x' ->
      (match y with
       | Z0 -> x
       | Zpos y' -> Zpos (Coq_Pos.add x' y')
       | Zneg y' -> pos_sub x' y')
    | Zneg x' ->
      (match y with
       | Z0 -> x
       | Zpos y' -> pos_sub y' x'
       | Zneg y' -> Zneg (Coq_Pos.add x' y'))

  (** val opp : z -> z **)

  let opp = function
  | Z0 -> Z0
  | Zpos x0 -> Zneg x0
  | Zneg x0 -> Zpos x0

  (** val sub : z -> z -> z **)

  let sub m n0 =
    add m (opp n0)

  (** val mul : z -> z -> z **)

  let mul x y =
    match x with
    | Z0 -> Z0
    | Zpos x' ->
      (match y with
       | Z0 -> Z0
       | Zpos y' -> Zpos (Coq_Pos.mul x' y')
       | Zneg y' -> Zneg (Coq_Pos.mul x' y'))
    | Zneg x' ->
      (match y with
       | Z0 -> Z0
       | Zpos y' -> Zneg (Coq_Pos.mul x' y')
       | Zneg y' -> Zpos (Coq_Pos.mul x' y'))

  (** val compare : z -> z -> comparison **)

  let compare x y =
    match x with
    | Z0 -> (match y with
             | Z0 -> Eq
             | Zpos _ -> Lt
             | Zneg _ -> Gt)
    | Zpos x' -> (match y with
                  | Zpos y' -> Coq_Pos.compare x' y'
                  | _ -> Gt)
    | Zneg x' ->
      (match y with
       | Zneg y' -> compOpp (Coq_Pos.compare x' y')
       | _ -> Lt)

  (** val leb : z -> z -> bool **)

  let leb x y =
    match compare x y with
    | Gt -> false
    | _ -> true

  (** val ltb : z -> z -> bool **)

  let ltb x y =
    match compare x y with
    | Lt -> true
    | _ -> false

  (** val to_N : z -> n **)

  let to_N = function
  | Zpos p -> Npos p
  | _ -> N0

  (** val of_N : n -> z **)

  let of_N = function
  | N0 -> Z0
  | Npos p -> Zpos p

  (** val pos_div_eucl : positive -> z -> z * z **)

  let rec pos_div_eucl a b =
    match a with
    | XI a' ->
      let (q, r) = pos_div_eucl a' b in
      let r' = add (mul (Zpos (XO XH)) r) (Zpos XH) in
      if ltb r' b
      then ((mul (Zpos (XO XH)) q), r')
      else ((add (mul (Zpos (XO XH)) q) (Zpos XH)), (sub r' b))
    | XO a' ->
      let (q, r) = pos_div_eucl a' b in
      let r' = mul (Zpos (XO XH)) r in
      if ltb r' b
      then ((mul (Zpos (XO XH)) q), r')
      else ((add (mul (Zpos (XO XH)) q) (Zpos XH)), (sub r' b))
    | XH -> if leb (Zpos (XO XH)) b then (Z0, (Zpos XH)) else ((Zpos XH), Z0)

  (** val div_eucl : z -> z -> z * z **)

  let div_eucl a b =
    match a with
    | Z0 -> (Z0, Z0)
    | Zpos a' ->
      (match b with
       | Z0 -> (Z0, a)
       | Zpos _ -> pos_div_eucl a' b
       | Zneg b' ->
         let (q, r) = pos_div_eucl a' (Zpos b') in
         (match r with
          | Z0 -> ((opp q), Z0)
          | _ -> ((opp (add q (Zpos XH))), (add b r))))
    | Zneg a' ->
      (match b with
       | Z0 -> (Z0, a)
       | Zpos _ ->
         let (q, r) = pos_div_eucl a' b in
         (match r with
          | Z0 -> ((opp q), Z0)
          | _ -> ((opp (add q (Zpos XH))), (sub b r)))
       | Zneg b' -> let (q, r) = pos_div_eucl a' (Zpos b') in (q, (opp r)))

  (** val modulo : z -> z -> z **)

  let modulo a b =
    let (_, r) = div_eucl a b in r
 end

type kc = n * n

(** val keys : kc list -> n list **)

let keys l =
  map fst l

(** val lookup : n -> kc list -> n option **)

let rec lookup k = function
| [] -> None
| k0 :: t -> let (k', c) = k0 in if N.eqb k k' then Some c else lookup k t

(** val rm : n -> kc list -> kc list **)

let rec rm k = function
| [] -> []
| k0 :: t ->
  let (k', c) = k0 in if N.eqb k k' then rm k t else (k', c) :: (rm k t)

(** val mem : n -> n list -> bool **)

let mem k l =
  existsb (N.eqb k) l

type call =
| Access of n * n
| Admit of n * n
| Remove of n
| Evict of n
| Clear

type out =
| ODone
| OAdmit
| OReject
| OAdmitEvict of n list
| OVictims of n list * n

type policy = { pinit : __; pstep : (__ -> call -> __ * out);
                ptracked : (__ -> kc list) }

type pst = __

type lru_list = kc list

(** val ll_move_to_front : n -> lru_list -> lru_list **)

let ll_move_to_front k l =
  match lookup k l with
  | Some c -> (k, c) :: (rm k l)
  | None -> l

(** val ll_push_front : n -> n -> lru_list -> lru_list **)

let ll_push_front k c l =
  (k, c) :: (rm k l)

(** val ll_remove : n -> lru_list -> lru_list **)

let ll_remove =
  rm

(** val pop_while : n -> n -> kc list -> (n list * n) * kc list **)

let rec pop_while want freed r = match r with
| [] -> (([], freed), [])
| k0 :: t ->
  let (k, c) = k0 in
  if N.ltb freed want
  then let (p, rest) = pop_while want (N.add freed c) t in
       let (vs, f) = p in (((k :: vs), f), rest)
  else (([], freed), r)

(** val ll_evict : n -> lru_list -> (lru_list * n list) * n **)

let ll_evict n0 l =
  let (p, rest) = pop_while n0 N0 (rev l) in
  let (vs, f) = p in (((rev rest), vs), f)

(** val lru_step : lru_list -> call -> lru_list * out **)

let lru_step l = function
| Access (k, _) -> ((ll_move_to_front k l), ODone)
| Admit (k, c) -> ((ll_push_front k c l), OAdmit)
| Remove k -> ((ll_remove k l), ODone)
| Evict n0 ->
  let (p, f) = ll_evict n0 l in let (l', vs) = p in (l', (OVictims (vs, f)))
| Clear -> ([], ODone)

(** val lruP : policy **)

let lruP =
  { pinit = (Obj.magic []); pstep = (Obj.magic lru_step); ptracked =
    (fun l -> Obj.magic l) }

(** val fifo_step : lru_list -> call -> lru_list * out **)

let fifo_step l = function
| Access (_, _) -> (l, ODone)
| Admit (k, c) ->
  ((match lookup k l with
    | Some _ -> l
    | None -> ll_push_front k c l), OAdmit)
| Remove k -> ((ll_remove k l), ODone)
| Evict n0 ->
  let (p, f) = ll_evict n0 l in let (l', vs) = p in (l', (OVictims (vs, f)))
| Clear -> ([], ODone)

(** val fifoP : policy **)

let fifoP =
  { pinit = (Obj.magic []); pstep = (Obj.magic fifo_step); ptracked =
    (fun l -> Obj.magic l) }

type ent = (n * n) * bool

(** val ekey : ent -> n **)

let ekey e =
  fst (fst e)

(** val ecost : ent -> n **)

let ecost e =
  snd (fst e)

(** val eflag : ent -> bool **)

let eflag =
  snd

(** val ekc : ent -> kc **)

let ekc =
  fst

(** val eclear : ent -> ent **)

let eclear e =
  ((fst e), false)

(** val erm : n -> ent list -> ent list **)

let rec erm k = function
| [] -> []
| e :: t -> if N.eqb k (ekey e) then erm k t else e :: (erm k t)

(** val eset : n -> ent list -> ent list **)

let rec eset k = function
| [] -> []
| e :: t ->
  if N.eqb k (ekey e) then ((fst e), true) :: (eset k t) else e :: (eset k t)

(** val ehas : n -> ent list -> bool **)

let rec ehas k = function
| [] -> false
| e :: t -> if N.eqb k (ekey e) then true else ehas k t

(** val eindex : n -> ent list -> nat option **)

let rec eindex k = function
| [] -> None
| e :: t ->
  if N.eqb k (ekey e)
  then Some O
  else (match eindex k t with
        | Some i -> Some (S i)
        | None -> None)

(** val scan : ent list -> ent list * (ent * ent list) option **)

let rec scan = function
| [] -> ([], None)
| e :: t ->
  if eflag e
  then let (cl, r) = scan t in (((eclear e) :: cl), r)
  else ([], (Some (e, t)))

type sieve = { sv_r : ent list; sv_hand : nat }

(** val sieve_admit : n -> n -> sieve -> sieve **)

let sieve_admit k c s =
  { sv_r = (app (erm k s.sv_r) (((k, c), false) :: [])); sv_hand = s.sv_hand }

(** val sieve_remove : n -> sieve -> sieve **)

let sieve_remove k s =
  let r = erm k s.sv_r in
  { sv_r = r; sv_hand =
  (if Nat.leb (length r) s.sv_hand then O else s.sv_hand) }

(** val sieve_evict_one : sieve -> (ent * sieve) option **)

let sieve_evict_one s =
  let pre = firstn s.sv_hand s.sv_r in
  let post = skipn s.sv_hand s.sv_r in
  let (cl, o) = scan post in
  (match o with
   | Some p ->
     let (v, rest) = p in
     Some (v, { sv_r = (app pre (app cl rest)); sv_hand =
     (add s.sv_hand (length cl)) })
   | None ->
     (match app pre cl with
      | [] -> None
      | v :: rest -> Some (v, { sv_r = rest; sv_hand = O })))

(** val evict_loop :
    ('a1 -> (ent * 'a1) option) -> nat -> n -> n -> 'a1 -> n list -> ('a1 * n
    list) * n **)

let rec evict_loop one fuel want freed s acc =
  match fuel with
  | O -> ((s, (rev acc)), freed)
  | S f ->
    if N.ltb freed want
    then (match one s with
          | Some p ->
            let (v, s') = p in
            evict_loop one f want (N.add freed (ecost v)) s' ((ekey v) :: acc)
          | None -> ((s, (rev acc)), freed))
    else ((s, (rev acc)), freed)

(** val sieve_step : sieve -> call -> sieve * out **)

let sieve_step s = function
| Access (k, _) -> ({ sv_r = (eset k s.sv_r); sv_hand = s.sv_hand }, ODone)
| Admit (k, c) -> ((sieve_admit k c s), OAdmit)
| Remove k -> ((sieve_remove k s), ODone)
| Evict n0 ->
  let (p, f) = evict_loop sieve_evict_one (length s.sv_r) n0 N0 s [] in
  let (s', vs) = p in (s', (OVictims (vs, f)))
| Clear -> ({ sv_r = []; sv_hand = O }, ODone)

(** val sieveP : policy **)

let sieveP =
  { pinit = (Obj.magic { sv_r = []; sv_hand = O }); pstep =
    (Obj.magic sieve_step); ptracked = (fun s -> map ekc (Obj.magic s).sv_r) }

type clock = { ck_o : ent list; ck_hand : nat }

(** val esetcost : n -> n -> ent list -> ent list **)

let rec esetcost k c = function
| [] -> []
| e :: t ->
  if N.eqb k (ekey e)
  then ((k, c), (eflag e)) :: (esetcost k c t)
  else e :: (esetcost k c t)

(** val clock_admit : n -> n -> clock -> clock **)

let clock_admit k c s =
  if ehas k s.ck_o
  then { ck_o = (esetcost k c s.ck_o); ck_hand = s.ck_hand }
  else { ck_o = (app s.ck_o (((k, c), false) :: [])); ck_hand = s.ck_hand }

(** val clock_remove : n -> clock -> clock **)

let clock_remove k s =
  match eindex k s.ck_o with
  | Some pos ->
    { ck_o = (erm k s.ck_o); ck_hand =
      (if (&&) (Nat.leb pos s.ck_hand) (Nat.ltb O s.ck_hand)
       then pred s.ck_hand
       else s.ck_hand) }
  | None -> s

(** val clock_evict_one : clock -> (ent * clock) option **)

let clock_evict_one s =
  let h = if Nat.leb (length s.ck_o) s.ck_hand then O else s.ck_hand in
  let pre = firstn h s.ck_o in
  let post = skipn h s.ck_o in
  let (cl, o) = scan post in
  (match o with
   | Some p ->
     let (v, rest) = p in
     Some (v, { ck_o = (app pre (app cl rest)); ck_hand =
     (add h (length cl)) })
   | None ->
     let (cl2, o0) = scan (app pre cl) in
     (match o0 with
      | Some p ->
        let (v, rest) = p in
        Some (v, { ck_o = (app cl2 rest); ck_hand = (length cl2) })
      | None -> None))

(** val clock_step : clock -> call -> clock * out **)

let clock_step s = function
| Access (k, _) -> ({ ck_o = (eset k s.ck_o); ck_hand = s.ck_hand }, ODone)
| Admit (k, c) -> ((clock_admit k c s), OAdmit)
| Remove k -> ((clock_remove k s), ODone)
| Evict n0 ->
  let (p, f) = evict_loop clock_evict_one (length s.ck_o) n0 N0 s [] in
  let (s', vs) = p in (s', (OVictims (vs, f)))
| Clear -> ({ ck_o = []; ck_hand = O }, ODone)

(** val clockP : policy **)

let clockP =
  { pinit = (Obj.magic { ck_o = []; ck_hand = O }); pstep =
    (Obj.magic clock_step); ptracked = (fun s -> map ekc (Obj.magic s).ck_o) }

type 'v amap = (n * 'v) list

(** val afind : n -> 'a1 amap -> 'a1 option **)

let rec afind k = function
| [] -> None
| p :: t -> let (k', v) = p in if N.eqb k k' then Some v else afind k t

(** val adel : n -> 'a1 amap -> 'a1 amap **)

let rec adel k = function
| [] -> []
| p :: t ->
  let (k', v) = p in if N.eqb k k' then adel k t else (k', v) :: (adel k t)

(** val aset : n -> 'a1 -> 'a1 amap -> 'a1 amap **)

let rec aset k v = function
| [] -> []
| p :: t ->
  let (k', v') = p in
  if N.eqb k k' then (k', v) :: (aset k v t) else (k', v') :: (aset k v t)

(** val akeys : 'a1 amap -> n list **)

let akeys m =
  map fst m

(** val ahas : n -> 'a1 amap -> bool **)

let ahas k m =
  match afind k m with
  | Some _ -> true
  | None -> false

(** val aput : n -> 'a1 -> 'a1 amap -> 'a1 amap **)

let aput k v m =
  if ahas k m then aset k v m else (k, v) :: m

(** val eVQ_CAP : n **)

let eVQ_CAP =
  Npos (XO (XO (XO (XO (XO (XO (XO (XO (XO XH)))))))))

(** val nQ_CAP : n **)

let nQ_CAP =
  Npos (XO (XO (XO (XO (XO (XO (XO XH)))))))

(** val cOOP_LIMIT : n **)

let cOOP_LIMIT =
  Npos (XO (XO (XO (XO XH))))

(** val jAN_LIMIT : n **)

let jAN_LIMIT =
  Npos (XO (XO (XO (XO (XO (XO (XO (XO XH))))))))

(** val sAMPLE : n **)

let sAMPLE =
  Npos (XO (XI (XO XH)))

(** val u64 : n **)

let u64 =
  Npos (XO (XO (XO (XO (XO (XO (XO (XO (XO (XO (XO (XO (XO (XO (XO (XO (XO
    (XO (XO (XO (XO (XO (XO (XO (XO (XO (XO (XO (XO (XO (XO (XO (XO (XO (XO
    (XO (XO (XO (XO (XO (XO (XO (XO (XO (XO (XO (XO (XO (XO (XO (XO (XO (XO
    (XO (XO (XO (XO (XO (XO (XO (XO (XO (XO (XO
    XH))))))))))))))))))))))))))))))))))))))))))))))))))))))))))))))))

(** val u64_MAX : n **)

let u64_MAX =
  Npos (XI (XI (XI (XI (XI (XI (XI (XI (XI (XI (XI (XI (XI (XI (XI (XI (XI
    (XI (XI (XI (XI (XI (XI (XI (XI (XI (XI (XI (XI (XI (XI (XI (XI (XI (XI
    (XI (XI (XI (XI (XI (XI (XI (XI (XI (XI (XI (XI (XI (XI (XI (XI (XI (XI
    (XI (XI (XI (XI (XI (XI (XI (XI (XI (XI
    XH)))))))))))))))))))))))))))))))))))))))))))))))))))))))))))))))

type reason =
| Capacity
| Expired
| Invalidated

type entry = { e_val : n; e_cost : n; e_exp : n; e_la : n;
               e_timer : n option; e_id : n }

type timer = { t_id : n; t_key : n; t_slot : n; t_laps : n }

type notif = { n_key : n; n_val : n; n_reason : reason; n_id : n }

type fixes = { fix_f15 : bool; fix_f16 : bool; fix_f18 : bool;
               fix_f28 : bool; fix_f33 : bool }

(** val no_fixes : fixes **)

let no_fixes =
  { fix_f15 = false; fix_f16 = false; fix_f18 = false; fix_f28 = false;
    fix_f33 = false }

(** val all_fixes : fixes **)

let all_fixes =
  { fix_f15 = true; fix_f16 = true; fix_f18 = true; fix_f28 = true; fix_f33 =
    true }

(** val impl_fixes : fixes **)

let impl_fixes =
  no_fixes

type cfg = { c_shards : n; c_cap : n; c_ttl : n option; c_tti : n option;
             c_wheel : n; c_tick : n; c_listener : bool; c_track : bool;
             c_opp : bool; c_intro : bool; c_fix : fixes }

type cfun =
| FSet of n
| FKeep

(** val capply : cfun -> n -> n **)

let capply f x =
  match f with
  | FSet v -> v
  | FKeep -> x

type op =
| OInsert of n * n * n
| OInsertTtl of n * n * n * n
| OGet of n
| OFetch of n
| OPeek of n
| OEntryOrInsert of n * n * n
| OEntryGet of n
| OCompute of n * cfun
| OComputeVal of n * cfun
| ORemove of n
| OInvalidate of n
| OClear
| OMultiGet of n list
| OMultiGetAsync of n list
| OMultiInsert of ((n * n) * n) list
| OMultiRemove of n list
| OMultiInvalidate of n list
| OMaint of n list
| OJanitorTick of n * n list
| OJanitorSignal of n * n list
| OAdvance of n
| OCost
| ODeliver of n

type res =
| RUnit
| ROpt of n option
| RBool of bool
| RVal of n
| RPairs of (n * n) list
| RCost of n

(** val take_n : n -> 'a1 list -> 'a1 list * 'a1 list **)

let rec take_n n0 l = match l with
| [] -> ([], [])
| x :: t ->
  if N.eqb n0 N0
  then ([], l)
  else let (a, b) = take_n (N.sub n0 (Npos XH)) t in ((x :: a), b)

(** val nseq_aux : nat -> n -> n list **)

let rec nseq_aux fuel i =
  match fuel with
  | O -> []
  | S f -> i :: (nseq_aux f (N.add i (Npos XH)))

(** val nseq : n -> n list **)

let nseq n0 =
  nseq_aux (N.to_nat n0) N0

(** val reorder : n list -> kc list -> kc list **)

let rec reorder ord b =
  match ord with
  | [] -> b
  | k :: r ->
    (match lookup k b with
     | Some c -> (k, c) :: (reorder r (rm k b))
     | None -> reorder r b)

(** val has_wheel : cfg -> bool **)

let has_wheel c =
  match c.c_ttl with
  | Some _ -> true
  | None -> (match c.c_tti with
             | Some _ -> true
             | None -> false)

(** val expired : cfg -> n -> entry -> bool **)

let expired c now e =
  (||) ((&&) (negb (N.eqb e.e_exp N0)) (N.leb e.e_exp now))
    (match c.c_tti with
     | Some d -> N.leb (N.add e.e_la d) now
     | None -> false)

(** val ticks_of : cfg -> n -> n **)

let ticks_of c d =
  N.div (N.add (N.mul (Npos (XO XH)) d) c.c_tick)
    (N.mul (Npos (XO XH)) c.c_tick)

(** val shard_of : cfg -> n -> n **)

let shard_of c k =
  N.modulo k c.c_shards

type shard = { s_map : entry amap; s_pol : pst; s_evq : kc list;
               s_batch : kc list; s_tick : n; s_timers : timer list }

type state = { st_sh : (n -> shard); st_cc : z; st_now : n;
               st_nq : notif list; st_log : notif list; st_tid : n;
               st_eid : n; st_evdrops : n; st_ndrops : n }

(** val pcall : policy -> pst -> call -> pst **)

let pcall p p0 cl =
  fst (p.pstep p0 cl)

(** val init_shard : policy -> shard **)

let init_shard p =
  { s_map = []; s_pol = p.pinit; s_evq = []; s_batch = []; s_tick = N0;
    s_timers = [] }

(** val init : policy -> n -> state **)

let init p now0 =
  { st_sh = (fun _ -> init_shard p); st_cc = Z0; st_now = now0; st_nq = [];
    st_log = []; st_tid = N0; st_eid = N0; st_evdrops = N0; st_ndrops = N0 }

(** val set_sh : policy -> state -> n -> shard -> state **)

let set_sh _ s i x =
  { st_sh = (fun j -> if N.eqb j i then x else s.st_sh j); st_cc = s.st_cc;
    st_now = s.st_now; st_nq = s.st_nq; st_log = s.st_log; st_tid = s.st_tid;
    st_eid = s.st_eid; st_evdrops = s.st_evdrops; st_ndrops = s.st_ndrops }

(** val set_cc : policy -> state -> z -> state **)

let set_cc _ s z0 =
  { st_sh = s.st_sh; st_cc = z0; st_now = s.st_now; st_nq = s.st_nq; st_log =
    s.st_log; st_tid = s.st_tid; st_eid = s.st_eid; st_evdrops =
    s.st_evdrops; st_ndrops = s.st_ndrops }

(** val add_cc : policy -> state -> z -> state **)

let add_cc p s z0 =
  set_cc p s (Z.add s.st_cc z0)

(** val sh_map : policy -> shard -> entry amap -> shard **)

let sh_map _ sh m =
  { s_map = m; s_pol = sh.s_pol; s_evq = sh.s_evq; s_batch = sh.s_batch;
    s_tick = sh.s_tick; s_timers = sh.s_timers }

(** val sh_pol : policy -> shard -> pst -> shard **)

let sh_pol _ sh p =
  { s_map = sh.s_map; s_pol = p; s_evq = sh.s_evq; s_batch = sh.s_batch;
    s_tick = sh.s_tick; s_timers = sh.s_timers }

(** val sh_timers : policy -> shard -> timer list -> shard **)

let sh_timers _ sh t =
  { s_map = sh.s_map; s_pol = sh.s_pol; s_evq = sh.s_evq; s_batch =
    sh.s_batch; s_tick = sh.s_tick; s_timers = t }

(** val cc_obs : policy -> state -> n **)

let cc_obs _ s =
  Z.to_N (Z.modulo s.st_cc (Z.of_N u64))

(** val find : policy -> cfg -> state -> n -> entry option **)

let find _ c s k =
  afind k (s.st_sh (shard_of c k)).s_map

(** val notify : policy -> cfg -> state -> notif -> state **)

let notify _ c s n0 =
  if c.c_listener
  then if N.ltb (N.of_nat (length s.st_nq)) nQ_CAP
       then { st_sh = s.st_sh; st_cc = s.st_cc; st_now = s.st_now; st_nq =
              (app s.st_nq (n0 :: [])); st_log = s.st_log; st_tid = s.st_tid;
              st_eid = s.st_eid; st_evdrops = s.st_evdrops; st_ndrops =
              s.st_ndrops }
       else { st_sh = s.st_sh; st_cc = s.st_cc; st_now = s.st_now; st_nq =
              s.st_nq; st_log = s.st_log; st_tid = s.st_tid; st_eid =
              s.st_eid; st_evdrops = s.st_evdrops; st_ndrops =
              (N.add s.st_ndrops (Npos XH)) }
  else s

(** val ev_push : policy -> state -> n -> n -> n -> state **)

let ev_push p s i k cost =
  let sh = s.st_sh i in
  if N.ltb (N.of_nat (length sh.s_evq)) eVQ_CAP
  then set_sh p s i { s_map = sh.s_map; s_pol = sh.s_pol; s_evq =
         (app sh.s_evq ((k, cost) :: [])); s_batch = sh.s_batch; s_tick =
         sh.s_tick; s_timers = sh.s_timers }
  else { st_sh = s.st_sh; st_cc = s.st_cc; st_now = s.st_now; st_nq =
         s.st_nq; st_log = s.st_log; st_tid = s.st_tid; st_eid = s.st_eid;
         st_evdrops = (N.add s.st_evdrops (Npos XH)); st_ndrops =
         s.st_ndrops }

(** val cancel_timer : n option -> timer list -> timer list **)

let cancel_timer h ts =
  match h with
  | Some id -> filter (fun t -> negb (N.eqb t.t_id id)) ts
  | None -> ts

(** val schedule : policy -> cfg -> state -> n -> n -> n -> state * n **)

let schedule p c s i k d =
  let sh = s.st_sh i in
  let ticks = ticks_of c d in
  let t = { t_id = s.st_tid; t_key = k; t_slot =
    (N.modulo (N.add sh.s_tick ticks) c.c_wheel); t_laps =
    (N.div ticks c.c_wheel) }
  in
  let s1 = set_sh p s i (sh_timers p sh (t :: sh.s_timers)) in
  ({ st_sh = s1.st_sh; st_cc = s1.st_cc; st_now = s1.st_now; st_nq =
  s1.st_nq; st_log = s1.st_log; st_tid = (N.add s.st_tid (Npos XH)); st_eid =
  s1.st_eid; st_evdrops = s1.st_evdrops; st_ndrops = s1.st_ndrops }, s.st_tid)

(** val wheel_advance : policy -> cfg -> shard -> n list * shard **)

let wheel_advance _ c sh =
  let slot = N.modulo sh.s_tick c.c_wheel in
  let fired =
    filter (fun t -> (&&) (N.eqb t.t_slot slot) (N.eqb t.t_laps N0))
      sh.s_timers
  in
  let rest =
    filter (fun t -> negb ((&&) (N.eqb t.t_slot slot) (N.eqb t.t_laps N0)))
      sh.s_timers
  in
  let rest' =
    map (fun t ->
      if N.eqb t.t_slot slot
      then { t_id = t.t_id; t_key = t.t_key; t_slot = t.t_slot; t_laps =
             (N.sub t.t_laps (Npos XH)) }
      else t) rest
  in
  ((map (fun t -> t.t_key) fired), { s_map = sh.s_map; s_pol = sh.s_pol;
  s_evq = sh.s_evq; s_batch = sh.s_batch; s_tick =
  (N.add sh.s_tick (Npos XH)); s_timers = rest' })

(** val access_all : policy -> pst -> kc list -> pst **)

let access_all p p0 l =
  fold_left (fun p1 kc0 -> pcall p p1 (Access ((fst kc0), (snd kc0)))) l p0

(** val admit_all : policy -> cfg -> entry amap -> pst -> kc list -> pst **)

let admit_all p c m p0 l =
  fold_left (fun p1 kc0 ->
    if (&&) c.c_fix.fix_f28 (negb (ahas (fst kc0) m))
    then p1
    else pcall p p1 (Admit ((fst kc0), (snd kc0)))) l p0

(** val perform : policy -> cfg -> n -> n -> n list -> state -> state **)

let perform p c i limit ord s =
  let sh = s.st_sh i in
  let (writes, rest) = take_n limit sh.s_evq in
  let batch = reorder ord sh.s_batch in
  let wk = map fst writes in
  let early = filter (fun p0 -> negb (mem (fst p0) wk)) batch in
  let late = filter (fun p0 -> mem (fst p0) wk) batch in
  let p1 = access_all p sh.s_pol early in
  let p2 = admit_all p c sh.s_map p1 writes in
  let p3 = access_all p p2 late in
  set_sh p s i { s_map = sh.s_map; s_pol = p3; s_evq = rest; s_batch = [];
    s_tick = sh.s_tick; s_timers = sh.s_timers }

(** val drop_entry :
    policy -> cfg -> reason -> bool -> n -> state -> (n * entry) -> state **)

let drop_entry p c rsn cancel i s = function
| (k, e) ->
  let sh = s.st_sh i in
  let sh' = { s_map = (adel k sh.s_map); s_pol =
    (pcall p sh.s_pol (Remove k)); s_evq = sh.s_evq; s_batch = sh.s_batch;
    s_tick = sh.s_tick; s_timers =
    (if cancel then cancel_timer e.e_timer sh.s_timers else sh.s_timers) }
  in
  notify p c (add_cc p (set_sh p s i sh') (Z.opp (Z.of_N e.e_cost)))
    { n_key = k; n_val = e.e_val; n_reason = rsn; n_id = e.e_id }

(** val cleanup_ttl : policy -> cfg -> n -> state -> state **)

let cleanup_ttl p c i s =
  if has_wheel c
  then let (fired, sh1) = wheel_advance p c (s.st_sh i) in
       let s1 = set_sh p s i sh1 in
       (match fired with
        | [] -> s1
        | _ :: _ ->
          let victims =
            filter (fun ke ->
              (&&) (mem (fst ke) fired)
                ((||) (negb c.c_fix.fix_f16) (expired c s.st_now (snd ke))))
              sh1.s_map
          in
          fold_left (drop_entry p c Expired false i) victims s1)
  else s

(** val cleanup_tti : policy -> cfg -> n -> state -> state **)

let cleanup_tti p c i s =
  match c.c_tti with
  | Some _ ->
    let victims =
      filter (fun ke -> expired c s.st_now (snd ke))
        (fst (take_n sAMPLE (s.st_sh i).s_map))
    in
    fold_left (drop_entry p c Expired true i) victims s
  | None -> s

(** val evict_victim : policy -> cfg -> n -> (state * n) -> n -> state * n **)

let evict_victim p c i acc k =
  let (s, freed) = acc in
  let sh = s.st_sh i in
  (match afind k sh.s_map with
   | Some e ->
     ((notify p c (set_sh p s i (sh_map p sh (adel k sh.s_map))) { n_key = k;
        n_val = e.e_val; n_reason = Capacity; n_id = e.e_id }),
       (N.add freed e.e_cost))
   | None -> (s, freed))

(** val cleanup_cap : policy -> cfg -> n -> state -> state **)

let cleanup_cap p c i s =
  if N.leb (cc_obs p s) c.c_cap
  then s
  else let want = N.sub (cc_obs p s) c.c_cap in
       let sh = s.st_sh i in
       let (p', o) = p.pstep sh.s_pol (Evict want) in
       let s1 = set_sh p s i (sh_pol p sh p') in
       (match o with
        | OVictims (vs, rel) ->
          (match vs with
           | [] -> s1
           | _ :: _ ->
             let (s2, freed) = fold_left (evict_victim p c i) vs (s1, N0) in
             add_cc p s2
               (Z.opp (Z.of_N (if c.c_fix.fix_f18 then freed else rel))))
        | _ -> s1)

(** val maint_shard : policy -> cfg -> n list -> state -> n -> state **)

let maint_shard p c ord s i =
  cleanup_cap p c i
    (cleanup_tti p c i (cleanup_ttl p c i (perform p c i cOOP_LIMIT ord s)))

(** val run_maintenance : policy -> cfg -> n list -> state -> state **)

let run_maintenance p c ord s =
  fold_left (maint_shard p c ord) (nseq c.c_shards) s

(** val janitor_tick : policy -> cfg -> n -> n list -> state -> state **)

let janitor_tick p c i ord s =
  if N.ltb i c.c_shards
  then cleanup_cap p c i
         (cleanup_tti p c i
           (cleanup_ttl p c i (perform p c i jAN_LIMIT ord s)))
  else s

(** val janitor_signal : policy -> cfg -> n -> n list -> state -> state **)

let janitor_signal p c i ord s =
  if N.ltb i c.c_shards
  then cleanup_cap p c i (perform p c i jAN_LIMIT ord s)
  else s

(** val bump_eid : policy -> state -> state **)

let bump_eid _ s =
  { st_sh = s.st_sh; st_cc = s.st_cc; st_now = s.st_now; st_nq = s.st_nq;
    st_log = s.st_log; st_tid = s.st_tid; st_eid =
    (N.add s.st_eid (Npos XH)); st_evdrops = s.st_evdrops; st_ndrops =
    s.st_ndrops }

(** val insert_core :
    policy -> cfg -> state -> n -> n -> n -> n -> n option -> state **)

let insert_core p c s k v cost exp sched =
  let i = shard_of c k in
  (match sched with
   | Some d ->
     if has_wheel c
     then let (s', id) = schedule p c s i k d in
          let h = Some id in
          let la = match c.c_tti with
                   | Some _ -> s.st_now
                   | None -> N0 in
          let e = { e_val = v; e_cost = cost; e_exp = exp; e_la = la;
            e_timer = h; e_id = s.st_eid }
          in
          let sh = s'.st_sh i in
          let old = afind k sh.s_map in
          let s2 =
            bump_eid p (set_sh p s' i (sh_map p sh (aput k e sh.s_map)))
          in
          let s3 =
            match old with
            | Some o ->
              let sh2 = s2.st_sh i in
              add_cc p
                (set_sh p s2 i
                  (sh_timers p sh2 (cancel_timer o.e_timer sh2.s_timers)))
                (Z.opp (Z.of_N o.e_cost))
            | None -> s2
          in
          add_cc p (ev_push p s3 i k cost) (Z.of_N cost)
     else let h = None in
          let la = match c.c_tti with
                   | Some _ -> s.st_now
                   | None -> N0 in
          let e = { e_val = v; e_cost = cost; e_exp = exp; e_la = la;
            e_timer = h; e_id = s.st_eid }
          in
          let sh = s.st_sh i in
          let old = afind k sh.s_map in
          let s2 = bump_eid p (set_sh p s i (sh_map p sh (aput k e sh.s_map)))
          in
          let s3 =
            match old with
            | Some o ->
              let sh2 = s2.st_sh i in
              add_cc p
                (set_sh p s2 i
                  (sh_timers p sh2 (cancel_timer o.e_timer sh2.s_timers)))
                (Z.opp (Z.of_N o.e_cost))
            | None -> s2
          in
          add_cc p (ev_push p s3 i k cost) (Z.of_N cost)
   | None ->
     let h = None in
     let la = match c.c_tti with
              | Some _ -> s.st_now
              | None -> N0 in
     let e = { e_val = v; e_cost = cost; e_exp = exp; e_la = la; e_timer = h;
       e_id = s.st_eid }
     in
     let sh = s.st_sh i in
     let old = afind k sh.s_map in
     let s2 = bump_eid p (set_sh p s i (sh_map p sh (aput k e sh.s_map))) in
     let s3 =
       match old with
       | Some o ->
         let sh2 = s2.st_sh i in
         add_cc p
           (set_sh p s2 i
             (sh_timers p sh2 (cancel_timer o.e_timer sh2.s_timers)))
           (Z.opp (Z.of_N o.e_cost))
       | None -> s2
     in
     add_cc p (ev_push p s3 i k cost) (Z.of_N cost))

(** val opportunistic : policy -> cfg -> state -> n -> state **)

let opportunistic p c s k =
  if c.c_opp then perform p c (shard_of c k) cOOP_LIMIT [] s else s

(** val ttl_exp : cfg -> n -> n **)

let ttl_exp c now =
  match c.c_ttl with
  | Some d -> N.add now d
  | None -> N0

(** val do_insert : policy -> cfg -> state -> n -> n -> n -> state **)

let do_insert p c s k v cost =
  opportunistic p c (insert_core p c s k v cost (ttl_exp c s.st_now) c.c_ttl)
    k

(** val do_insert_ttl :
    policy -> cfg -> state -> n -> n -> n -> n -> state **)

let do_insert_ttl p c s k v cost d =
  opportunistic p c (insert_core p c s k v cost (N.add s.st_now d) (Some d)) k

(** val vacant_insert : policy -> cfg -> state -> n -> n -> n -> state **)

let vacant_insert p c s k v cost =
  let i = shard_of c k in
  let la = match c.c_tti with
           | Some _ -> s.st_now
           | None -> N0 in
  let e = { e_val = v; e_cost = cost; e_exp = (ttl_exp c s.st_now); e_la =
    la; e_timer = None; e_id = s.st_eid }
  in
  let sh = s.st_sh i in
  let old = afind k sh.s_map in
  let s2 = bump_eid p (set_sh p s i (sh_map p sh (aput k e sh.s_map))) in
  let s3 =
    match old with
    | Some o ->
      let sh2 = s2.st_sh i in
      add_cc p
        (set_sh p s2 i
          (sh_timers p sh2 (cancel_timer o.e_timer sh2.s_timers)))
        (Z.opp (Z.of_N o.e_cost))
    | None -> s2
  in
  add_cc p (ev_push p s3 i k cost) (Z.of_N cost)

(** val occupied : policy -> cfg -> state -> n -> entry option **)

let occupied p c s k =
  match find p c s k with
  | Some e ->
    if (&&) c.c_fix.fix_f15 (expired c s.st_now e) then None else Some e
  | None -> None

(** val do_or_insert :
    policy -> cfg -> state -> n -> n -> n -> state * res **)

let do_or_insert p c s k v cost =
  match occupied p c s k with
  | Some e -> (s, (RVal e.e_val))
  | None -> ((vacant_insert p c s k v cost), (RVal v))

(** val on_hit : policy -> cfg -> state -> n -> entry -> state **)

let on_hit p c s k e =
  let i = shard_of c k in
  let sh = s.st_sh i in
  let m =
    match c.c_tti with
    | Some _ ->
      aset k { e_val = e.e_val; e_cost = e.e_cost; e_exp = e.e_exp; e_la =
        s.st_now; e_timer = e.e_timer; e_id = e.e_id } sh.s_map
    | None -> sh.s_map
  in
  let b =
    if c.c_track
    then if mem k (keys sh.s_batch)
         then sh.s_batch
         else app sh.s_batch ((k, e.e_cost) :: [])
    else sh.s_batch
  in
  set_sh p s i { s_map = m; s_pol = sh.s_pol; s_evq = sh.s_evq; s_batch = b;
    s_tick = sh.s_tick; s_timers = sh.s_timers }

(** val do_read : policy -> cfg -> bool -> state -> n -> state * n option **)

let do_read p c hit s k =
  match find p c s k with
  | Some e ->
    if expired c s.st_now e
    then (s, None)
    else ((if hit then on_hit p c s k e else s), (Some e.e_val))
  | None -> (s, None)

(** val on_hit_direct : policy -> cfg -> state -> n -> entry -> state **)

let on_hit_direct p c s k e =
  let i = shard_of c k in
  let sh = s.st_sh i in
  let m =
    match c.c_tti with
    | Some _ ->
      aset k { e_val = e.e_val; e_cost = e.e_cost; e_exp = e.e_exp; e_la =
        s.st_now; e_timer = e.e_timer; e_id = e.e_id } sh.s_map
    | None -> sh.s_map
  in
  set_sh p s i { s_map = m; s_pol =
    (pcall p sh.s_pol (Access (k, e.e_cost))); s_evq = sh.s_evq; s_batch =
    sh.s_batch; s_tick = sh.s_tick; s_timers = sh.s_timers }

(** val do_read_direct : policy -> cfg -> state -> n -> state * n option **)

let do_read_direct p c s k =
  match find p c s k with
  | Some e ->
    if expired c s.st_now e
    then (s, None)
    else ((on_hit_direct p c s k e), (Some e.e_val))
  | None -> (s, None)

(** val do_multiget_gen :
    policy -> (state -> n -> state * n option) -> state -> n list -> (n * n)
    list -> state * (n * n) list **)

let rec do_multiget_gen p rd s ks acc =
  match ks with
  | [] -> (s, (rev acc))
  | k :: r ->
    let (s1, o) = rd s k in
    (match o with
     | Some v ->
       do_multiget_gen p rd s1 r
         (if mem k (map fst acc) then acc else (k, v) :: acc)
     | None -> do_multiget_gen p rd s1 r acc)

(** val computable : policy -> cfg -> state -> n -> entry option **)

let computable p c s k =
  match find p c s k with
  | Some e ->
    if (&&) c.c_fix.fix_f33 (expired c s.st_now e) then None else Some e
  | None -> None

(** val do_compute :
    policy -> cfg -> state -> n -> cfun -> state * n option **)

let do_compute p c s k f =
  match computable p c s k with
  | Some e ->
    let i = shard_of c k in
    let sh = s.st_sh i in
    ((set_sh p s i
       (sh_map p sh
         (aset k { e_val = (capply f e.e_val); e_cost = e.e_cost; e_exp =
           e.e_exp; e_la = e.e_la; e_timer = e.e_timer; e_id = e.e_id }
           sh.s_map))), (Some e.e_val))
  | None -> (s, None)

(** val do_remove : policy -> cfg -> state -> n -> state * n option **)

let do_remove p c s k =
  let i = shard_of c k in
  let sh = s.st_sh i in
  (match afind k sh.s_map with
   | Some e ->
     let sh' = { s_map = (adel k sh.s_map); s_pol =
       (pcall p sh.s_pol (Remove k)); s_evq = sh.s_evq; s_batch = sh.s_batch;
       s_tick = sh.s_tick; s_timers = (cancel_timer e.e_timer sh.s_timers) }
     in
     ((notify p c (add_cc p (set_sh p s i sh') (Z.opp (Z.of_N e.e_cost)))
        { n_key = k; n_val = e.e_val; n_reason = Invalidated; n_id = e.e_id }),
     (Some e.e_val))
   | None -> (s, None))

(** val do_multi_remove :
    policy -> cfg -> state -> n list -> (n * n) list -> state * (n * n) list **)

let rec do_multi_remove p c s ks acc =
  match ks with
  | [] -> (s, (rev acc))
  | k :: r ->
    let (s1, o) = do_remove p c s k in
    (match o with
     | Some v -> do_multi_remove p c s1 r ((k, v) :: acc)
     | None -> do_multi_remove p c s1 r acc)

(** val clear_shard : policy -> state -> n -> state **)

let clear_shard p s i =
  let sh = s.st_sh i in
  let p0 =
    fold_left (fun p0 k -> pcall p p0 (Remove k)) (akeys sh.s_map) sh.s_pol
  in
  set_sh p s i { s_map = []; s_pol = (pcall p p0 Clear); s_evq = sh.s_evq;
    s_batch = sh.s_batch; s_tick = sh.s_tick; s_timers = sh.s_timers }

(** val do_clear : policy -> cfg -> state -> state **)

let do_clear p c s =
  set_cc p (fold_left (clear_shard p) (nseq c.c_shards) s) Z0

(** val do_multi_insert :
    policy -> cfg -> state -> ((n * n) * n) list -> state **)

let do_multi_insert p c s items =
  fold_left (fun s0 it ->
    let (y, cost) = it in
    let (k, v) = y in
    insert_core p c s0 k v cost (ttl_exp c s0.st_now) c.c_ttl) items s

(** val flush_intro : policy -> cfg -> state -> state **)

let flush_intro p c s =
  if c.c_intro
  then fold_left (fun s0 i -> perform p c i u64 [] s0) (nseq c.c_shards) s
  else s

(** val do_deliver : policy -> state -> n -> state **)

let do_deliver _ s n0 =
  let (a, b) = take_n n0 s.st_nq in
  { st_sh = s.st_sh; st_cc = s.st_cc; st_now = s.st_now; st_nq = b; st_log =
  (app s.st_log a); st_tid = s.st_tid; st_eid = s.st_eid; st_evdrops =
  s.st_evdrops; st_ndrops = s.st_ndrops }

(** val step : policy -> cfg -> state -> op -> state * res **)

let step p c s = function
| OInsert (k, v, cost) -> ((do_insert p c s k v cost), RUnit)
| OInsertTtl (k, v, cost, d) -> ((do_insert_ttl p c s k v cost d), RUnit)
| OGet k -> let (s', r) = do_read p c true s k in (s', (ROpt r))
| OFetch k -> let (s', r) = do_read p c true s k in (s', (ROpt r))
| OPeek k -> let (s', r) = do_read p c false s k in (s', (ROpt r))
| OEntryOrInsert (k, v, cost) -> do_or_insert p c s k v cost
| OEntryGet k ->
  (s, (ROpt
    (match occupied p c s k with
     | Some e -> Some e.e_val
     | None -> None)))
| OCompute (k, f) ->
  let (s', r) = do_compute p c s k f in
  (s', (RBool (match r with
               | Some _ -> true
               | None -> false)))
| OComputeVal (k, f) -> let (s', r) = do_compute p c s k f in (s', (ROpt r))
| ORemove k -> let (s', r) = do_remove p c s k in (s', (ROpt r))
| OInvalidate k ->
  let (s', r) = do_remove p c s k in
  (s', (RBool (match r with
               | Some _ -> true
               | None -> false)))
| OClear -> ((do_clear p c s), RUnit)
| OMultiGet ks ->
  let (s', l) = do_multiget_gen p (do_read p c true) s ks [] in
  (s', (RPairs l))
| OMultiGetAsync ks ->
  let (s', l) = do_multiget_gen p (do_read_direct p c) s ks [] in
  (s', (RPairs l))
| OMultiInsert items -> ((do_multi_insert p c s items), RUnit)
| OMultiRemove ks ->
  let (s', l) = do_multi_remove p c s ks [] in (s', (RPairs l))
| OMultiInvalidate ks -> ((fst (do_multi_remove p c s ks [])), RUnit)
| OMaint ord -> ((run_maintenance p c ord s), RUnit)
| OJanitorTick (i, ord) -> ((janitor_tick p c i ord s), RUnit)
| OJanitorSignal (i, ord) -> ((janitor_signal p c i ord s), RUnit)
| OAdvance d ->
  ({ st_sh = s.st_sh; st_cc = s.st_cc; st_now = (N.add s.st_now d); st_nq =
    s.st_nq; st_log = s.st_log; st_tid = s.st_tid; st_eid = s.st_eid;
    st_evdrops = s.st_evdrops; st_ndrops = s.st_ndrops }, RUnit)
| OCost -> let s' = flush_intro p c s in (s', (RCost (cc_obs p s')))
| ODeliver n0 -> ((do_deliver p s n0), RUnit)

(** val null_step : unit -> call -> unit * out **)

let null_step _ = function
| Admit (_, _) -> ((), OAdmit)
| Evict _ -> ((), (OVictims ([], N0)))
| _ -> ((), ODone)

(** val nullP : policy **)

let nullP =
  { pinit = (Obj.magic ()); pstep = (Obj.magic null_step); ptracked =
    (fun _ -> []) }
