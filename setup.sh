#!/bin/sh
# Offline build of the framework from files on disk: Coq development (full .vo),
# extracted OCaml model driver, Rust harness against /repo's working tree.
set -e
cd "$(dirname "$0")"
export CARGO_NET_OFFLINE=true
mkdir -p .build evidence replays
(cd coq && coq_makefile -f _CoqProject -o Makefile >/dev/null && timeout 3000 make -j16 >/dev/null)
python3 - <<'PY'
import sys
sys.path.insert(0, '.')
from vlib import common as C
C.build_model()
for crate in C.CRATES:
    exe, err = C.build_harness(crate)
    if exe is None:
        print(err[-3000:])
        sys.exit(1)
print("setup ok")
PY
