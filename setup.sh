#!/bin/sh
# Offline build of the framework from files on disk: Coq development (full .vo),
# extracted OCaml model driver, Rust harness against /repo's working tree.
set -e
cd "$(dirname "$0")"
export CARGO_NET_OFFLINE=true
mkdir -p .build evidence replays
python3 -c "import sys; sys.path.insert(0,'.'); from vlib import common as C; C.coq_makefile()"
(cd coq && timeout 3000 make -j16 >/dev/null)
python3 - <<'PY'
import sys
sys.path.insert(0, '.')
from vlib import common as C
import glob, os
for f in sorted(glob.glob('ocaml/eng_*.ml')):
    C.build_model(os.path.basename(f)[4:-3])
for crate in C.CRATES:
    exe, err = C.build_harness(crate)
    if exe is None:
        print(err[-3000:])
        sys.exit(1)
print("setup ok")
PY
