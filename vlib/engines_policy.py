"""E-POLICY D1 engine: fibre_cache::policy::* through the public CachePolicy trait.

Case line:  <policy>[:<capacity>] (a K C | m K C | r K | e N | c)*
Six policies are tied functionally (the model predicts the output).  Random and TinyLfu are tied
relationally: the RNG / frequency sketch are abstract components of their Coq models, so the model
driver is fed `<case> || <implementation output>` (Engine.model_input), replays the implementation's
choices as the abstract component and prints the model's output under them; the usual diff then
says whether the implementation's behaviour is one the model allows."""
import re
from .flow import Engine

KEYS = list(range(12))
COSTS = [0, 1, 1, 2, 2, 5, 100]
EVICTS = [0, 1, 2, 3, 7, 200]

# capacities around the f64 rounding boundaries of the constructors (x*0.20: .2/.4/.6/.8; x*0.01: .5 at 50, 150, 250)
CAPS = {
    "slru": [0, 1, 2, 3, 4, 5, 7, 8, 10, 12, 13, 50, 1000],
    "arc": [0, 1, 2, 3, 5, 8, 20, 100, 1000],
    "tinylfu": [0, 1, 2, 5, 20, 49, 50, 100, 101, 149, 150, 250, 1000],
}
ACCESS_UPDATES_COST = ("slru", "arc", "tinylfu")   # on_access(key, cost) stores `cost` (LruList::push_front)
RELATIONAL = ("random", "tinylfu")


def round_half_up_div(a, b):
    return (2 * a + b) // (2 * b)


def tinylfu_window_target(cap):
    """TinyLfuPolicy::new: max(1, round(cap * 0.01)) unless cap == 0 (written independently of the model)"""
    return 0 if cap == 0 else max(1, round_half_up_div(cap, 100))


class PolicyEngine(Engine):
    model_file = "Cache/Policy*.v"
    exe = "policy"

    def __init__(self, pol):
        self.pol = pol
        self.name = "policy." + pol
        self.caps = CAPS.get(pol)
        self.relational = pol in RELATIONAL
        self.deterministic = not self.relational
        self.access_updates = pol in ACCESS_UPDATES_COST

    def n_cases(self, tier):
        return 1000 if tier == "quick" else 15000

    def hdr(self, cap=None):
        if self.caps is None:
            return self.pol
        return "%s:%d" % (self.pol, self.caps[0] if cap is None else cap)

    def model_input(self, line, impl_out):
        return line + " || " + impl_out if self.relational else line

    def corpus(self):
        out = []
        for cap in ([None] if self.caps is None else [10, 2, 100]):
            p = self.hdr(cap)
            out += [p + " m 1 1 m 1 50 e 1",               # F-19 shape
                    p + " m 1 1 m 2 1 m 3 1 e 100",
                    p + " m 1 1 m 2 1 m 3 1 e 3",             # F-20 (admission demotes a resident)
                    p + " m 1 2 m 2 3 m 3 4 a 1 0 e 4",
                    p + " m 1 1 a 1 0 m 2 1 a 2 0 m 3 1 e 1 e 1 e 1 e 1",
                    p + " m 1 0 m 2 0 e 1 e 0",
                    p + " m 1 1 m 2 1 r 1 r 1 e 5 c e 1",
                    p + " m 1 1 e 1 m 1 1 e 1 m 1 1 e 1",     # F-20 (evict stalls below p)
                    p + " m 1 1 e 1",                         # F-21 shape
                    p + " m 1 1 a 1 5 e 1"]                   # on_access cost
        if self.pol == "slru":
            # f64 split at the top of the exact range (2^26 - 1): prob = 13421773, prot = 53687090
            out += ["slru:67108863 m 1 53687090 a 1 53687090 m 2 1 a 2 1 e 0 e 1 e 1",
                    "slru:67108863 m 1 53687089 a 1 53687089 m 2 1 a 2 1 e 0 e 1 e 1",
                    "slru:67108862 m 1 53687089 a 1 53687089 m 2 1 a 2 1 e 0 e 1 e 1"]
        if self.pol == "arc":
            # ghost hits with round(b2/b1) at a .5 boundary (3/2) and near 2^26
            out += ["arc:10 m 1 2 m 2 1 a 2 1 m 3 1 a 3 1 m 4 1 a 4 1 e 2 e 3 m 1 2 m 5 1 e 200",
                    "arc:67108863 m 1 2 m 2 33554431 a 2 33554431 m 3 1 a 3 1 e 2 e 33554432 m 1 2 e 1 m 4 4 e 200",
                    "arc:3 m 1 1 m 2 1 m 3 1 m 4 1 m 1 1 m 5 1 e 1 e 1 e 1 e 1"]
        if self.pol == "tinylfu":
            out += ["tinylfu:%d m 1 1 m 2 1 m 3 1 m 4 1 m 5 1 e 1 e 1 e 9" % c for c in (49, 50, 149, 150, 250, 6, 7, 8)]
            out += ["tinylfu:101 m 1 1 m 2 1 a 1 1 a 1 1 a 1 1 m 3 1 m 4 1 m 5 1 e 2 e 100",
                    "tinylfu:1 m 1 5 m 2 5 m 1 5 e 5",
                    "tinylfu:0 m 1 0 m 2 1 m 3 0 e 1"]
        return out

    def gen(self, rng, tier):
        n = rng.pick([1, 2, 3, 5, 8, 13, 20, 40, 80, 200])
        nk = rng.pick([2, 3, 5, 8, 12])
        toks = [self.hdr(rng.pick(self.caps)) if self.caps else self.pol]
        last = {}
        for _ in range(n):
            op = rng.weighted([("m", 40), ("a", 25), ("r", 10), ("e", 20), ("c", 2)])
            if op == "m":
                k, c = rng.below(nk), rng.pick(COSTS)
                last[k] = c
                toks += ["m", str(k), str(c)]
            elif op == "a":
                k = rng.below(nk + 1)
                # mostly what the cache passes (the entry's cost), sometimes a different one
                c = last[k] if (k in last and rng.chance(2, 3)) else rng.pick(COSTS)
                toks += ["a", str(k), str(c)]
            elif op == "r":
                toks += ["r", str(rng.below(nk + 1))]
            elif op == "e":
                toks += ["e", str(rng.pick(EVICTS))]
            else:
                toks += ["c"]
        return " ".join(toks)

    def split(self, line):
        t = line.split()
        hdr, ops, i = t[:1], [], 1
        ar = {"a": 3, "m": 3, "r": 2, "e": 2, "c": 1}
        while i < len(t):
            k = ar[t[i]]
            ops.append(t[i:i + k])
            i += k
        return hdr, ops

    def monitor(self, line, out):
        """C14 clauses judged on the implementation's outputs only.  `tracked` is the property-level
        notion: keys the policy was told are resident (admitted, not since nominated as a victim,
        removed or cleared) with the cost it was last told.

        Defects that are or were known get narrow clause ids (is_known matches engine + clause against
        the `known:` lines of known_findings.txt; `fixed:` lines suppress nothing):
          readmit-cost                 evict reports the cost of the *first* admission (F-19; known for Fifo only)
          arc-unevictable-resident     evict falls short and every key left could have been moved to a ghost
                                       list by an admission under capacity pressure, at most one per such
                                       admission (F-20-arc-admit, known)
          arc-evict-stall              any other shortfall of Arc (was F-20-arc-evict, fixed)
          tinylfu-window-unevictable   evict falls short by no more than the window's worth (was F-21, fixed)"""
        hdr, ops = self.split(line)
        cap = int(hdr[0].split(":")[1]) if ":" in hdr[0] else 0
        outs = [o.strip() for o in out.split(";")] if out.strip() else []
        hits = []
        tracked = {}       # full clause: re-admission updates the cost
        tracked_old = {}   # what F-19 does: re-admission keeps the old cost
        maybe_demoted = set()    # Arc: keys that were tracked when some other key was admitted at tracked cost >= capacity
        pressured_admits = 0     # ... and how many such admissions there were (each demotes at most one resident)
        slack = 0                # TinyLfu: cost added to (possibly window) keys by on_access since the last clear
                                 # (an on_admit of a key already in main does not trim the window)
        wt = tinylfu_window_target(cap)
        if len(outs) < len(ops) and not (outs and outs[-1] == "PANIC"):
            hits.append(("bad-output", "%d outputs for %d calls" % (len(outs), len(ops))))
        for op, o in zip(ops, outs):
            if o == "PANIC":
                hits.append(("panic", "op %s panicked" % " ".join(op)))
                break
            if op[0] == "a":
                k, c = int(op[1]), int(op[2])
                if o != "ok":
                    hits.append(("bad-output", o))
                    break
                if self.access_updates and k in tracked:
                    slack += max(0, c - tracked[k])
                    tracked[k] = c
                    tracked_old[k] = c
            elif op[0] == "m":
                k, c = int(op[1]), int(op[2])
                if sum(tracked.values()) >= cap and any(kk != k for kk in tracked):
                    maybe_demoted |= set(tracked)
                    pressured_admits += 1
                maybe_demoted.discard(k)
                if o == "admit":
                    tracked[k] = c
                    tracked_old.setdefault(k, c)
                elif o.startswith("admitevict"):
                    vs = [int(x) for x in o.split()[1].split(",")] if len(o.split()) > 1 else []
                    tracked[k] = c
                    tracked_old.setdefault(k, c)
                    if len(set(vs)) != len(vs):
                        hits.append(("victim-duplicate", "admission victims %r" % vs))
                    for v in vs:
                        if v not in tracked:
                            hits.append(("victim-untracked", "admit evicted untracked %d" % v))
                        tracked.pop(v, None)
                        tracked_old.pop(v, None)
                elif o == "reject":
                    # task/janitor.rs ignores Reject: the key stays resident but the policy need not track it
                    hits.append(("reject", "on_admit(%d) returned Reject, which the cache ignores" % k))
                else:
                    hits.append(("bad-output", o))
                    break
            elif op[0] == "r":
                tracked.pop(int(op[1]), None)
                tracked_old.pop(int(op[1]), None)
                maybe_demoted.discard(int(op[1]))
            elif op[0] == "c":
                tracked.clear()
                tracked_old.clear()
                maybe_demoted.clear()
                pressured_admits = 0
                slack = 0
            elif op[0] == "e":
                m = re.match(r"v \[([0-9,]*)\] (\d+)$", o)
                if not m:
                    hits.append(("bad-output", o))
                    break
                vs = [int(x) for x in m.group(1).split(",")] if m.group(1) else []
                c = int(m.group(2))
                n = int(op[1])
                if len(set(vs)) != len(vs):
                    hits.append(("victim-duplicate", "victims %r" % vs))
                unt = [v for v in vs if v not in tracked]
                if unt:
                    hits.append(("victim-untracked", "victims %r not tracked (tracked=%r)" % (unt, sorted(tracked))))
                    for v in unt:
                        tracked.setdefault(v, 0)
                        tracked_old.setdefault(v, 0)
                want = sum(tracked[v] for v in vs)
                if c != want:
                    if c == sum(tracked_old.get(v, 0) for v in vs):
                        hits.append(("readmit-cost", "evict reported %d, recorded costs sum to %d (old costs kept on re-admission)" % (c, want)))
                    else:
                        hits.append(("cost-mismatch", "evict reported %d, recorded costs sum to %d" % (c, want)))
                tot = min(sum(tracked.values()), sum(tracked_old.values()))
                if tot >= n and c < n:
                    left = sum(cc for kk, cc in tracked.items() if kk not in vs)
                    clause = "insufficient"
                    left_keys = set(kk for kk in tracked if kk not in vs)
                    if self.pol == "arc" and left_keys <= maybe_demoted and len(left_keys) <= pressured_admits:
                        clause = "arc-unevictable-resident"
                    elif self.pol == "arc":
                        clause = "arc-evict-stall"
                    elif self.pol == "tinylfu" and left <= wt + slack:
                        clause = "tinylfu-window-unevictable"
                    hits.append((clause, "evict(%d) freed %d although tracked keys are worth %d (keys left: %r)" % (
                        n, c, tot, sorted(kk for kk in tracked if kk not in vs))))
                for v in vs:
                    tracked.pop(v, None)
                    tracked_old.pop(v, None)
                    maybe_demoted.discard(v)
        return hits
