"""E-POLICY D1 engine: fibre_cache::policy::* through the public CachePolicy trait."""
import re
from .flow import Engine

KEYS = list(range(12))
COSTS = [0, 1, 1, 2, 2, 5, 100]
EVICTS = [0, 1, 2, 3, 7, 200]


class PolicyEngine(Engine):
    model_file = "Cache/Policy*.v"
    exe = "policy"

    def __init__(self, pol, deterministic=True):
        self.pol = pol
        self.name = "policy." + pol
        self.deterministic = deterministic

    def n_cases(self, tier):
        return 1500 if tier == "quick" else 30000

    def corpus(self):
        p = self.pol
        return [p + " m 1 1 m 1 50 e 1",               # F-19 shape
                p + " m 1 1 m 2 1 m 3 1 e 100",
                p + " m 1 2 m 2 3 m 3 4 a 1 0 e 4",
                p + " m 1 1 a 1 0 m 2 1 a 2 0 m 3 1 e 1 e 1 e 1 e 1",
                p + " m 1 0 m 2 0 e 1 e 0",
                p + " m 1 1 m 2 1 r 1 r 1 e 5 c e 1"]

    def gen(self, rng, tier):
        n = rng.pick([1, 2, 3, 5, 8, 13, 20, 40, 80, 200])
        nk = rng.pick([2, 3, 5, 8, 12])
        toks = [self.pol]
        for _ in range(n):
            op = rng.weighted([("m", 40), ("a", 25), ("r", 10), ("e", 20), ("c", 2)])
            if op == "m":
                toks += ["m", str(rng.below(nk)), str(rng.pick(COSTS))]
            elif op == "a":
                toks += ["a", str(rng.below(nk + 1)), str(rng.pick(COSTS))]
            elif op == "r":
                toks += ["r", str(rng.below(nk + 1))]
            elif op == "e":
                toks += ["e", str(rng.pick(EVICTS))]
            else:
                toks += ["c"]
        return " ".join(toks)

    def split(self, line):
        t = line.split()
        hdr, ops, i = t[:1], [], 1
        ar = {"a": 3, "m": 3, "r": 2, "e": 2, "c": 1}
        while i < len(t):
            k = ar[t[i]]
            ops.append(t[i:i + k])
            i += k
        return hdr, ops

    def monitor(self, line, out):
        """C14 clauses judged on the implementation's outputs only."""
        hdr, ops = self.split(line)
        outs = [o.strip() for o in out.split(";")] if out.strip() else []
        hits = []
        tracked = {}       # full clause: re-admission updates the cost
        tracked_old = {}   # what F-19 does: re-admission keeps the old cost
        for op, o in zip(ops, outs):
            if o == "PANIC":
                hits.append(("panic", "op %s panicked" % " ".join(op)))
                break
            if op[0] == "m":
                k, c = int(op[1]), int(op[2])
                if o == "admit":
                    tracked[k] = c
                    tracked_old.setdefault(k, c)
                elif o.startswith("admitevict"):
                    vs = [int(x) for x in o.split()[1].split(",")] if len(o.split()) > 1 else []
                    for v in vs:
                        if v not in tracked:
                            hits.append(("victim-untracked", "admit evicted untracked %d" % v))
                        tracked.pop(v, None)
                        tracked_old.pop(v, None)
                    tracked[k] = c
                    tracked_old.setdefault(k, c)
                elif o == "reject":
                    pass
            elif op[0] == "r":
                tracked.pop(int(op[1]), None)
                tracked_old.pop(int(op[1]), None)
            elif op[0] == "c":
                tracked.clear()
                tracked_old.clear()
            elif op[0] == "e":
                m = re.match(r"v \[([0-9,]*)\] (\d+)$", o)
                if not m:
                    hits.append(("bad-output", o))
                    break
                vs = [int(x) for x in m.group(1).split(",")] if m.group(1) else []
                c = int(m.group(2))
                n = int(op[1])
                if len(set(vs)) != len(vs):
                    hits.append(("victim-duplicate", "victims %r" % vs))
                unt = [v for v in vs if v not in tracked]
                if unt:
                    hits.append(("victim-untracked", "victims %r not tracked (tracked=%r)" % (unt, sorted(tracked))))
                    for v in unt:
                        tracked.setdefault(v, 0)
                        tracked_old.setdefault(v, 0)
                want = sum(tracked[v] for v in vs)
                if c != want:
                    if c == sum(tracked_old.get(v, 0) for v in vs):
                        hits.append(("readmit-cost", "evict reported %d, recorded costs sum to %d (old costs kept on re-admission)" % (c, want)))
                    else:
                        hits.append(("cost-mismatch", "evict reported %d, recorded costs sum to %d" % (c, want)))
                tot = min(sum(tracked.values()), sum(tracked_old.values()))
                if self.deterministic and tot >= n and c < n:
                    hits.append(("insufficient", "evict(%d) freed %d although tracked keys are worth %d" % (n, c, tot)))
                for v in vs:
                    tracked.pop(v, None)
                    tracked_old.pop(v, None)
        return hits
