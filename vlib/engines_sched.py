"""D2 scenario engine: small multi-threaded programs on the REAL channels under the deterministic
scheduler (harness/sched, hook H1), many seeded schedules per program, judged by the scenario
runner's property monitors.  Model-free: this is the implementation-side search for a failing
schedule (DESIGN §6) and never stands in for a theorem.

Flavour families (harness/sched/src/bin/scen.rs, src/scenmods/{spmc,topic}.rs):
  point-to-point, sync API     spsc mpscb mpscu mpmcb mpmcu spscrv mpscrv mpmcrv
  point-to-point, async API    <base>a: the threads use the async handles through sched::block_on; ops
                               sc / rc (poll once, drop), rp (re-poll with another waker); some threads
                               use the sync handle of the same channel (labels PS: / CS:)
  broadcast                    spmc (sync + a few async threads), spmca
  pub/sub                      topic, topica   (need hook H2-topic, docs/fixes/hook_H2_topic.diff; without it
                               the runner answers `ok skipped=no-hook`)
A FAIL line may carry several clause ids (`FAIL C05:deadlock,C06:missed-wake ...`): one violation each."""
from .flow import Engine

FLAVOURS = {
    # name: (max producers, max consumers, caps)
    "spsc": (1, 1, [1, 2, 3, 4]),
    "mpscb": (2, 1, [1, 2, 3]),
    "mpscu": (2, 1, [0]),
    "mpmcb": (2, 2, [1, 2, 3]),
    "mpmcu": (2, 2, [0]),
    "spscrv": (1, 1, [0]),
    "mpscrv": (2, 1, [0]),
    "mpmcrv": (2, 2, [0]),
}
SYNC_P2P = list(FLAVOURS)
ASYNC_P2P = [f + "a" for f in SYNC_P2P]
for _f in SYNC_P2P:
    FLAVOURS[_f + "a"] = FLAVOURS[_f]
FLAVOURS.update({
    # broadcast: 1 producer, up to 3 consumers
    "spmc": (1, 3, [1, 2, 3]),
    "spmca": (1, 3, [1, 2, 3]),
    # topic: up to 2 publisher threads, up to 2 receiver threads; cap = mailbox capacity
    "topic": (2, 2, [1, 2, 8, 8]),
    "topica": (2, 2, [1, 2, 8, 8]),
})

# Cancelling ops are generated only where a cancelled future is specified to be harmless in the tree
# as it is (recorded findings: F-31 rendezvous RecvFuture::drop destroys a handed-over value; F-11 mpsc
# bounded wakes one async sender per publication, a cancelled one does not pass the wake on):
NO_RECV_CANCEL = {"spscrva", "mpscrva", "mpmcrva"}          # no rc / async rt
NO_SEND_CANCEL_MULTI = {"mpscba"}                           # sc only with a single producer thread


class SchedEngine(Engine):
    crate = "sched"
    exe = "scen"
    model_free = True
    per_shard = 1
    model_file = "(none: implementation-side monitors)"

    def __init__(self, flavour, prop):
        self.flavour = flavour
        self.prop = prop
        self.name = "sched.%s" % flavour

    def n_cases(self, tier):
        return 5 if tier == "quick" else 150

    def runs(self, tier):
        return 30 if tier == "quick" else 400

    # ------------------------------------------------------------------ corpus
    def corpus(self):
        f = self.flavour
        cap = FLAVOURS[f][2][0]
        base = []
        if f in CORPUS:
            return list(CORPUS[f])
        if f in ASYNC_P2P:
            return self._corpus_async(f)
        if FLAVOURS[f][1] >= 2:
            # the shapes that exposed F-01 / F-02 / F-08
            base.append("%s %d 60 7 | P: s s s | P: s ts | C: r D | C: tr rt D" % (f, max(cap, 2) if cap else 0))
            base.append("%s %d 60 8 | P: s s | P: s | C: r D | C: rt D" % (f, cap))
        else:
            base.append("%s %d 60 9 | P: s s s | C: r rt D" % (f, cap))
            base.append("%s %d 60 10 | P: s ts s s | C: rt r D" % (f, cap))
        return base

    def _corpus_async(self, f):
        maxp, maxc, caps = FLAVOURS[f]
        cap = caps[0]
        rv = f in NO_RECV_CANCEL
        if maxc >= 2:
            # a woken-then-dropped async receive next to a parked sync receiver (the wake must be passed on);
            # two pending senders of which the woken one is dropped un-polled (cap >= 2: the slot stays free
            # and the only receiver stays alive but idle, op K)
            base = ["%s %d 120 7 | PS: s s | CS: r r | C: %s" % (f, cap, "r" if rv else "rw"),
                    "%s %d 120 8 | P: s s sw | P: s | CS: r %s" % (f, max(cap, 2) if cap else 0, "K" if f == "mpmcba" else "D")]
            if not rv:
                # a cancelled pending receive that was already handed an item must not reorder the
                # stream for the other consumer (seeded C02-2: eager hand-off + reclaim to the front)
                base.append("%s %d 300 5 | P: s s s | C: rw | C: r r r" % (f, cap))
            return base
        if maxp >= 2:
            # the last sender leaves while the async receiver registers; re-poll with another waker
            return ["%s %d 120 9 | P: s | P: | C: r r D" % (f, cap),
                    "%s %d 120 10 | P: s s | PS: s | C: rp rp %s D" % (f, cap, "r" if rv else "rw")]
        return ["%s %d 120 11 | P: s s s | C: rp rp %s D" % (f, cap, "r" if rv else "rw"),
                "%s %d 120 12 | P: s ts sw s | C: %s r D" % (f, cap, "r" if rv else "rt")]

    # ------------------------------------------------------------------ generators
    def gen(self, rng, tier):
        f = self.flavour
        if f in ("spmc", "spmca"):
            return self._gen_spmc(rng, tier)
        if f in ("topic", "topica"):
            return self._gen_topic(rng, tier)
        if f in ASYNC_P2P:
            return self._gen_async(rng, tier)
        maxp, maxc, caps = FLAVOURS[f]
        cap = rng.pick(caps)
        np = 1 + rng.below(maxp)
        nc = 1 + rng.below(maxc)
        parts = []
        for _ in range(np):
            n = 1 + rng.below(4)
            parts.append("P: " + " ".join(rng.weighted([("s", 6), ("ts", 3), ("y", 1)]) for _ in range(n)))
        for _ in range(nc):
            n = rng.below(4)
            ops = [rng.weighted([("r", 4), ("tr", 3), ("rt", 3), ("y", 1)]) for _ in range(n)]
            if rng.chance(5, 6):
                ops.append("D")
            parts.append("C: " + " ".join(ops))
        return "%s %d %d %d | %s" % (f, cap, self.runs(tier), 1 + rng.below(1 << 30), " | ".join(parts))

    def _gen_async(self, rng, tier):
        f = self.flavour
        maxp, maxc, caps = FLAVOURS[f]
        cap = rng.pick(caps)
        np = 1 + rng.below(maxp)
        nc = 1 + rng.below(maxc)
        send_cancel = not (f in NO_SEND_CANCEL_MULTI and np > 1)
        recv_cancel = f not in NO_RECV_CANCEL
        parts = []
        for _ in range(np):
            n = 1 + rng.below(4)
            if maxp > 1 and rng.chance(1, 4):
                parts.append("PS: " + " ".join(rng.weighted([("s", 6), ("ts", 3)]) for _ in range(n)))
                continue
            w = [("s", 6), ("ts", 2)] + ([("sc", 2), ("sw", 2)] if send_cancel else [])
            parts.append("P: " + " ".join(rng.weighted(w) for _ in range(n)))
        for _ in range(nc):
            n = rng.below(4)
            if maxc > 1 and rng.chance(1, 3):
                ops = [rng.weighted([("r", 5), ("tr", 2), ("rt", 2)]) for _ in range(n)]
                label = "CS: "
            else:
                w = [("r", 4), ("tr", 2), ("rp", 3)] + ([("rc", 2), ("rw", 2), ("rt", 2)] if recv_cancel else [])
                ops = [rng.weighted(w) for _ in range(n)]
                label = "C: "
            if f == "mpmcba" and rng.chance(1, 5):
                ops.append("K")
            elif rng.chance(5, 6):
                ops.append("D")
            parts.append(label + " ".join(ops))
        return "%s %d %d %d | %s" % (f, cap, self.runs(tier), 1 + rng.below(1 << 30), " | ".join(parts))

    def _gen_spmc(self, rng, tier):
        f = self.flavour
        _, maxc, caps = FLAVOURS[f]
        cap = rng.pick(caps)
        nc = 1 + rng.below(maxc)
        asy = f == "spmca"
        n = 2 + rng.below(4)
        # one pending send future at a time (F-spmc-sendwaker: the sender has a single waker slot)
        pw = [("s", 7), ("ts", 2)] + ([("sc", 1), ("sw", 1)] if asy else [])
        plabel = "P: "
        if not asy and rng.chance(1, 4):
            plabel, pw = "PA: ", [("s", 7), ("ts", 2), ("sc", 1), ("sw", 1)]
        parts = [plabel + " ".join(rng.weighted(pw) for _ in range(n))]
        for _ in range(nc):
            k = rng.below(4)
            a = asy != rng.chance(1, 4)     # mostly the flavour's kind, sometimes the other one
            label = ("C: " if a == asy else ("CA: " if a else "CS: "))
            w = [("r", 5), ("tr", 2), ("rt", 2)] + ([("rc", 1), ("rw", 1), ("rp", 2)] if a else [])
            ops = [rng.weighted(w) for _ in range(k)]
            ops.append(rng.weighted([("D", 6), ("dc", 3), ("cl", 2), ("", 1)]))
            parts.append(label + " ".join(o for o in ops if o))
        return "%s %d %d %d | %s" % (f, cap, self.runs(tier), 1 + rng.below(1 << 30), " | ".join(parts))

    def _gen_topic(self, rng, tier):
        f = self.flavour
        maxp, maxc, caps = FLAVOURS[f]
        cap = rng.pick(caps)
        np = 1 + rng.below(maxp)
        nc = 1 + rng.below(maxc)
        asy = f == "topica"
        parts = []
        budget = 6
        for _ in range(np):
            n = 1 + rng.below(3)
            budget -= n
            label = "P: " if not rng.chance(1, 4) else ("PS: " if asy else "PA: ")
            parts.append(label + " ".join("p%d" % (1 + rng.below(2)) for _ in range(n)))
        for _ in range(nc):
            a = asy != rng.chance(1, 4)
            label = ("C: " if a == asy else ("CA: " if a else "CS: "))
            ops = ["sub%d" % (1 + rng.below(2))]
            for _ in range(rng.below(5)):
                w = [("tr", 3), ("rt", 3), ("sub1", 1), ("sub2", 2), ("uns1", 1), ("uns2", 1), ("cln", 2), ("clk", 1)]
                if a:
                    w += [("rc", 1), ("rw", 1), ("rp", 2)]
                ops.append(rng.weighted(w))
            # `r` only as part of the final drain: a receiver without a matching publication would wait
            # for the last sender anyway, which is what D does
            ops.append(rng.weighted([("D", 7), ("cl", 1), ("rt", 1), ("", 1)]))
            parts.append(label + " ".join(o for o in ops if o))
        return "%s %d %d %d | %s" % (f, cap, self.runs(tier), 1 + rng.below(1 << 30), " | ".join(parts))

    # ------------------------------------------------------------------ shrinking / evidence
    def split(self, line):
        parts = [p.strip() for p in line.split("|")]
        hdr = [parts[0]]
        ops = []
        for ti, p in enumerate(parts[1:]):
            toks = p.split()
            ops.append(["|" + toks[0]])
            for t in toks[1:]:
                ops.append([t])
        return hdr, ops

    def join(self, header, ops):
        out = header[0]
        for op in ops:
            out += " " + (op[0][0] + " " + op[0][1:] if op[0].startswith("|") else op[0])
        return out

    def shape(self, line):
        return line.split("|", 1)[0].split()[0] + "|" + line.split("|", 1)[1]

    def nontrivial(self, line, out):
        return line.count("|") >= 2

    def monitor(self, line, out):
        if out.startswith("FAIL "):
            clauses = out.split()[1].split(",")
            return [(c, out[5:400]) for c in clauses]
        if out.startswith("ERROR bad scenario"):
            # a shrunk candidate that is not a program any more (e.g. an op before the first thread label)
            return []
        if not out.startswith("ok "):
            return [("%s:harness" % self.prop, out[:300])]
        return []


# Corpus of the broadcast / pub-sub flavours: the interleaving-specific shapes named in C07 / C08
CORPUS = {
    # (1) the lagging receiver is dropped / closed while the producer is parked on the full ring and the other
    #     receiver has caught up; (2) the sender goes away while receivers are parked on the empty ring
    "spmc": ["spmc 1 120 21 | P: s s s | C: r r r D | C: dc",
             "spmc 2 120 22 | P: s s | C: D | C: D | CA: r D"],
    "spmca": ["spmca 1 120 23 | P: s s s | C: r r r D | C: cl",
              "spmca 2 120 24 | P: s sw s | C: D | C: rp D | CS: rt D"],
    # (1) a receiver clone is made while the last sender leaves; (2) a timed receive is woken by a delivery
    #     right before the last sender leaves
    "topic": ["topic 8 120 31 | P: p1 | C: sub1 sub2 cln D",
              "topic 8 120 32 | P: p1 | P: p2 | C: sub1 rt rt D | C: sub2 cln rt tr D"],
    "topica": ["topica 8 120 33 | P: p1 p1 | C: sub1 sub2 cln rp D | CS: sub1 cln D",
               "topica 2 120 34 | P: p1 p2 | PS: p2 | C: sub1 rw rt D | CS: sub2 uns2 sub2 rt D"],
}


def _engines(prop, order=None):
    names = list(FLAVOURS)
    if order:
        # flow.py's D3 search budget takes the first engines only: most relevant flavours first
        names = [f for f in order if f in FLAVOURS] + [f for f in names if f not in order]
    return [SchedEngine(f, prop) for f in names]


_INFO = {"name": "D2-SCHED", "path": "harness/sched (scheduler + scen monitors), /repo hook H1 (traced sync backend), vlib/engines_sched.py",
         "kind": "implementation-side exploration of small scenario programs under a deterministic scheduler with property monitors (search aid for failing schedules; not a proof)"}
_ASSUME = ["D2 scheduler runs are sequentially consistent (one thread at a time): weak-memory behaviours are not exhibited",
           "timeouts fire by scheduler choice only for 20us recv_timeout calls (real Instant deadlines; no virtual time hook)",
           "D2 async scenarios: futures are driven by sched::block_on (one task per thread) or polled by hand with a counting waker; crate::async_util::AtomicWaker and papaya are not traced (their operations are atomic steps for the scheduler)",
           "D2 topic flavour runs only on a tree with hook H2-topic (docs/fixes/hook_H2_topic.diff); otherwise it reports `ok skipped=no-hook`"]

_P2P = SYNC_P2P + ASYNC_P2P
_SPMC = ["spmc", "spmca"]
_TOPIC = ["topic", "topica"]

_WHAT = {
    "C01": (_P2P, None, "dup / phantom / lost / panic"),
    "C02": (_P2P, None, "per-producer order at every consumer"),
    "C04": (_P2P + _SPMC + _TOPIC, ["mpscua", "mpmcba", "mpscba", "spmc", "topic"],
            "no value after Disconnected; Disconnected is observed once every sender finished (no-disc); no early Disconnected (spmc, topic)"),
    "C05": (_P2P + _SPMC + _TOPIC, ["mpmcba", "spmc", "spmca", "mpmcb"],
            "deadlock (a thread parked forever) and step-limit (livelock)"),
    "C06": (ASYNC_P2P + _SPMC + _TOPIC, ["spsca", "mpmcba", "mpscba", "mpscua", "mpmcua", "spmca"],
            "missed-wake: a thread stuck inside block_on (its waker is never invoked) after cancelled / re-polled futures; cancel-swallowed-wake: any thread (sync or async) stuck after a pending or woken future was dropped; mixed sync+async handles"),
    "C07": (_SPMC, None, "broadcast order / gap / dup per consumer, Disconnected only after the view is drained, backpressure released when a lagging consumer is dropped or closed"),
    "C08": (_TOPIC, None, "topic routing (only subscribed topics, publish order, at most once, nothing lost below capacity), Disconnected iff every sender handle is gone and the mailbox drained"),
    "C09": (SYNC_P2P + ASYNC_P2P, None, "drop counters: leak / double drop at teardown (also for cancelled send futures)"),
}

PROPS = {
    p: {"engines": [e for e in _engines(p, order) if e.flavour in fl], "assumptions": _ASSUME,
        "covers": "D2 schedule exploration with monitors on spsc/mpsc/mpmc bounded, unbounded and rendezvous (sync and async API, mixed handles), spmc broadcast and topic pub/sub: " + what,
        "engine_info": _INFO}
    for p, (fl, order, what) in _WHAT.items()
}
