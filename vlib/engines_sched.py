"""D2 scenario engine: small multi-threaded programs on the REAL channels under the deterministic
scheduler (harness/sched, hook H1), many seeded schedules per program, judged by the scenario
runner's property monitors.  Model-free: this is the implementation-side search for a failing
schedule (DESIGN §6) and never stands in for a theorem."""
from .flow import Engine

FLAVOURS = {
    # name: (max producers, max consumers, caps)
    "spsc": (1, 1, [1, 2, 3, 4]),
    "mpscb": (2, 1, [1, 2, 3]),
    "mpscu": (2, 1, [0]),
    "mpmcb": (2, 2, [1, 2, 3]),
    "mpmcu": (2, 2, [0]),
    "spscrv": (1, 1, [0]),
    "mpscrv": (2, 1, [0]),
    "mpmcrv": (2, 2, [0]),
}


class SchedEngine(Engine):
    crate = "sched"
    exe = "scen"
    model_free = True
    per_shard = 1
    model_file = "(none: implementation-side monitors)"

    def __init__(self, flavour, prop):
        self.flavour = flavour
        self.prop = prop
        self.name = "sched.%s" % flavour

    def n_cases(self, tier):
        return 5 if tier == "quick" else 150

    def runs(self, tier):
        return 30 if tier == "quick" else 400

    def corpus(self):
        f = self.flavour
        cap = FLAVOURS[f][2][0]
        base = []
        if FLAVOURS[f][1] >= 2:
            # the shapes that exposed F-01 / F-02 / F-08
            base.append("%s %d 60 7 | P: s s s | P: s ts | C: r D | C: tr rt D" % (f, max(cap, 2) if cap else 0))
            base.append("%s %d 60 8 | P: s s | P: s | C: r D | C: rt D" % (f, cap))
        else:
            base.append("%s %d 60 9 | P: s s s | C: r rt D" % (f, cap))
            base.append("%s %d 60 10 | P: s ts s s | C: rt r D" % (f, cap))
        return base

    def gen(self, rng, tier):
        f = self.flavour
        maxp, maxc, caps = FLAVOURS[f]
        cap = rng.pick(caps)
        np = 1 + rng.below(maxp)
        nc = 1 + rng.below(maxc)
        parts = []
        for _ in range(np):
            n = 1 + rng.below(4)
            parts.append("P: " + " ".join(rng.weighted([("s", 6), ("ts", 3), ("y", 1)]) for _ in range(n)))
        for _ in range(nc):
            n = rng.below(4)
            ops = [rng.weighted([("r", 4), ("tr", 3), ("rt", 3), ("y", 1)]) for _ in range(n)]
            if rng.chance(5, 6):
                ops.append("D")
            parts.append("C: " + " ".join(ops))
        return "%s %d %d %d | %s" % (f, cap, self.runs(tier), 1 + rng.below(1 << 30), " | ".join(parts))

    def split(self, line):
        parts = [p.strip() for p in line.split("|")]
        hdr = [parts[0]]
        ops = []
        for ti, p in enumerate(parts[1:]):
            toks = p.split()
            ops.append(["|" + toks[0]])
            for t in toks[1:]:
                ops.append([t])
        return hdr, ops

    def join(self, header, ops):
        out = header[0]
        for op in ops:
            out += " " + (op[0][0] + " " + op[0][1:] if op[0].startswith("|") else op[0])
        return out

    def shape(self, line):
        return line.split("|", 1)[0].split()[0] + "|" + line.split("|", 1)[1]

    def nontrivial(self, line, out):
        return line.count("|") >= 2

    def monitor(self, line, out):
        if out.startswith("FAIL "):
            clause = out.split()[1]
            return [(clause, out[5:400])]
        if not out.startswith("ok "):
            return [("%s:harness" % self.prop, out[:300])]
        return []


def _engines(prop):
    return [SchedEngine(f, prop) for f in FLAVOURS]


_INFO = {"name": "D2-SCHED", "path": "harness/sched (scheduler + scen monitors), /repo hook H1 (traced sync backend), vlib/engines_sched.py",
         "kind": "implementation-side exploration of small scenario programs under a deterministic scheduler with property monitors (search aid for failing schedules; not a proof)"}
_ASSUME = ["D2 scheduler runs are sequentially consistent (one thread at a time): weak-memory behaviours are not exhibited",
           "timeouts fire by scheduler choice only for 20us recv_timeout calls (real Instant deadlines; no virtual time hook)"]

PROPS = {
    p: {"engines": _engines(p), "assumptions": _ASSUME,
        "covers": "D2 schedule exploration with monitors on spsc/mpsc/mpmc bounded, unbounded and rendezvous (sync API): " + what,
        "engine_info": _INFO}
    for p, what in {
        "C01": "dup / phantom / lost / panic",
        "C02": "per-producer order at every consumer",
        "C04": "no value after Disconnected",
        "C05": "deadlock (a thread parked forever) and step-limit (livelock)",
        "C09": "drop counters: leak / double drop at teardown",
    }.items()
}
