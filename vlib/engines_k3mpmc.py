"""K3' bounded-MPMC engine: all-interleavings model of the bounded MPMC channel's SYNC paths
(coq/Chan/MpmcK3.v; theorems in coq/Proofs/MpmcK3*.v, pinned in coq/Props/C0x_k3mpmc.v) and its
tie to the real code:

  D2  pass 1: harness/sched/src/bin/k3mpmc.rs (a front end over `scen`, flavour `mpmcb`) runs a
      generated scenario program (N producers, M consumers) on the REAL channel under the
      deterministic scheduler and prints the complete atomic event trace plus the API results;
      pass 2 (flow's `model_input` hook): the extracted model (`modelrun_k3mpmc`,
      ocaml/eng_k3mpmc.ml over Conc.replay) must accept that trace event by event -- same
      variable, operation, Ordering, values read/written -- and reproduce the API results.
      LAYERING: the events of the HybridMutex protecting `internal` (mutex.state, wait_queue.*,
      yields/parks/unparks from mutex.rs / wait_queue.rs) belong to engine k3lock; the trace
      check skips them except the acquiring compare_exchange and the releasing fetch_and, which
      delimit the critical sections of this model.
      `S` cases are monitor-only schedule searches (scen's FAIL lines = concrete violations).
  D3  `K` cases: for every modelled Rust function, the ordered facade operations
      (variable, op, Orderings) and calls extracted here from the CURRENT source text, versus the
      table `skeleton` of the Coq model (built from the Ordering constants its step function uses).
"""
import os
import re

from . import common as C
from .flow import Engine
from .engines_k3spsc import _strip, _fn_bodies, _paren_end, ORD

CAPS = [1, 1, 2, 3, 4]

# ---------------------------------------------------------------------------------- D3 extractor
OPK = {"load": "load", "store": "store", "swap": "swap", "fetch_sub": "fsub", "fetch_add": "fadd",
       "compare_exchange": "cas", "compare_exchange_weak": "casw"}
VARMAP = {"waiter_state": "waiter.state", "state": "waiter.state", "st": "waiter.state"}
CALLS = "try_send_core|try_recv_core|send_sync|recv_sync|recv_timeout_sync|adaptive_wait|spin_hint|close_internal|close"
TOKEN_RE = re.compile(
    r"(?P<atom>(?P<var>\w+)\s*[\)\}]?\s*\.\s*(?P<op>load|store|swap|fetch_sub|fetch_add|compare_exchange_weak|compare_exchange)\s*\()"
    r"|(?P<lock>(?P<lvar>\w+)\s*\.\s*lock\s*\(\s*\))"
    r"|(?P<spin>hint::spin_loop\s*\(\s*\))"
    r"|(?P<yield>thread::yield_now\s*\(\s*\))"
    r"|(?P<unpark>\.\s*unpark\s*\(\s*\))"
    r"|(?P<wake>\.\s*wake\s*\(\s*\))"
    r"|(?P<parkt>thread::park_timeout\s*\()"
    r"|(?P<park>thread::park\s*\(\s*\))"
    r"|(?P<call>(?<![\w])(?<!fn )(?P<cname>" + CALLS + r")\s*\()")

_M = "channels/src/mpmc_v2/"
FUNCS = [
    ("core.rs::MpmcShared::try_send_core", _M + "core.rs", "MpmcShared", "try_send_core"),
    ("core.rs::MpmcShared::try_recv_core", _M + "core.rs", "MpmcShared", "try_recv_core"),
    ("core.rs::WakeRef::wake", _M + "core.rs", "WakeRef", "wake"),
    ("sync_impl.rs::send_sync", _M + "sync_impl.rs", None, "send_sync"),
    ("sync_impl.rs::recv_sync", _M + "sync_impl.rs", None, "recv_sync"),
    ("sync_impl.rs::recv_timeout_sync", _M + "sync_impl.rs", None, "recv_timeout_sync"),
    ("backoff.rs::adaptive_wait", _M + "backoff.rs", None, "adaptive_wait"),
    ("backoff.rs::spin_hint", _M + "backoff.rs", None, "spin_hint"),
    ("mod.rs::Sender::send", _M + "mod.rs", "Sender", "send"),
    ("mod.rs::Sender::try_send", _M + "mod.rs", "Sender", "try_send"),
    ("mod.rs::Sender::close", _M + "mod.rs", "Sender", "close"),
    ("mod.rs::Sender::close_internal", _M + "mod.rs", "Sender", "close_internal"),
    ("mod.rs::Sender::drop", _M + "mod.rs", "Sender", "drop"),
    ("mod.rs::Receiver::recv", _M + "mod.rs", "Receiver", "recv"),
    ("mod.rs::Receiver::try_recv", _M + "mod.rs", "Receiver", "try_recv"),
    ("mod.rs::Receiver::recv_timeout", _M + "mod.rs", "Receiver", "recv_timeout"),
    ("mod.rs::Receiver::close", _M + "mod.rs", "Receiver", "close"),
    ("mod.rs::Receiver::close_internal", _M + "mod.rs", "Receiver", "close_internal"),
    ("mod.rs::Receiver::drop", _M + "mod.rs", "Receiver", "drop"),
]


def _rows(body):
    rows = []
    for m in TOKEN_RE.finditer(body):
        if m.group("atom"):
            par = m.end() - 1
            args = body[par:_paren_end(body, par) + 1]
            os_ = re.findall(r"Ordering::(\w+)", args)
            var = VARMAP.get(m.group("var"), m.group("var"))
            rows.append("%s.%s.%s" % (var, OPK[m.group("op")], "/".join(ORD.get(x, x) for x in os_) if os_ else "?"))
        elif m.group("lock"):
            rows.append("%s.lock.-" % m.group("lvar"))
        elif m.group("spin"):
            rows.append("-.spin.-")
        elif m.group("yield"):
            rows.append("-.yield.-")
        elif m.group("unpark"):
            rows.append("-.unpark.-")
        elif m.group("wake"):
            rows.append("-.wake.-")
        elif m.group("parkt"):
            rows.append("-.parkt.-")
        elif m.group("park"):
            rows.append("-.park.-")
        elif m.group("call"):
            rows.append("call." + m.group("cname"))
    return rows


_src_cache = {}


def source_skeleton():
    """-> [(function id, [rows])] extracted from the current source text under C.REPO"""
    out = []
    for fid, rel, ty, fn in FUNCS:
        path = os.path.join(C.REPO, rel)
        if path not in _src_cache:
            try:
                _src_cache[path] = _fn_bodies(_strip(open(path).read()))
            except OSError:
                _src_cache[path] = None
        bodies = _src_cache[path]
        if bodies is None:
            out.append((fid, ["<missing-file>"]))
        elif (ty, fn) not in bodies:
            out.append((fid, ["<missing-fn>"]))
        else:
            out.append((fid, _rows(bodies[(ty, fn)]) or ["<no-facade-ops>"]))
    return out


# ---------------------------------------------------------------------------------- the engine
class K3MpmcEngine(Engine):
    name = "k3mpmc"
    crate = "sched"
    exe = "k3mpmc"
    per_shard = 8
    model_file = "Chan/MpmcK3.v"

    def n_cases(self, tier):
        return 260 if tier == "quick" else 10000

    # ---- generation: T = one traced schedule (replayed by the model), S = monitor-only search
    def corpus(self):
        ks = ["K %s %s" % (fid, " ".join(rows)) for fid, rows in source_skeleton()]
        fixed = [
            "T 1 11 pct | P: s s s | C: r r r",                          # park / wake in both directions
            "T 1 12 pct | P: s s s | P: s ts | C: r D | C: tr rt D",     # the F-02 / F-08 scenario
            "T 2 13 pct | P: s s s | P: s ts | C: r D | C: tr rt D",
            "T 1 14 rand | P: s s | C: rt rt | C: rt D",                 # timed receivers: cancel, re-arm
            "T 1 15 pct | P: s s s | C: r",                              # last receiver leaves: senders woken CLOSED
            "T 2 16 rand | P: s s s | P: s s | C: r | C: tr",            # a receiver leaves early: front sender woken
            "T 3 17 pct | P: ts ts ts ts s | C: tr r D",                 # Full, non-power-of-two capacity
            "T 1 18 pct | P: s | C: r | C: r | C: rt D",                 # last sender's close wakes all receivers
            "T 4 19 rand | P: | C: tr r D",                              # no sender at all
            "T 2 20 pct | P: s ts | C:",                                 # no receiver at all
            "S 1 21 40 | P: s s s | P: s ts | C: r D | C: tr rt D",
            "S 2 22 40 | P: s s | P: s s | C: rt r D | C: D",
        ]
        return ks + fixed

    def gen(self, rng, tier):
        cap = rng.pick(CAPS)
        np = rng.weighted([(1, 4), (2, 4), (3, 1)])
        nc = rng.weighted([(1, 3), (2, 4), (3, 2)])
        th = []
        for _ in range(np):
            th.append("P: " + " ".join(rng.weighted([("s", 6), ("ts", 3)]) for _ in range(rng.below(4) + (1 if rng.chance(7, 8) else 0))))
        for _ in range(nc):
            ops = [rng.weighted([("r", 5), ("tr", 3), ("rt", 4)]) for _ in range(rng.below(4))]
            if rng.chance(1, 2):
                ops.append("D")
            th.append("C: " + " ".join(ops))
        seed = 1 + rng.below(1 << 30)
        if rng.chance(1, 8):
            return "S %d %d %d | %s" % (cap, seed, 10 if tier == "quick" else 60, " | ".join(th))
        return "T %d %d %s | %s" % (cap, seed, rng.weighted([("pct", 3), ("rand", 2)]), " | ".join(th))

    # ---- two-pass plumbing
    def model_input(self, line, impl_out):
        kind = line.split(None, 1)[0]
        if kind == "T":
            _STATS["park_events"] += len(re.findall(r",park,-,-,-,\d+,\d+,\d+,1,backoff\.rs", impl_out))
            _STATS["parkt_events"] += impl_out.count(",parkt,")
            _STATS["lock_sections"] += impl_out.count(",fand,mutex.state#0,Rel,-,18446744073709551614,")
            _STATS["wake_cas"] += len(re.findall(r",cas,sync_impl\.done_flag#\d+,SeqCst,SeqCst,0,[13],", impl_out))
            _STATS["cancel_cas"] += len(re.findall(r",cas,sync_impl\.done_flag#\d+,SeqCst,SeqCst,0,8,", impl_out))
            return impl_out.split(" ;; ", 1)[1] if " ;; " in impl_out else "1 | P || || "
        if kind == "S":
            return "S"
        return line

    def canon(self, out):
        if " ;; " in out:            # implementation side of a T case: verdict ;; model case
            return out.split(" ;; ", 1)[0]
        if out.startswith("search ok"):
            return "search ok"
        return out

    # ---- shrinking: ops are the thread programs; the header keeps kind/cap/seed/policy + thread roles
    def split(self, line):
        if line.startswith("K "):
            return [line], []
        parts = [p.strip() for p in line.split("|")]
        ops = []
        roles = []
        for i, p in enumerate(parts[1:]):
            toks = p.split()
            roles.append(toks[0][0] if toks else "C")
            for t in toks[1:]:
                ops.append(["%d:%s" % (i, t)])
        return [parts[0], "".join(roles)], ops

    def join(self, header, ops):
        if header[0].startswith("K "):
            return header[0]
        roles = header[1]
        th = [[] for _ in roles]
        for o in ops:
            i, t = o[0].split(":", 1)
            th[int(i)].append(t)
        return "%s | %s" % (header[0], " | ".join("%s: %s" % (r, " ".join(x)) for r, x in zip(roles, th)))

    def shape(self, line):
        h, ops = self.split(line)
        t = h[0].split()
        return " ".join(t[:2]) + "|" + (h[1] if len(h) > 1 else "") + "|" + " ".join(o[0] for o in ops)

    def nontrivial(self, line, out):
        return line[0] in "TS" and len(self.split(line)[1]) >= 2

    # ---- property monitors: scen's judgement of the real run (clause ids already prefixed)
    def monitor(self, line, out):
        kind = line.split(None, 1)[0]
        if kind == "T" and out.startswith("ok "):
            _STATS["traces"] += 1
            _STATS["schedules"] += 1
            _STATS["events"] += int(out.split()[1])
        elif kind == "S" and out.startswith("search ok"):
            _STATS["schedules"] += int(line.split()[3])
        elif kind == "K":
            _STATS["skeleton_functions"] += 1
        if out.startswith("FAIL "):
            return [(out.split()[1], out[5:400])]
        if out.startswith("DRIVER"):
            return [("C05:harness", out[:300])]
        return []


ENGINE = K3MpmcEngine()

_STATS = {"traces": 0, "events": 0, "schedules": 0, "skeleton_functions": 0, "park_events": 0, "parkt_events": 0,
          "lock_sections": 0, "wake_cas": 0, "cancel_cas": 0}


def _install_evidence_hook():
    from . import flow
    if getattr(flow.Run, "_k3mpmc_evidence", False):
        return
    orig = flow.Run.finish

    def finish(self):
        eng = self.cov.get("engines", {}).get(ENGINE.name)
        if eng is not None:
            ok_traces = max(0, _STATS["traces"] - eng.get("mismatches", 0))
            self.cov["traces_validated_against_impl"] = self.cov.get("traces_validated_against_impl", 0) + ok_traces
            eng.update({"traces_replayed_by_model": _STATS["traces"], "events_replayed": _STATS["events"],
                        "schedules_explored": _STATS["schedules"],
                        "skeleton_functions_compared": _STATS["skeleton_functions"],
                        "park_events_in_traces": _STATS["park_events"], "park_timeout_events_in_traces": _STATS["parkt_events"],
                        "critical_sections_in_traces": _STATS["lock_sections"],
                        "wake_cas_events_in_traces": _STATS["wake_cas"], "cancel_cas_events_in_traces": _STATS["cancel_cas"]})
            self.cov["events_replayed"] = self.cov.get("events_replayed", 0) + _STATS["events"]
            self.cov["schedules_explored"] = self.cov.get("schedules_explored", 0) + _STATS["schedules"]
        return orig(self)

    flow.Run.finish = finish
    flow.Run._k3mpmc_evidence = True


_install_evidence_hook()

_INFO = {"name": "E-MPMC (k3mpmc)",
         "path": "coq/Chan/MpmcK3.v, coq/Proofs/MpmcK3{Base,Queue,Res,Proofs,Life,Wake,Examples}.v, coq/Props/C0x_k3mpmc.v, "
                 "ocaml/eng_k3mpmc.ml, harness/sched/src/bin/k3mpmc.rs (+scen.rs flavour mpmcb), vlib/engines_k3mpmc.py",
         "kind": "K3' all-interleavings model of mpmc::bounded sync paths (try_send_core / try_recv_core sections under the "
                 "HybridMutex, waiter queues, wake CAS WAITING->SUCCESS_SPACE + unpark, send_sync / recv_sync / "
                 "recv_timeout_sync with cancel CAS and re-arm, adaptive_wait, close/drop wake-ups); invariants proved for ALL "
                 "capacities, thread counts, programs and schedules; D2 trace refinement of real scheduler-controlled "
                 "executions (lock layer routed to k3lock) + D3 source skeleton vs the model's table"}
_ASSUME = [
    "K3' model semantics is sequentially consistent; the source's Orderings are carried as data and compared by D2 (per event) and D3 (per function row), not given a weak-memory semantics",
    "layering: the HybridMutex protecting `internal` is one lock variable in this model (acquire step enabled only while free, release step); its mutual exclusion and hand-over are what engine k3lock proves, and the trace check skips the lock-internal events by variable name / source file; park tokens are shared between the two layers, which the model covers by allowing a park to return spuriously at any time",
    "the ring (UnsynchronizedRingBuffer, sequential code under the lock) is modelled as a FIFO list with the cached queue_len; its index arithmetic is covered by the K2 engine mpmcb (D1); capacity >= 1 (bounded(0) panics)",
    "sync handles only: async waiter queues stay empty (their arms of the wake loops appear in D3 as rows using the same CAS); batch forms, close() as an API call, clone inside a scenario, len/is_empty are outside this engine (K2 engine mpmcb covers them sequentially)",
    "adaptive_wait's spin/yield budgets and the recv_timeout deadline are nondeterministic choices (any budget, deadline at any test); park = std one-token semantics plus spurious return by choice",
    "payload ids are (producer thread, sequence number); fewer than 2^64 operations",
]

PROPS = {
    "C01": {"engines": [ENGINE], "assumptions": _ASSUME, "engine_info": _INFO,
            "covers": "K3' mpmc::bounded sync paths, any number of producers/consumers, all schedules: accepted = popped ++ buffered, per-thread accounting over API results, no id accepted / popped twice, failed try_send/send never entered the ring"},
    "C02": {"engines": [ENGINE], "assumptions": _ASSUME, "engine_info": _INFO,
            "covers": "K3' mpmc::bounded sync paths, all schedules: the ring is FIFO (popped ++ buffered = accepted), per-producer push order, each consumer's subsequence from one producer is in send order"},
    "C03": {"engines": [ENGINE], "assumptions": _ASSUME, "engine_info": _INFO,
            "covers": "K3' mpmc::bounded sync paths, all schedules: queue_len = ring length <= cap in every reachable state; Full only from a section in which the ring held exactly cap values"},
    "C04": {"engines": [ENGINE], "assumptions": _ASSUME, "engine_info": _INFO,
            "covers": "K3' mpmc::bounded sync paths, all schedules: sender/receiver counts = live handles for any thread count; Disconnected only from a section with empty ring and sender_count = 0 (F-08 repair; refuted by vm_compute witness with the re-drain switched off) and that state is final"},
    "C05": {"engines": [ENGINE], "assumptions": _ASSUME, "engine_info": _INFO,
            "covers": "K3' mpmc::bounded sync paths, any number of threads, all schedules: no lost wakeup (quiescent => a parked receiver sees an empty ring and a live sender, a parked sender a full ring and a live receiver), hence deadlock freedom incl. after the other side is gone; wake accounting invariant (buffered values <= signalled receivers owing a poll, free slots <= signalled senders owing a retry); a signalled waiter that loses the item re-arms (F-02 repair; refuted by vm_compute witness without it) (partial: no fairness/eventually)"},
    "C09": {"engines": [ENGINE], "assumptions": _ASSUME, "engine_info": _INFO,
            "covers": "K3' mpmc::bounded sync paths, all schedules: a waiter-queue entry is always the current done_flag of a thread whose frame is alive (the wake CAS never touches a finished frame: bad = false), nobody linked twice; no unreachable!() (refuted without the F-02 repair)"},
}
