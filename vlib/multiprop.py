"""Properties served by several engines (the channel properties C01-C09): each
vlib/engines_*.py may define
    PROPS = {"C01": {"engines": [...], "witness": {...}, "assumptions": [...],
                     "covers": "one line: which flavours / which clauses this engine's theorems cover"}}
and vlib/props/Cxx.py is just `from ..multiprop import make; run, MANIFEST = make("Cxx", {...})`."""
import glob
import importlib
import os

from . import flow


def collect(prop):
    here = os.path.dirname(os.path.abspath(__file__))
    engines, witness, assumptions, covers, infos = [], {}, [], [], []
    for f in sorted(glob.glob(os.path.join(here, "engines_*.py"))):
        mod = importlib.import_module("vlib." + os.path.basename(f)[:-3])
        ent = getattr(mod, "PROPS", {}).get(prop)
        if not ent:
            continue
        engines += ent.get("engines", [])
        witness.update(ent.get("witness", {}))
        assumptions += ent.get("assumptions", [])
        if ent.get("covers"):
            covers.append(ent["covers"])
        if ent.get("engine_info"):
            infos.append(ent["engine_info"])
    only = os.environ.get("VERIF_ONLY_ENGINES")   # development aid: comma-separated engine-name prefixes
    if only:
        pre = tuple(x.strip() for x in only.split(",") if x.strip())
        engines = [e for e in engines if e.name.startswith(pre)]
        witness = {k: w for k, w in witness.items() if w[0] in engines}   # witnesses of filtered-out engines cannot be replayed
    return engines, witness, assumptions, covers, infos


def make(prop, base):
    engines, witness, assumptions, covers, infos = collect(prop)

    def run(tier, seed):
        extra = base.get("extra")
        return flow.standard(prop, tier, seed, engines, assumptions + base.get("assumptions", []), witness, extra)

    man = dict(base["manifest"])
    man["text"] = man["text"] + " Covered by: " + " | ".join(covers)
    man["engines"] = infos
    return run, man
