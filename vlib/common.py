"""Shared machinery for ./check: gates, builds, differential runs, evidence."""
import fcntl
import hashlib
import json
import os
import re
import subprocess
import sys
import time

VERIF = os.path.dirname(os.path.dirname(os.path.abspath(__file__)))
REPO = os.environ.get("VERIF_REPO", "/repo")
BUILD = os.path.join(VERIF, ".build")
COQ = os.path.join(VERIF, "coq")
OCAML_SRC = os.path.join(VERIF, "ocaml")
OCAML_BUILD = os.path.join(BUILD, "ocaml")
TARGET = os.path.join(BUILD, "target")
HARNESS = os.path.join(VERIF, "harness")
GUARD = "excsn_fibre_verif"
CRATES = ["seqdrv"]

ENV = dict(os.environ)
ENV.update({"CARGO_NET_OFFLINE": "true", "CARGO_TARGET_DIR": TARGET,
            "RUSTFLAGS": "--cfg " + GUARD, "CARGO_TERM_COLOR": "never"})


def log(*a):
    print(*a, file=sys.stderr, flush=True)


class Lock:
    def __init__(self, name):
        os.makedirs(BUILD, exist_ok=True)
        self.path = os.path.join(BUILD, name + ".lock")

    def __enter__(self):
        self.f = open(self.path, "w")
        fcntl.flock(self.f, fcntl.LOCK_EX)
        return self

    def __exit__(self, *a):
        fcntl.flock(self.f, fcntl.LOCK_UN)
        self.f.close()


def sh(cmd, timeout=None, cwd=None, env=None, inp=None):
    p = subprocess.run(cmd, shell=isinstance(cmd, str), cwd=cwd, env=env or ENV,
                       input=inp, capture_output=True, text=True, timeout=timeout)
    return p.returncode, p.stdout, p.stderr


# --------------------------------------------------------------------------
# static gate
FORBIDDEN = re.compile(
    r"\b(Admitted|admit|Axiom|Axioms|Parameter|Parameters|Conjecture|Conjectures|"
    r"Admit Obligations|bypass_check)\b|Unset\s+Guard|Unset\s+Positivity|Unset\s+Universe|"
    r"-type-in-type|-impredicative-set")


def strip_comments(src):
    out, depth, i = [], 0, 0
    while i < len(src):
        if src.startswith("(*", i):
            depth += 1
            i += 2
        elif src.startswith("*)", i) and depth:
            depth -= 1
            i += 2
        else:
            if not depth:
                out.append(src[i])
            i += 1
    return "".join(out)


def static_gate():
    """No Admitted/admit/Axiom/Parameter/...; Variable/Hypothesis/Context only inside a Section."""
    problems = []
    files = []
    with Lock("coq"):
        coq_makefile()   # (re)generates _CoqProject from the tree
    for root, _, fs in os.walk(COQ):
        for f in fs:
            if f.endswith(".v"):
                files.append(os.path.join(root, f))
    files.append(os.path.join(COQ, "_CoqProject"))
    for path in sorted(files):
        src = open(path).read()
        code = strip_comments(src) if path.endswith(".v") else src
        for m in FORBIDDEN.finditer(code):
            problems.append("%s: forbidden token %r" % (os.path.relpath(path, VERIF), m.group(0)))
        if path.endswith(".v"):
            depth = 0
            for sent in re.split(r"\.\s", code):
                s = sent.strip()
                if re.match(r"Section\s+\w+", s):
                    depth += 1
                elif re.match(r"End\s+\w+", s) and depth:
                    depth -= 1
                elif re.match(r"(Variable|Variables|Hypothesis|Hypotheses|Context)\b", s) and depth == 0:
                    problems.append("%s: %s outside a Section" % (os.path.relpath(path, VERIF), s.split()[0]))
    return len(files), problems


# --------------------------------------------------------------------------
# proof gate
def coq_project_text():
    """_CoqProject is generated from the tree: every .v under coq/, sorted"""
    vs = []
    for root, _, fs in os.walk(COQ):
        for f in fs:
            if f.endswith(".v") and not f.startswith("."):
                vs.append(os.path.relpath(os.path.join(root, f), COQ))
    return "-Q . Fibre\n" + "\n".join(sorted(vs)) + "\n"


def coq_makefile():
    mk = os.path.join(COQ, "Makefile")
    proj = os.path.join(COQ, "_CoqProject")
    txt = coq_project_text()
    old = open(proj).read() if os.path.exists(proj) else None
    if old != txt or not os.path.exists(mk):
        with open(proj, "w") as f:
            f.write(txt)
        rc, o, e = sh("coq_makefile -f _CoqProject -o Makefile", cwd=COQ, timeout=120)
        if rc:
            raise RuntimeError("coq_makefile failed: " + e)


def coq_build(targets, timeout=3000):
    """full .vo build (never -vos) of the closure of `targets`; returns (ok, log)"""
    with Lock("coq"):
        coq_makefile()
        rc, o, e = sh(["timeout", str(timeout), "make", "-j16"] + targets, cwd=COQ, timeout=timeout + 60)
        return rc == 0, (o + e)


THM_RE = re.compile(r"^\s*(Theorem|Example)\s+(\w+)", re.M)

ALLOWED_AXIOMS = {
    # std-library axioms that may appear; each is named in the evidence if it does
    "functional_extensionality_dep", "Eqdep.Eq_rect_eq.eq_rect_eq", "eq_rect_eq",
    "JMeq_eq", "proof_irrelevance", "classic", "propositional_extensionality",
}


def proof_gate(prop, extra_modules=()):
    """Build Props/<prop>.vo, then Print Assumptions for every Theorem/Example pinned there.
    Returns dict(theorems=[(name, assumptions_text)], ok, log, axioms=set)."""
    t0 = time.time()
    pfiles = sorted(f for f in os.listdir(os.path.join(COQ, "Props"))
                    if f.endswith(".v") and (f == prop + ".v" or f.startswith(prop + "_")))
    ok, blog = coq_build(["Props/%so" % f for f in pfiles])
    res = {"ok": ok, "log": blog[-4000:], "theorems": [], "axioms": set(), "bad": [], "wall": 0.0}
    if not ok:
        m = re.search(r'File "([^"]+)", line (\d+)', blog)
        res["where"] = "%s:%s" % (m.group(1), m.group(2)) if m else "?"
        res["wall"] = time.time() - t0
        return res
    names, examples = [], []
    for f in pfiles:
        src = strip_comments(open(os.path.join(COQ, "Props", f)).read())
        names += [m.group(2) for m in THM_RE.finditer(src) if m.group(1) == "Theorem"]
        examples += [m.group(2) for m in THM_RE.finditer(src) if m.group(1) == "Example"]
    os.makedirs(os.path.join(BUILD, "pa"), exist_ok=True)
    # Print Assumptions depends only on the compiled development: reuse the previous output when no
    # .vo and no pinned file changed since (the make above has just (re)built whatever was stale)
    sig = hashlib.sha256()
    for pf in pfiles:
        sig.update(open(os.path.join(COQ, "Props", pf), "rb").read())
    vos = []
    for root, _, fs in os.walk(COQ):
        for f in fs:
            if f.endswith(".vo"):
                vos.append("%s:%d" % (os.path.join(root, f), int(os.path.getmtime(os.path.join(root, f)))))
    sig.update("\n".join(sorted(vos)).encode())
    cache_p = os.path.join(BUILD, "pa", "%s.cache.json" % prop)
    if os.path.exists(cache_p):
        try:
            cj = json.load(open(cache_p))
            if cj.get("sig") == sig.hexdigest():
                res["theorems"] = [tuple(x) for x in cj["theorems"]]
                res["axioms"] = set(cj["axioms"])
                res["n_theorems"], res["n_examples"] = cj["n_theorems"], cj["n_examples"]
                res["pa_cached"] = True
                res["wall"] = time.time() - t0
                return res
        except Exception:
            pass
    pa = os.path.join(BUILD, "pa", "PA_%s_%d.v" % (prop, os.getpid()))
    with open(pa, "w") as f:
        for pf in pfiles:
            f.write("From Fibre Require Import Props.%s.\n" % pf[:-2])
        for n in names + examples:
            f.write('Goal True. idtac "@@ %s". exact I. Qed.\nPrint Assumptions %s.\n' % (n, n))
    rc, o, e = sh(["timeout", "600", "coqc", "-Q", COQ, "Fibre", pa], cwd=os.path.dirname(pa), timeout=700)
    for ext in (".v", ".vo", ".glob", ".vok", ".vos"):
        try:
            os.remove(pa[:-2] + ext)
        except OSError:
            pass
    try:
        os.remove(os.path.join(os.path.dirname(pa), "." + os.path.basename(pa)[:-2] + ".aux"))
    except OSError:
        pass
    if rc:
        res["ok"] = False
        res["log"] = (o + e)[-4000:]
        res["where"] = "Print Assumptions"
        res["wall"] = time.time() - t0
        return res
    chunks = re.split(r"@@ (\w+)\n", o)
    for i in range(1, len(chunks), 2):
        name, text = chunks[i], chunks[i + 1].strip()
        closed = "Closed under the global context" in text
        axs = set()
        if not closed:
            for line in text.splitlines():
                m = re.match(r"^(\S+)\s*:", line)
                if m:
                    axs.add(m.group(1))
        res["theorems"].append((name, "closed" if closed else sorted(axs)))
        res["axioms"] |= axs
        bad = [a for a in axs if a not in ALLOWED_AXIOMS]
        if bad:
            res["bad"].append((name, bad))
    if len(res["theorems"]) != len(names) + len(examples) or res["bad"]:
        res["ok"] = False
        res["where"] = "assumptions: %r" % res["bad"]
    res["n_theorems"] = len(names)
    res["n_examples"] = len(examples)
    res["wall"] = time.time() - t0
    if res["ok"]:
        with open(cache_p, "w") as f:
            json.dump({"sig": sig.hexdigest(), "theorems": res["theorems"], "axioms": sorted(res["axioms"]),
                       "n_theorems": len(names), "n_examples": len(examples)}, f)
    return res


# --------------------------------------------------------------------------
# model driver (extraction) and harness builds
def newest_mtime(paths):
    m = 0
    for p in paths:
        if os.path.isdir(p):
            for root, _, fs in os.walk(p):
                for f in fs:
                    m = max(m, os.path.getmtime(os.path.join(root, f)))
        elif os.path.exists(p):
            m = max(m, os.path.getmtime(p))
    return m


def build_model(engine):
    """extract the models of one engine (coq/Extract/Extract<Engine>.v -> model_<engine>.ml) and
    compile its OCaml line driver (ocaml/eng_<engine>.ml); returns the path of modelrun_<engine>"""
    exe = os.path.join(OCAML_BUILD, "modelrun_" + engine)
    exv = os.path.join(COQ, "Extract", "Extract%s.v" % engine.capitalize())
    with Lock("ocaml"):
        srcs = [os.path.join(OCAML_SRC, "conv.ml"), os.path.join(OCAML_SRC, "eng_%s.ml" % engine)] + \
               [os.path.join(COQ, d) for d in ("Common", "Cache", "Chan", "Sync", "Ioc", "Log")] + [exv]
        if os.path.exists(exe) and os.path.getmtime(exe) >= newest_mtime(srcs):
            return exe
        ok, blog = coq_build(["Extract/Extract%s.vo" % engine.capitalize()])
        if not ok:
            raise RuntimeError("extraction build failed:\n" + blog[-3000:])
        wd = os.path.join(OCAML_BUILD, engine)
        os.makedirs(wd, exist_ok=True)
        # Coq 8.16 writes the extracted .ml into coqc's cwd, so re-run the extraction file there
        rc, o, e = sh(["coqc", "-Q", COQ, "Fibre", exv], cwd=wd, timeout=900)
        if rc:
            raise RuntimeError("extraction failed:\n" + (o + e)[-3000:])
        conv = open(os.path.join(OCAML_SRC, "conv.ml")).read().replace("open MODEL", "open Model_" + engine)
        with open(os.path.join(wd, "conv_%s.ml" % engine), "w") as f:
            f.write(conv)
        with open(os.path.join(OCAML_SRC, "eng_%s.ml" % engine)) as a, open(os.path.join(wd, "eng_%s.ml" % engine), "w") as b:
            b.write(a.read())
        rc, o, e = sh(["ocamlfind", "ocamlopt", "-w", "-a", "-package", "str", "-linkpkg",
                       "model_%s.mli" % engine, "model_%s.ml" % engine, "conv_%s.ml" % engine, "eng_%s.ml" % engine,
                       "-o", exe], cwd=wd, timeout=900)
        if rc:
            raise RuntimeError("ocaml build failed:\n" + (o + e)[-3000:])
        return exe


_built = {}


def build_harness(crate="seqdrv", exe=None, release=True):
    """cargo build of a harness crate against /repo's current working tree, hooks on;
    returns (path of the binary `exe` (default: crate name), error log)"""
    d = os.path.join(HARNESS, crate)
    if REPO != "/repo":
        # scratch-copy mode (testing seeded changes without touching /repo): a copy of the harness crate
        # with its path dependencies rewritten, and its own target dir
        tag = hashlib.md5(REPO.encode()).hexdigest()[:8]
        alt = os.path.join(BUILD, "alt_" + tag, crate)
        os.makedirs(os.path.dirname(alt), exist_ok=True)
        sh(["rsync", "-a", "--delete", "--exclude", "Cargo.lock", d + "/", alt + "/"])
        ct = open(os.path.join(alt, "Cargo.toml")).read().replace('"/repo/', '"' + REPO.rstrip("/") + "/")
        open(os.path.join(alt, "Cargo.toml"), "w").write(ct)
        d = alt
        ENV["CARGO_TARGET_DIR"] = os.path.join(BUILD, "alt_" + tag, "target")
    tgt = ENV["CARGO_TARGET_DIR"]
    with Lock("cargo"):
        if crate not in _built:
            lock_src = os.path.join(REPO, "Cargo.lock")
            lock_dst = os.path.join(d, "Cargo.lock")
            if not os.path.exists(lock_dst):
                with open(lock_src) as a, open(lock_dst, "w") as b:
                    b.write(a.read())
            cmd = ["cargo", "build", "--offline", "--bins"] + (["--release"] if release else [])
            rc, o, e = sh(cmd, cwd=d, timeout=3000)
            if rc:
                return None, (o + e)
            _built[crate] = True
        return os.path.join(tgt, "release" if release else "debug", exe or crate), ""


def run_lines(exe, lines, timeout=1200, shards=8, env=None, per_shard=50, mem_gb=None):
    """feed case lines to a line driver, sharded over processes; returns list of output lines"""
    if not lines:
        return []
    n = max(1, min(shards, len(lines) // per_shard + 1))
    chunks = [lines[i::n] for i in range(n)]
    procs = []
    def limit():
        # engines whose inputs can provoke huge allocations in a defective implementation (pattern
        # padding widths) cap the driver's address space; an aborted driver shows up as DRIVER-DIED.
        # Not applied by default: runtimes with many threads reserve a lot of virtual memory.
        if not mem_gb:
            return
        import resource
        try:
            resource.setrlimit(resource.RLIMIT_AS, (mem_gb << 30, mem_gb << 30))
        except Exception:
            pass

    for ch in chunks:
        p = subprocess.Popen([exe], stdin=subprocess.PIPE, stdout=subprocess.PIPE, stderr=subprocess.PIPE,
                             text=True, env=env or ENV, preexec_fn=limit)
        procs.append((p, ch))
    # write/collect
    import threading
    results = [None] * n

    def work(i):
        p, ch = procs[i]
        try:
            o, e = p.communicate("\n".join(ch) + "\n", timeout=timeout)
        except subprocess.TimeoutExpired:
            p.kill()
            o, e = p.communicate()
            o = o + "\nDRIVER-TIMEOUT"
        results[i] = (o.split("\n"), p.returncode, e)

    ths = [threading.Thread(target=work, args=(i,)) for i in range(n)]
    for t in ths:
        t.start()
    for t in ths:
        t.join()
    out = [None] * len(lines)
    for i in range(n):
        ol, rc, err = results[i]
        ch = chunks[i]
        for j in range(len(ch)):
            idx = i + j * n
            out[idx] = ol[j] if j < len(ol) and (ol[j] != "" or j < len(ol) - 1) else "DRIVER-DIED rc=%s %s" % (rc, err.strip()[-200:])
    return out


# --------------------------------------------------------------------------
# PRNG: one splittable state per case (so every disagreement replays exactly)
class Rng:
    def __init__(self, *seed):
        h = hashlib.sha256(repr(seed).encode()).digest()
        self.s = int.from_bytes(h[:8], "little") | 1

    def next(self):
        # xorshift64*
        x = self.s
        x ^= (x >> 12)
        x ^= (x << 25) & 0xFFFFFFFFFFFFFFFF
        x ^= (x >> 27)
        self.s = x
        return (x * 0x2545F4914F6CDD1D) & 0xFFFFFFFFFFFFFFFF

    def below(self, n):
        return self.next() % n

    def pick(self, xs):
        return xs[self.below(len(xs))]

    def chance(self, num, den):
        return self.below(den) < num

    def weighted(self, pairs):
        tot = sum(w for _, w in pairs)
        r = self.below(tot)
        for x, w in pairs:
            if r < w:
                return x
            r -= w
        return pairs[-1][0]


# --------------------------------------------------------------------------
# known findings
def load_known():
    known, fixed = [], []
    p = os.path.join(VERIF, "known_findings.txt")
    if os.path.exists(p):
        for line in open(p):
            line = line.strip()
            if not line or line.startswith("#"):
                continue
            kind, _, rest = line.partition(":")
            head, _, what = rest.partition("::")
            fields = dict(re.findall(r'(\w+)=("[^"]*"|\S+)', head))
            fields = {k: v.strip('"') for k, v in fields.items()}
            fields["what"] = what.strip()
            (known if kind.strip() == "known" else fixed).append(fields)
    return known, fixed


# --------------------------------------------------------------------------
# evidence + verdict
def write_replay(prop, payload):
    os.makedirs(os.path.join(VERIF, "replays"), exist_ok=True)
    body = json.dumps(payload, indent=1, sort_keys=True)
    h = hashlib.sha256(body.encode()).hexdigest()[:12]
    path = os.path.join(VERIF, "replays", "%s-%s.json" % (prop, h))
    with open(path, "w") as f:
        f.write(body)
    return os.path.relpath(path, VERIF)


def write_evidence(prop, tier, seed, coverage, assumptions, wall, violations):
    os.makedirs(os.path.join(VERIF, "evidence"), exist_ok=True)
    ev = {"property_id": prop, "tier": tier, "seed": seed, "level": "proof",
          "coverage": coverage, "assumptions": assumptions, "wall_s": round(wall, 2),
          "violations": violations}
    with open(os.path.join(VERIF, "evidence", prop + ".json"), "w") as f:
        json.dump(ev, f, indent=1, sort_keys=True)


KERNEL_TB = [
    "Coq 8.16.1 kernel (coqc full .vo build; thorough tier also coqchk); no native_compute; vm_compute only for closed finite witnesses",
    "extraction: ExtrOcamlBasic directives only (bool, option, unit, list, prod, sumbool, sumor to OCaml; andb/orb/negb/fst/snd inlined); nat/positive/N/Z stay Coq datatypes; OCaml 4.13.1 ocamlopt; /verif/ocaml/*.ml drivers (parsing/printing only)",
    "correspondence harness: /verif/harness (Rust, built against /repo's working tree with --cfg excsn_fibre_verif), /verif/vlib generators and canonicalisers",
]
