"""E-CHANOPS-mpscb: D1 engine for fibre::mpsc::bounded / bounded_async (K2 op-level model
coq/Chan/MpscB.v).  Generator (with its own cheap bookkeeping so blocking forms are only issued
where they complete), shrinker split, and the property MONITOR for C01/C02/C03/C04/C06/C09 which
judges the implementation's outputs alone (its own reference FIFO / handle / future bookkeeping)."""
import os
from collections import Counter

from .flow import Engine

# model switches: bit0 = F-03 repaired (recv_timeout tests the handle's closed flag),
#                 bit1 = F-M1 repaired (clone of a closed sender is closed).  0 = the code as it is.
FIXFLAGS = int(os.environ.get("VERIF_MPSC_FIXFLAGS", "3"))   # 3 = run against a tree with both repairs applied

FIX_CLONE = bool(FIXFLAGS & 2)     # API semantics after the F-M1 repair: a clone of a closed sender is closed

ARITY = {"ts": 3, "sd": 3, "tr": 2, "rc": 2, "rt": 2, "cl": 2, "dr": 2, "cn": 3, "tos": 2, "toa": 2,
         "ln": 2, "ie": 2, "if": 2, "cp": 2, "ic": 2, "ms": 4, "mr": 3, "pl": 3, "df": 2, "pn": 3,
         "trb": 3, "rcb": 3, "mrb": 4}
VAR = {"tsb": 2, "tsm": 2, "sdb": 2, "sdm": 2, "msb": 3}   # index of the count token

CAPS = [1, 1, 2, 2, 3, 4, 5, 7, 8, 16, 63, 64, 65, 130]


def split_ops(toks):
    ops, i = [], 0
    while i < len(toks):
        t = toks[i]
        if t in ARITY:
            k = ARITY[t]
        else:
            k = VAR[t] + 1 + int(toks[i + VAR[t]])
        ops.append(toks[i:i + k])
        i += k
    return ops


# ---------------------------------------------------------------------------------------------
# generator-side bookkeeping (decides which ops are legal / complete without blocking)
class Sim:
    def __init__(self, flavor, cap):
        a = flavor == "a"
        self.cap, self.K = cap, (cap if a else min(cap, 64))
        self.n, self.unpub, self.sc, self.rdrop = 0, 0, 1, False
        self.H = {0: dict(tx=True, a=a, closed=False, reg=False), 1: dict(tx=False, a=a, closed=False, reg=False)}
        self.F = {}
        self.sq = []
        self.next = 1

    def ids(self, k):
        r = list(range(self.next, self.next + k))
        self.next += k
        return r

    def futs_on(self, h):
        return any(f["h"] == h for f in self.F.values())

    def hot(self):
        return max(0, self.cap - (self.n + self.unpub))

    def publish(self):
        self.unpub = 0
        if self.sq:
            self.sq.pop(0)

    def flush(self):
        if self.unpub > 0:
            self.publish()

    def deq(self, k):
        got = 0
        while got < k and self.n > 0:
            self.n -= 1
            self.unpub += 1
            got += 1
            if self.unpub >= self.K:
                self.publish()
        return got

    def close(self, h):
        r = self.H[h]
        if r["closed"]:
            return
        r["closed"] = True
        if r["tx"]:
            self.sc -= 1
        else:
            self.rdrop = True
            self.sq = []

    def unreg(self, f):
        if f in self.sq:
            self.sq.remove(f)

    def apply(self, op):
        """mirror of the documented semantics, only as far as the generator needs it"""
        t = op[0]
        H, F = self.H, self.F
        if t in ("ts", "sd"):
            r = H.get(int(op[1]))
            if not r or not r["tx"] or r["closed"] or self.rdrop:
                return
            if (t == "ts" and self.n < self.cap) or (t == "sd" and self.hot() > 0):
                self.n += 1
        elif t in ("tr", "rc", "rt"):
            r = H.get(int(op[1]))
            if not r or r["tx"] or (r["closed"] and t != "rt"):
                return
            if self.deq(1) == 0:
                self.flush()
        elif t in ("trb", "rcb"):
            r = H.get(int(op[1]))
            if not r or r["tx"] or r["closed"] or int(op[2]) == 0:
                return
            self.deq(int(op[2]))
            self.flush()
        elif t == "cl":
            if int(op[1]) in H:
                self.close(int(op[1]))
        elif t == "dr":
            h = int(op[1])
            if h in H and not self.futs_on(h):
                self.close(h)
                del H[h]
        elif t == "cn":
            h, h2 = int(op[1]), int(op[2])
            if h in H and H[h]["tx"] and h2 not in H:
                cl = FIX_CLONE and H[h]["closed"]
                H[h2] = dict(tx=True, a=H[h]["a"], closed=cl, reg=False)
                if not cl:
                    self.sc += 1
        elif t in ("tos", "toa"):
            h = int(op[1])
            r = H.get(h)
            if r and r["a"] == (t == "tos") and not self.futs_on(h):
                r["a"] = t == "toa"
                r["reg"] = False
                if not r["tx"]:
                    self.K = self.cap if t == "toa" else min(self.cap, 64)
        elif t in ("ms", "msb"):
            f, h = int(op[1]), int(op[2])
            r = H.get(h)
            if r and r["tx"] and r["a"] and f not in F:
                F[f] = dict(h=h, send=True, left=(1 if t == "ms" else int(op[3])), done=False)
        elif t in ("mr", "mrb"):
            f, h = int(op[1]), int(op[2])
            r = H.get(h)
            if r and not r["tx"] and r["a"] and f not in F:
                F[f] = dict(h=h, send=False, max=(1 if t == "mr" else int(op[3])), batch=t == "mrb", done=False)
        elif t == "pl":
            f = int(op[1])
            fr = F.get(f)
            if not fr:
                return
            r = H[fr["h"]]
            if fr["send"]:
                if fr["left"] == 0 or r["closed"] or self.rdrop:
                    self.unreg(f)
                    fr["done"] = True
                    return
                j = min(fr["left"], self.hot())
                if j:
                    self.unreg(f)
                    self.n += j
                    fr["left"] -= j
                if fr["left"]:
                    self.unreg(f)
                    self.sq.append(f)
                else:
                    fr["done"] = True
            else:
                if r["closed"] or fr["max"] == 0:
                    fr["done"] = True
                    return
                if self.deq(fr["max"]):
                    if fr["batch"]:
                        self.flush()
                    fr["done"] = True
                else:
                    self.flush()
                    fr["done"] = self.sc == 0
        elif t == "df":
            f = int(op[1])
            if f in F:
                self.unreg(f)
                del F[f]
        elif t == "pn":
            h = int(op[1])
            r = H.get(h)
            if r and not r["tx"] and r["a"] and not r["closed"] and not self.futs_on(h):
                if self.deq(1) == 0:
                    self.flush()
        elif t in ("tsb", "tsm", "sdb", "sdm"):
            r = H.get(int(op[1]))
            k = int(op[2])
            if not r or not r["tx"] or r["closed"] or self.rdrop or k == 0:
                return
            if t in ("tsb", "tsm"):
                self.n += min(k, self.cap - self.n)
            elif k <= self.hot():
                self.n += k


# ---------------------------------------------------------------------------------------------
class MpscbEngine(Engine):
    name = "mpscb"
    exe = "mpscb"
    model_file = "Chan/MpscB.v"

    def n_cases(self, tier):
        return 1000 if tier == "quick" else 60000

    # -- case format
    def split(self, line):
        t = line.split()
        return t[:3], split_ops(t[3:])

    def nontrivial(self, line, out):
        return len(self.split(line)[1]) >= 3

    def corpus(self):
        f = str(FIXFLAGS)
        return [
            # F-11: two pending sends on two clones, one try_recv wakes A, A dropped: B parked, len 0
            "a 1 %s cn 0 2 ts 0 1 ms 0 0 2 ms 1 2 3 pl 0 0 pl 1 1 tr 1 df 0 ln 0 pl 1 2 df 1 dr 0 dr 2 dr 1" % f,
            # F-30: consumer takes one item and stops: unpublished = 1 < K, pending sender not woken, len < cap
            "a 2 %s ts 0 1 ts 0 2 ms 0 0 3 pl 0 0 tr 1 ln 0 ts 0 4 pl 0 0 tr 1 tr 1 tr 1 df 0 dr 0 dr 1" % f,
            # F-03: recv_timeout on a handle whose close() returned Ok still yields the buffered value
            "s 2 %s ts 0 1 cl 1 tr 1 rc 1 rt 1 rt 1 dr 0 dr 1" % f,
            # clone after close: sender count 0 -> Disconnected observed -> clone sends -> value after disc
            "s 2 %s cl 0 tr 1 cn 0 2 ts 2 1 tr 1 dr 0 dr 2 dr 1" % f,
            # the upstream false-Full shapes (cold path makes try_send exact)
            "a 4 %s ts 0 1 ts 0 2 ts 0 3 ts 0 4 ts 0 5 tr 1 tr 1 ln 0 ts 0 6 ts 0 7 ts 0 8 tr 1 tr 1 tr 1 tr 1 tr 1" % f,
            "s 3 %s tsb 0 5 1 2 3 4 5 trb 1 2 tsb 0 3 6 7 8 trb 1 9 cl 0 trb 1 1 dr 0 dr 1" % f,
            # teardown with buffered values and a pending send future holding its item
            "a 2 %s ts 0 1 ts 0 2 ms 0 0 3 pl 0 1 cl 1 pl 0 1 df 0 dr 1 dr 0" % f,
            # conversions keep the closed flag; second close is an error
            "s 2 %s cn 0 2 cl 0 toa 0 cl 0 ts 0 1 ts 2 2 tr 1 dr 0 tr 1 dr 2 tr 1 dr 1" % f,
            # stream + batch futures
            "a 2 %s pn 1 0 ts 0 1 pn 1 0 msb 0 0 4 2 3 4 5 pl 0 1 mrb 1 1 8 pl 1 2 pl 0 1 df 1 pn 1 0 pn 1 0 pl 0 1 df 0 dr 0 pn 1 3 dr 1" % f,
        ]

    # -- generator
    def gen(self, rng, tier):
        flavor = rng.pick(["s", "a", "a"])
        cap = rng.pick(CAPS)
        sim = Sim(flavor, cap)
        toks = [flavor, str(cap), str(FIXFLAGS)]
        if rng.chance(3, 100):
            self._long_run(rng, sim, toks)
        else:
            n = rng.pick([3, 6, 10, 16, 25, 40, 60, 90])
            malformed = rng.chance(1, 10)
            for _ in range(n):
                op = self._pick(rng, sim, malformed)
                if op:
                    toks += op
                    sim.apply(op)
        if rng.chance(4, 5):
            fs = list(sim.F)
            hs = list(sim.H)
            while fs:
                op = ["df", str(fs.pop(rng.below(len(fs))))]
                toks += op
                sim.apply(op)
            while hs:
                op = ["dr", str(hs.pop(rng.below(len(hs))))]
                toks += op
                sim.apply(op)
        return " ".join(toks)

    def _long_run(self, rng, sim, toks):
        """single-producer runs sized to the real geometry: chunk_cap = clamp(next_pow2(cap), floor,
        1024) with floor 128 (bounded) / 16 (bounded_async); n = ceil((cap+64)/chunk_cap)+2 table
        entries: >= 3 chunk boundaries and >= 2 table laps"""
        cap = sim.cap
        floor = 16 if sim.H[0]["a"] else 128
        p2 = 1
        while p2 < cap:
            p2 *= 2
        chunk = min(max(p2, floor), 1024)
        nent = -(-(cap + 64) // chunk) + 2
        total = chunk * nent * 2 + chunk + rng.below(chunk)
        sent = 0
        while sent < total:
            room = cap - sim.n
            if room > 0 and rng.chance(2, 3):
                if rng.chance(1, 3) and room >= 2:
                    k = 1 + rng.below(min(room + 2, 40))
                    op = ["tsb", "0", str(k)] + [str(x) for x in sim.ids(k)]
                    sent += min(k, room)
                else:
                    op = ["ts", "0", str(sim.ids(1)[0])]
                    sent += 1
            elif rng.chance(1, 4):
                op = ["trb", "1", str(1 + rng.below(cap + 2))]
            else:
                op = ["tr", "1"]
            toks += op
            sim.apply(op)
        op = ["trb", "1", str(cap + 1)]
        toks += op
        sim.apply(op)

    def _pick(self, rng, sim, malformed):
        H, F = sim.H, sim.F
        txs = [h for h, r in H.items() if r["tx"]]
        rxs = [h for h, r in H.items() if not r["tx"]]
        kind = rng.weighted([("send", 30), ("recv", 30), ("life", 12), ("obs", 6), ("fut", 30)])
        if malformed and rng.chance(1, 4):
            # ops on dead/wrong handles, reused ids, unknown futures
            return rng.pick([["ts", str(rng.below(8)), str(max(1, sim.next - 1))], ["tr", str(rng.below(8))],
                             ["pl", str(rng.below(8)), "0"], ["df", str(rng.below(8))], ["dr", str(rng.below(8))],
                             ["sd", "1", str(sim.ids(1)[0])], ["rc", "0"], ["toa", str(rng.below(8))],
                             ["cn", str(rng.below(8)), str(rng.below(8))], ["mr", str(rng.below(8)), "0"],
                             ["ms", str(rng.below(8)), "1", str(sim.ids(1)[0])], ["pn", str(rng.below(8)), "1"]])
        if kind == "send" and txs:
            h = rng.pick(txs)
            r = H[h]
            dead = r["closed"] or sim.rdrop
            form = rng.weighted([("ts", 50), ("sd", 15), ("tsb", 15), ("tsm", 6), ("sdb", 8), ("sdm", 4)])
            if form == "ts":
                return ["ts", str(h), str(sim.ids(1)[0])]
            if form == "sd":
                if r["a"] or not (dead or sim.hot() > 0):
                    return ["ts", str(h), str(sim.ids(1)[0])]
                return ["sd", str(h), str(sim.ids(1)[0])]
            k = rng.pick([0, 1, 2, 3, sim.cap, sim.cap + 1, max(1, sim.cap - sim.n), rng.below(6)])
            k = min(k, 70)
            if form in ("sdb", "sdm"):
                if r["a"] or not (dead or k <= sim.hot()):
                    form = "tsb"
            return [form, str(h), str(k)] + [str(x) for x in sim.ids(k)]
        if kind == "recv" and rxs:
            h = rxs[0]
            r = H[h]
            form = rng.weighted([("tr", 50), ("rc", 12), ("rt", 12), ("trb", 18), ("rcb", 8)])
            if form in ("rc", "rt", "rcb") and r["a"]:
                form = "tr" if form != "rcb" else "trb"
            if form == "rc" and not (r["closed"] or sim.n > 0 or sim.sc == 0):
                form = "tr"
            if form == "rcb" and not (r["closed"] or sim.n > 0 or sim.sc == 0):
                form = "trb"
            if form in ("trb", "rcb"):
                return [form, str(h), str(rng.pick([0, 1, 2, 3, sim.cap, sim.cap + 1, 100]))]
            return [form, str(h)]
        if kind == "life":
            hs = list(H)
            if not hs:
                return None
            form = rng.weighted([("cn", 30), ("cl", 20), ("dr", 15), ("conv", 25)])
            if form == "cn" and txs:
                free = [x for x in range(2, 8) if x not in H]
                if free:
                    return ["cn", str(rng.pick(txs)), str(rng.pick(free))]
            if form == "cl":
                # closing the receiver ends most of the story: do it rarely
                h = rng.pick(hs)
                if not H[h]["tx"] and not rng.chance(1, 4):
                    h = rng.pick(txs) if txs else h
                return ["cl", str(h)]
            if form == "dr":
                h = rng.pick(hs)
                if not H[h]["tx"] and not rng.chance(1, 4):
                    h = rng.pick(txs) if txs else h
                if sim.futs_on(h):
                    return None
                return ["dr", str(h)]
            h = rng.pick(hs)
            if sim.futs_on(h):
                return None
            return ["tos" if H[h]["a"] else "toa", str(h)]
        if kind == "obs" and H:
            return [rng.pick(["ln", "ln", "ie", "if", "cp", "ic"]), str(rng.pick(list(H)))]
        if kind == "fut":
            atx = [h for h in txs if H[h]["a"]]
            arx = [h for h in rxs if H[h]["a"]]
            free = [x for x in range(8) if x not in F]
            pend = [f for f, fr in F.items() if not fr["done"]]
            form = rng.weighted([("ms", 18), ("mr", 12), ("pl", 40), ("df", 12), ("msb", 8), ("mrb", 5), ("pn", 6)])
            if form == "ms" and atx and free:
                return ["ms", str(rng.pick(free)), str(rng.pick(atx)), str(sim.ids(1)[0])]
            if form == "msb" and atx and free:
                k = min(70, rng.pick([0, 1, 2, 3, sim.cap, sim.cap + 2, 2 * sim.cap + 1]))
                return ["msb", str(rng.pick(free)), str(rng.pick(atx)), str(k)] + [str(x) for x in sim.ids(k)]
            if form in ("mr", "mrb") and arx and free:
                # one outstanding receive-side future is the documented usage; rarely more
                if any(not fr["send"] for fr in F.values()) and not rng.chance(1, 12):
                    form = "pl"
                elif form == "mr":
                    return ["mr", str(rng.pick(free)), str(arx[0])]
                else:
                    return ["mrb", str(rng.pick(free)), str(arx[0]), str(rng.pick([0, 1, 2, sim.cap, 100]))]
            if form == "pn" and arx and not sim.futs_on(arx[0]):
                return ["pn", str(arx[0]), str(rng.below(4))]
            if form == "df" and F:
                return ["df", str(rng.pick(list(F)))]
            if F:
                f = rng.pick(pend) if pend and rng.chance(9, 10) else rng.pick(list(F))
                return ["pl", str(f), str(rng.below(4))]
        return None

    # -- monitor -------------------------------------------------------------------------------
    def monitor(self, line, out):
        hdr, ops = self.split(line)
        outs = [o.strip() for o in out.split(";")] if out.strip() else []
        m = Mon(hdr[0], int(hdr[1]))
        for op, o in zip(ops, outs):
            if not m.feed(op, o):
                break
        if len(outs) < len(ops) and not m.hits and "HANG" not in out:
            m.hit("bad-output", "only %d outputs for %d ops" % (len(outs), len(ops)))
        if len(outs) == len(ops):
            m.finish()
        seen, res = set(), []
        for c, d in m.hits:
            if c not in seen:
                seen.add(c)
                res.append((c, d))
        return res


def parse_ids(tok):
    tok = tok.strip("[]")
    return [int(x) for x in tok.split(",")] if tok else []


class Mon:
    """Independent oracle: reference FIFO of accepted-unreceived ids, handle liveness, pending
    futures, wake/drop accounting.  `unpub`/`K` re-state the documented hoard/drip cadence only to
    give the two recorded wake findings (F-11, F-30) their own narrow clause ids."""

    def __init__(self, flavor, cap):
        a = flavor == "a"
        self.cap = cap
        self.K = cap if a else min(cap, 64)
        self.unpub = 0
        self.fifo = []
        self.H = {0: dict(tx=True, a=a, closed=False, disc=False), 1: dict(tx=False, a=a, closed=False, disc=False)}
        self.F = {}
        self.open_tx = 1
        self.rx_gone = False
        self.wakes = Counter()
        self.drops = Counter()
        self.state = {}          # id -> 'fut' | 'buf' | 'rcv' | 'back' | 'drop'
        self.hits = []
        self.multi = False
        self.recloned = False
        self.stream_pend = None  # (h, waker, wakes then)
        self.ever_empty_handles = False

    def hit(self, c, d):
        self.hits.append((c, d))

    # cadence (classification only)
    def m_publish(self):
        self.unpub = 0

    def m_flush(self):
        self.unpub = 0

    def m_got(self, k=1):
        for _ in range(k):
            self.unpub += 1
            if self.unpub >= self.K:
                self.m_publish()

    def accept(self, v, h, how):
        r = self.H[h]
        if self.rx_gone:
            self.hit("C04:send-after-last-rx", "%s of %d succeeded after the receiver was closed/dropped" % (how, v))
        if r["closed"]:
            self.hit("C04:closed-handle-accepts", "%s of %d succeeded on closed sender %d" % (how, v, self.hid(r)))
        if len(self.fifo) >= self.cap:
            self.hit("C03:len-over-cap", "%s of %d succeeded with %d buffered, capacity %d" % (how, v, len(self.fifo), self.cap))
        self.fifo.append(v)
        self.state[v] = "buf"

    def hid(self, r):
        for h, x in self.H.items():
            if x is r:
                return h
        return -1

    def handback(self, v, want, what):
        if v != want:
            self.hit("C01:failed-op-effect", "%s handed back %r, input was %r" % (what, v, want))
        for x in (want if isinstance(want, list) else [want]):
            self.state[x] = "back"

    def got(self, v, h, how):
        r = self.H[h]
        if v not in self.fifo:
            if self.state.get(v) == "rcv":
                self.hit("C01:dup", "%s returned %d a second time" % (how, v))
            else:
                self.hit("C01:phantom", "%s returned %d which is not buffered" % (how, v))
            return
        if self.fifo[0] != v:
            self.hit("C02:order", "%s returned %d, head of the FIFO is %d" % (how, v, self.fifo[0]))
        self.fifo.remove(v)
        self.state[v] = "rcv"
        if r["closed"]:
            c = "C04:F-03-recv-timeout-on-closed" if how == "rt" else "C04:closed-handle-accepts"
            self.hit(c, "%s on closed receiver returned %d" % (how, v))
        elif r["disc"]:
            c = "C04:F-M1-clone-after-close" if self.recloned else "C04:value-after-disc"
            self.hit(c, "%s returned %d after this receiver had observed Disconnected" % (how, v))

    def nothing(self, h, how, what):
        """empty / timeout / disc / pending on receiver h"""
        r = self.H[h]
        if what == "disc" and r["closed"]:
            return
        if what == "disc":
            if self.fifo:
                self.hit("C04:disc-before-drain", "%s reported Disconnected with %d values buffered" % (how, len(self.fifo)))
            elif self.open_tx > 0:
                self.hit("C04:clone-close-affects-other", "%s reported Disconnected while %d sender(s) are open" % (how, self.open_tx))
            r["disc"] = True
        else:
            if self.fifo:
                self.hit("C01:empty-with-buffered", "%s reported %s with %d values buffered" % (how, what, len(self.fifo)))
            elif self.open_tx == 0:
                self.hit("C04:no-disc", "%s reported %s although no sender is open and nothing is buffered" % (how, what))

    def send_fail(self, h, how, what):
        r = self.H[h]
        dead = r["closed"] or self.rx_gone
        if what == "closed" and not dead:
            self.hit("C04:clone-close-affects-other", "%s reported Closed on an open sender with the receiver alive" % how)
        if what == "full":
            if dead:
                self.hit("C04:closed-handle-accepts", "%s reported Full instead of Closed" % how)
            elif len(self.fifo) < self.cap:
                self.hit("C03:try-send-wrong", "%s reported Full with %d buffered, capacity %d" % (how, len(self.fifo), self.cap))

    def do_close(self, h):
        r = self.H[h]
        if r["closed"]:
            return
        r["closed"] = True
        if r["tx"]:
            self.open_tx -= 1
        else:
            self.rx_gone = True

    def feed(self, op, o):
        toks = o.split()
        wk = [int(t[1:]) for t in toks if t.startswith("!")]
        dr = [int(t[1:]) for t in toks if t.startswith("~")]
        res = [t for t in toks if not (t[0] in "!~@")]
        at = [int(t[1:]) for t in toks if t.startswith("@")]
        self.at = at[0] if at else None
        t = op[0]
        if not res:
            self.hit("bad-output", "empty output for %s" % " ".join(op))
            return False
        if res[0] in ("PANIC", "HANG", "SKIPPED-AFTER-HANG") or res[0].startswith("DRIVER"):
            if res[0] == "SKIPPED-AFTER-HANG" or (res[0] == "HANG" and self.blocks_by_design(op)):
                return False      # abandoned shard / a blocking form issued where it has to wait (shrinker artefact)
            self.hit("panic" if res[0] == "PANIC" else "hang", "%s -> %s" % (" ".join(op), o))
            return False
        for w in wk:
            self.wakes[w] += 1
        polled = None
        if res[0] == "WOULDBLOCK":
            # the driver did not execute a blocking form that (by the public observers) has to wait
            if not self.blocks_by_design(op):
                self.hit("C03:observer-wrong" if t[0] == "s" else "C01:empty-with-buffered",
                         "%s refused as blocking, but by the history it would complete" % " ".join(op))
        elif res[0] != "bad":
            polled = self.apply(op, res)
        for v in dr:
            self.drops[v] += 1
            if self.drops[v] > 1 or self.state.get(v) in ("rcv", "back"):
                self.hit("C09:double-drop", "id %d dropped (count %d, state %s)" % (v, self.drops[v], self.state.get(v)))
            if v in self.fifo:
                if not self.rx_gone and self.H:
                    self.hit("C01:lost", "buffered id %d destroyed while the receiver is alive" % v)
                self.fifo.remove(v)
            if self.state.get(v) not in ("rcv", "back"):
                self.state[v] = "drop"
        # C06: every pending future whose operation is possible must have been woken since its poll
        self.check_wakes(polled)
        return True

    def blocks_by_design(self, op):
        """would this blocking form legitimately wait, by the monitor's own bookkeeping?"""
        t = op[0]
        r = self.H.get(int(op[1])) if len(op) > 1 else None
        if r is None:
            return False
        if t in ("sd", "sdb", "sdm"):
            k = 1 if t == "sd" else int(op[2])
            dead = r["closed"] or self.rx_gone
            return r["tx"] and not dead and len(self.fifo) + self.unpub + k > self.cap
        if t in ("rc", "rcb"):
            return (not r["tx"]) and not r["closed"] and not self.fifo and self.open_tx > 0
        return False

    def apply(self, op, res):
        t = op[0]
        H, F = self.H, self.F
        r0 = res[0]
        if t in ("ts", "sd"):
            h, v = int(op[1]), int(op[2])
            self.state[v] = "hand"
            if r0 == "ok":
                self.accept(v, h, t)
            elif r0 in ("full", "closed"):
                self.send_fail(h, t, r0)
                if t == "ts":
                    self.handback(int(res[1]), v, t)
                # sd: SendError carries no value; it must have been dropped (checked at the end)
        elif t in ("tr", "rc", "rt"):
            h = int(op[1])
            if r0 == "v":
                self.got(int(res[1]), h, t)
                self.m_got()
            else:
                if not (H[h]["closed"] and t != "rt"):
                    self.m_flush()
                self.nothing(h, t, r0)
        elif t in ("trb", "rcb"):
            h = int(op[1])
            if r0 == "vs":
                vs = parse_ids(res[1])
                if int(op[2]) and not vs:
                    self.hit("C01:failed-op-effect", "%s returned an empty batch" % t)
                if len(vs) > int(op[2]):
                    self.hit("C01:failed-op-effect", "%s returned %d > max" % (t, len(vs)))
                for v in vs:
                    self.got(v, h, t)
                if int(op[2]):
                    self.m_flush()
            else:
                if not H[h]["closed"]:
                    self.m_flush()
                self.nothing(h, t, r0)
        elif t == "cl":
            h = int(op[1])
            if r0 == "ok":
                if H[h]["closed"]:
                    self.hit("C04:double-close", "second close of handle %d returned Ok" % h)
                self.do_close(h)
            elif not H[h]["closed"]:
                self.hit("C04:close-wrong", "close of open handle %d returned CloseError" % h)
        elif t == "dr":
            h = int(op[1])
            self.do_close(h)
            del H[h]
        elif t == "cn":
            h, h2 = int(op[1]), int(op[2])
            cl = FIX_CLONE and H[h]["closed"]
            if H[h]["closed"] and self.open_tx == 0 and not cl:
                self.recloned = True
            H[h2] = dict(tx=True, a=H[h]["a"], closed=cl, disc=False)
            if not cl:
                self.open_tx += 1
        elif t in ("tos", "toa"):
            h = int(op[1])
            H[h]["a"] = t == "toa"
            if not H[h]["tx"]:
                self.K = self.cap if t == "toa" else min(self.cap, 64)
                self.stream_pend = None
        elif t in ("ln", "ie", "if", "cp", "ic"):
            h = int(op[1])
            n = len(self.fifo)
            want = {"ln": "n %d" % n, "cp": "n %d" % self.cap, "ie": "b %d" % (n == 0), "if": "b %d" % (n >= self.cap),
                    "ic": "b %d" % ((H[h]["closed"] or self.rx_gone) if H[h]["tx"]
                                    else (H[h]["closed"] or (self.open_tx == 0 and n == 0)))}[t]
            if " ".join(res) != want:
                self.hit("C03:observer-wrong", "%s on %d = %s, expected %s" % (t, h, " ".join(res), want))
        elif t in ("ms", "msb"):
            f, h = int(op[1]), int(op[2])
            items = [int(op[3])] if t == "ms" else [int(x) for x in op[4:]]
            for v in items:
                self.state[v] = "fut"
            F[f] = dict(h=h, send=True, items=items, sent=0, pend=None, batch=t == "msb")
        elif t in ("mr", "mrb"):
            f, h = int(op[1]), int(op[2])
            if any(not fr["send"] for fr in F.values()) or self.stream_pend:
                self.multi = True
            F[f] = dict(h=h, send=False, pend=None, max=(1 if t == "mr" else int(op[3])), batch=t == "mrb")
        elif t == "pl":
            f, w = int(op[1]), int(op[2])
            fr = F[f]
            h = fr["h"]
            fr["pend"] = None
            if fr["send"]:
                self.poll_send(f, fr, h, w, res)
            else:
                self.poll_recv(fr, h, w, res, "pl")
            return f
        elif t == "pn":
            h, w = int(op[1]), int(op[2])
            fr = dict(h=h, send=False, pend=None, max=1, batch=False)
            self.poll_recv(fr, h, w, res, "pn")
            self.stream_pend = (h,) + fr["pend"] if fr["pend"] else None
            return "stream"
        elif t == "df":
            f = int(op[1])
            del F[f]
        elif t in ("tsb", "tsm", "sdb", "sdm"):
            h = int(op[1])
            vs = [int(x) for x in op[3:]]
            for v in vs:
                self.state[v] = "hand"
            self.batch_send(h, t, vs, res)
        return None

    def batch_send(self, h, t, vs, res):
        r0 = res[0]
        r = self.H[h]
        dead = r["closed"] or self.rx_gone
        room = self.cap - len(self.fifo)
        if r0 == "bok":
            k, rest, why = int(res[1]), [], None
        elif r0 == "berr":
            k, why, rest = int(res[1]), res[2], parse_ids(res[3])
        elif r0 == "mok":
            k, rest, why = int(res[1]), parse_ids(res[2]), None
        else:  # mclosed
            k, rest, why = 0, parse_ids(res[1]), "closed"
        if k > len(vs) or vs[k:] != rest:
            self.hit("C01:failed-op-effect", "%s: sent %d + unsent %r is not the input %r" % (t, k, rest, vs))
            return
        for v in vs[:k]:
            self.accept(v, h, t)
        for v in rest:
            self.state[v] = "back"
        if why == "closed" and not dead:
            self.hit("C04:clone-close-affects-other", "%s reported Closed on an open sender with the receiver alive" % t)
        if rest and not dead and t in ("tsb", "tsm") and len(self.fifo) < self.cap:
            self.hit("C03:try-send-wrong", "%s left %d unsent with %d buffered, capacity %d" % (t, len(rest), len(self.fifo), self.cap))
        if rest and t in ("sdb", "sdm") and not dead:
            self.hit("C01:failed-op-effect", "%s returned with unsent values on an open channel" % t)

    def poll_send(self, f, fr, h, w, res):
        r = self.H[h]
        dead = r["closed"] or self.rx_gone
        if fr["batch"] and self.at is not None and res[0] == "pending":
            # a Pending send_batch future may already have moved a prefix of its items into the
            # channel; the public len() taken right after the poll says how many
            moved = self.at - len(self.fifo)
            if moved < 0 or moved > len(fr["items"]):
                self.hit("C01:failed-op-effect", "send_batch future Pending: len went %d -> %d with %d items left" % (len(self.fifo), self.at, len(fr["items"])))
                moved = 0
            for v in fr["items"][:moved]:
                self.accept(v, h, "async send_batch")
            fr["items"] = fr["items"][moved:]
            fr["sent"] += moved
        if res[0] == "pending":
            fr["pend"] = (w, self.wakes[w])
            n = len(self.fifo)
            if dead:
                self.hit("C06:pending-though-ready", "send future %d Pending on a closed channel/handle" % f)
            elif n < self.cap:
                if n + self.unpub >= self.cap:
                    self.hit("C03:F-30-pending-with-space",
                             "send future %d Pending with %d/%d buffered: %d drained credits not published (K=%d)" % (f, n, self.cap, self.unpub, self.K))
                else:
                    self.hit("C03:pending-with-space", "send future %d Pending with %d/%d buffered and the window open" % (f, n, self.cap))
            return
        body = res[1:]
        if not fr["batch"]:
            if body[0] == "ok":
                if fr["items"]:
                    self.accept(fr["items"].pop(0), h, "async send")
            elif not dead:
                self.hit("C04:clone-close-affects-other", "send future reported Closed on an open sender with the receiver alive")
            return
        items = fr["items"]
        if body[0] == "bok":
            k, rest = int(body[1]) - fr["sent"], []
            if k != len(items):
                self.hit("C01:failed-op-effect", "send_batch future Ok(%s) but %d already sent and %d left" % (body[1], fr["sent"], len(items)))
                k = min(max(k, 0), len(items))
        else:
            k, rest = int(body[1]) - fr["sent"], parse_ids(body[3])
            if not dead:
                self.hit("C04:clone-close-affects-other", "send_batch future reported Closed on an open sender with the receiver alive")
            if k < 0 or k > len(items) or items[k:] != rest:
                self.hit("C01:failed-op-effect", "send_batch future: sent %d + unsent %r vs remaining %r" % (k, rest, items))
                k = 0
        for v in items[:k]:
            self.accept(v, h, "async send_batch")
        for v in items[k:]:
            self.state[v] = "back"
        fr["items"] = []
        fr["sent"] += k

    def poll_recv(self, fr, h, w, res, how):
        r = self.H[h]
        if res[0] == "pending":
            fr["pend"] = (w, self.wakes[w])
            self.m_flush()
            if not r["closed"] and (self.fifo or self.open_tx == 0):
                self.hit("C06:pending-though-ready", "receive future Pending with %d buffered, %d open senders" % (len(self.fifo), self.open_tx))
            return
        body = res[1:]
        if body[0] == "v":
            self.got(int(body[1]), h, how)
            self.m_got()
        elif body[0] == "vs":
            vs = parse_ids(body[1])
            for v in vs:
                self.got(v, h, how)
            if fr["max"]:
                if not vs:
                    self.hit("C01:failed-op-effect", "recv_batch future returned an empty batch")
                self.m_flush()
        else:
            if not r["closed"]:
                self.m_flush()
            self.nothing(h, how, "disc")

    def check_wakes(self, polled):
        n = len(self.fifo)
        for f, fr in self.F.items():
            if not fr["pend"] or f == polled:
                continue
            w, c = fr["pend"]
            if self.wakes[w] > c:
                continue
            r = self.H[fr["h"]]
            if r["closed"]:
                continue        # the owner closed the future's own handle
            if fr["send"]:
                if self.rx_gone:
                    self.hit("C06:missed-wake", "send future %d not woken after the receiver went away" % f)
                elif n < self.cap:
                    if n + self.unpub >= self.cap:
                        self.hit("C06:F-30-unpublished-credit",
                                 "send future %d parked with %d/%d buffered: %d drained credits not published (K=%d)" % (f, n, self.cap, self.unpub, self.K))
                    else:
                        self.hit("C06:F-11-one-wake-per-publication",
                                 "send future %d parked with the window open (%d/%d buffered): the publication's single wake went elsewhere" % (f, n, self.cap))
            elif not self.multi and (n > 0 or self.open_tx == 0):
                self.hit("C06:missed-wake", "receive future %d not woken with %d buffered, %d open senders" % (f, n, self.open_tx))
        if self.stream_pend and polled != "stream" and not self.multi:
            h, w, c = self.stream_pend
            if h in self.H and not self.H[h]["closed"] and self.wakes[w] <= c and (n > 0 or self.open_tx == 0):
                self.hit("C06:missed-wake", "stream on %d not woken with %d buffered, %d open senders" % (h, n, self.open_tx))

    def finish(self):
        if self.H or self.F:
            return
        for v, stt in sorted(self.state.items()):
            d = self.drops[v]
            if stt in ("rcv", "back"):
                if d:
                    self.hit("C09:double-drop", "id %d was %s and also dropped" % (v, stt))
            elif d == 0:
                self.hit("C09:leak", "id %d (last seen: %s) neither returned nor dropped after all handles and futures are gone" % (v, stt))
            elif d > 1:
                self.hit("C09:double-drop", "id %d dropped %d times" % (v, d))


ENGINE = MpscbEngine()
INFO = {"name": "E-CHANOPS-mpscb",
        "path": "coq/Chan/MpscB.v, coq/Proofs/MpscBProofs.v, ocaml/eng_mpscb.ml, harness/seqdrv/src/bin/mpscb.rs, vlib/engines_mpscb.py",
        "kind": "K2 op-level model of mpsc::bounded/bounded_async (every call / poll / drop is one atomic step); theorems by induction over all op histories; D1 differential tie on the public API with counting wakers and drop-counting payloads"}
ASSUME = ["mpscb: sequential histories only (K2); the chunk table / slot states are abstracted to a FIFO + the window counters (len, unpublished, K); D1 crosses >=3 chunk boundaries and >=2 table laps on the real geometry every run",
          "mpscb: blocking forms are issued only where they complete; recv_timeout only with a zero timeout"]

F = str(FIXFLAGS)
W_F03 = "s 2 %s ts 0 1 cl 1 tr 1 rt 1 rt 1 dr 0 dr 1" % F
W_FM1 = "s 2 %s cl 0 tr 1 cn 0 2 ts 2 1 tr 1 dr 0 dr 2 dr 1" % F
W_F11 = "a 1 %s cn 0 2 ts 0 1 ms 0 0 2 ms 1 2 3 pl 0 0 pl 1 1 tr 1 df 0 ln 0 pl 1 2 df 1 dr 0 dr 2 dr 1" % F
W_F30 = "a 2 %s ts 0 1 ts 0 2 ms 0 0 3 pl 0 0 tr 1 ln 0 pl 0 0 tr 1 tr 1 df 0 dr 0 dr 1" % F


def _p(covers, witness=None):
    return {"engines": [ENGINE], "witness": witness or {}, "assumptions": ASSUME, "covers": covers, "engine_info": INFO}


PROPS = {
    "C01": _p("mpsc bounded (sync+async handles, K2, all histories): conservation of ids over received/buffered/in-future/handed-back/dropped, no duplicate receive, failed ops leave the queue unchanged, try_send and batch errors hand back exactly the unsent input"),
    "C02": _p("mpsc bounded (K2): accepted = received ++ buffered ++ destroyed in send order for all histories; receive outputs are the received list; batches keep order; D1 runs cross >=3 chunk boundaries and >=2 chunk-table laps"),
    "C03": _p("mpsc bounded (K2): len <= cap always; try_send Ok iff not full and not closed (exact, cold path); waiting forms admitted by len+unpublished < cap - 'waits only for space' refuted by the K-cadenced publication (F-30) and proved when nothing is unpublished",
              {"F-30-mpscb-c03": (ENGINE, W_F30, "C03:F-30-pending-with-space")}),
    "C04": _p("mpsc bounded (K2): Disconnected only when drained and no open sender; Disconnected final except via clone-of-closed-sender (F-M1, full theorem for the repaired Clone); Closed+value after the receiver is gone; clone isolation; closed handle rejects every form except recv_timeout (F-03, full theorem for the repaired form); close idempotent",
              {"F-03-mpscb": (ENGINE, W_F03, "C04:F-03-recv-timeout-on-closed"),
               "F-M1-mpscb": (ENGINE, W_FM1, "C04:F-M1-clone-after-close")}),
    "C06": _p("mpsc bounded futures/stream (K2, all create/poll/drop histories): receive side full clause (pending receive future/stream woken as soon as its poll would be Ready; single outstanding receive waiter), no dangling registration on either side, disconnect wakes every pending sender, every pending sender is queued-or-woken; literal send-side clause refuted (F-11 one wake per publication; F-30 unpublished credit) with the 'wake is held by someone' theorem for histories without a cancelled wake holder",
              {"F-11-mpscb": (ENGINE, W_F11, "C06:F-11-one-wake-per-publication"),
               "F-30-mpscb": (ENGINE, W_F30, "C06:F-30-unpublished-credit")}),
    "C09": _p("mpsc bounded (K2): every id in exactly one location in every history; terminal locations only grow; drop events = ids moved to Dropped; after all handles/futures are gone (any teardown order) every id returned or dropped exactly once; D1 compares per-id drop counters incl. recycled chunks"),
}
