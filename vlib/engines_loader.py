"""E-LOADER D1 engines: fibre_cache fetch_with / loader single-flight (C15, and C12's stale clause).

Two case families, one pair of line drivers (exe `loader`):
  loader.seq   sequential histories (K2 projection of coq/Cache/Loader.v: every call runs to quiescence)
  loader.conc  gate-driven concurrent scenarios; outputs are counts/sets, independent of thread timing

The monitors below judge the PROPERTY's clauses from the implementation's output alone (they never
look at the model).  Clause ids are prefixed with the property they belong to."""
from .flow import Engine

VBASE = 1000


def loader_cost(k, v):
    return 1 + (k + v) % 5


def parse_tail(parts):
    """parts: the ' | '-separated fields after the op outputs -> (runs dict, res dict, cc)"""
    runs, res, cc = {}, {}, None
    for p in parts:
        p = p.strip()
        if p.startswith("runs"):
            for kv in p[4:].strip().split(","):
                if kv:
                    k, n = kv.split(":")
                    runs[int(k)] = int(n)
        elif p.startswith("res"):
            for e in p[3:].strip().split(","):
                if e:
                    k, v, c, t = e.split(":")
                    res[int(k)] = (int(v), int(c), None if t == "-" else int(t))
        elif p.startswith("cc"):
            cc = int(p[2:].strip())
    return runs, res, cc


class LoaderSeq(Engine):
    name = "loader.seq"
    exe = "loader"
    model_file = "Cache/Loader.v"
    ARITY = {"f": 2, "i": 4, "r": 2, "x": 2, "a": 2, "m": 1}

    def n_cases(self, tier):
        return 1200 if tier == "quick" else 25000

    def corpus(self):
        return [
            "seq s - - 4 1 f 1 f 1 x 1 f 1 f 2",
            "seq a - - 4 4 f 1 f 1 r 1 f 1 r 1 r 1 f 2 f 1",
            "seq s 10 5 4 1 f 1 f 1 a 12 f 1 f 1 x 1 f 1 i 2 5 3 m m m f 2",
            "seq a 10 5 4 2 f 1 a 9 f 1 a 1 f 1 f 1 a 14 f 1 a 15 f 1",       # at ttl, inside grace, at ttl+grace
            "seq s 10 - 4 1 f 1 a 9 f 1 a 1 f 1 a 10 f 1",                    # no grace: boundary instants
            "seq s 3 2 2 1 i 1 7 2 f 1 a 3 f 1 f 1 m m m m m m f 1",          # insert's timer outlives the reload
            "seq s 5 - 4 1 i 1 7 2 m m m m m m f 1 m f 1",
            "seq a 4 4 1 1 f 0 a 4 f 0 a 4 f 0 a 8 f 0 f 0",
            "seq s 0 - 4 1 f 1 f 1 i 1 9 1 f 1",                             # ttl = 0: every entry is born expired
            "seq s 6 3 4 4 f 0 f 1 f 2 f 3 a 7 f 0 f 1 x 2 f 2 a 9 f 3 f 0",
        ]

    def gen(self, rng, tier):
        ttl = rng.pick([None, None, 1, 2, 3, 5, 8, 12])
        grace = rng.pick([None, 1, 2, 4, 6]) if ttl is not None and rng.chance(2, 3) else None
        hdr = ["seq", rng.pick(["s", "a"]), "-" if ttl is None else str(ttl), "-" if grace is None else str(grace),
               str(rng.pick([1, 2, 3, 4, 8])), str(rng.pick([1, 2, 4]))]
        nk = rng.pick([1, 2, 3, 4])
        n = rng.pick([2, 3, 5, 8, 12, 20, 30])
        dts = [0, 1, 1, 2, 3, 5]
        if ttl is not None:
            dts += [max(ttl - 1, 0), ttl, ttl + 1]
            if grace is not None:
                dts += [ttl + grace - 1, ttl + grace, ttl + grace + 1, grace]
        toks = list(hdr)
        for _ in range(n):
            op = rng.weighted([("f", 50), ("i", 8), ("r", 4), ("x", 8), ("a", 22), ("m", 8)])
            if op == "f":
                toks += ["f", str(rng.below(nk))]
            elif op == "i":
                toks += ["i", str(rng.below(nk)), str(1 + rng.below(99)), str(rng.below(7))]
            elif op in ("r", "x"):
                toks += [op, str(rng.below(nk))]
            elif op == "a":
                toks += ["a", str(rng.pick(dts))]
            else:
                toks += ["m"]
        return " ".join(toks)

    def split(self, line):
        t = line.split()
        hdr, ops, i = t[:6], [], 6
        while i < len(t):
            k = self.ARITY.get(t[i], 1)
            ops.append(t[i:i + k])
            i += k
        return hdr, ops

    def nontrivial(self, line, impl_out):
        return sum(1 for op in self.split(line)[1] if op[0] == "f") >= 2

    def monitor(self, line, out):
        hdr, ops = self.split(line)
        hits = []
        if out.strip() in ("HANG", "PANIC") or out.startswith("DRIVER"):
            return [("C15:hang" if out.strip() == "HANG" else "panic", "case output %s" % out.strip())]
        parts = out.split(" | ")
        outs = [o.strip() for o in parts[0].split(";")] if parts[0].strip() else []
        runs, res, cc = parse_tail(parts[1:])
        ttl = None if hdr[2] == "-" else int(hdr[2])
        grace = None if hdr[3] == "-" else int(hdr[3])
        now = 1
        cur = {}          # key -> (id, cost, exp or None)
        maybe_gone = set()  # keys a maintenance pass may have removed (timer wheel: C12's business)
        nruns = 0
        want_runs = {}

        def exp_of():
            return None if ttl is None else now + ttl

        def load(k):
            nonlocal nruns
            v = VBASE + nruns
            nruns += 1
            want_runs[k] = want_runs.get(k, 0) + 1
            cur[k] = (v, loader_cost(k, v), exp_of())
            maybe_gone.discard(k)
            return v

        for op, o in zip(ops, outs):
            if "TASK-HANG" in o:
                hits.append(("C15:hang", "a loader task did not finish after %s" % " ".join(op)))
                break
            if o == "PANIC":
                hits.append(("panic", "op %s panicked" % " ".join(op)))
                break
            if op[0] == "f":
                k = int(op[1])
                got = int(o[1:]) if o.startswith("v") and o[1:].isdigit() else None
                c = cur.get(k)
                fresh = c is not None and (c[2] is None or now < c[2])
                stale_ok = c is not None and not fresh and grace is not None and now < c[2] + grace
                fresh_id = VBASE + nruns
                if c is not None and got == c[0] and got != fresh_id:
                    if fresh:
                        pass
                    elif stale_ok:
                        load(k)     # the property: a stale serve triggers exactly one refresh
                    else:
                        hits.append(("C12:stale-window", "fetch_with(%d) at t=%d served id %d whose entry expired at %d (grace %s)" % (k, now, got, c[2], grace)))
                        break
                elif got == fresh_id:
                    if fresh and k not in maybe_gone:
                        hits.append(("C15:needless-load", "fetch_with(%d) at t=%d ran the loader although id %d was resident and fresh" % (k, now, c[0])))
                        break
                    load(k)
                else:
                    hits.append(("C15:value", "fetch_with(%d) at t=%d returned %s; expected %s or a fresh load (id %d)" % (
                        k, now, o, "id %d" % c[0] if c else "no resident value", fresh_id)))
                    break
            elif op[0] == "i":
                k = int(op[1])
                cur[k] = (int(op[2]), int(op[3]), exp_of())
                maybe_gone.discard(k)
            elif op[0] in ("r", "x"):
                k = int(op[1])
                c = cur.pop(k, None)
                present = o not in ("r-", "f")
                if present and c is None:
                    hits.append(("C15:value", "%s reported an entry for key %d that nothing put there" % (" ".join(op), k)))
                    break
                if not present and c is not None and k not in maybe_gone:
                    hits.append(("C15:not-resident", "%s found nothing although id %d was inserted/loaded and never removed" % (" ".join(op), c[0])))
                    break
                if op[0] == "r" and present and c is not None and o != "r%d" % c[0]:
                    hits.append(("C15:value", "remove(%d) returned %s, resident id was %d" % (k, o, c[0])))
                    break
                maybe_gone.discard(k)
            elif op[0] == "a":
                now += int(op[1])
            elif op[0] == "m":
                if ttl is not None:
                    maybe_gone |= set(cur)
        else:
            if len(outs) == len(ops):
                # loader invocation counts: exactly one per miss / per stale serve
                for k in set(runs) | set(want_runs):
                    if runs.get(k, 0) != want_runs.get(k, 0):
                        hits.append(("C15:run-count", "loader ran %d times for key %d, the history has %d misses/refreshes" % (
                            runs.get(k, 0), k, want_runs.get(k, 0))))
                # residency + cost of what is there
                for k, (v, c, t) in res.items():
                    cu = cur.get(k)
                    if cu is None or cu[0] != v:
                        hits.append(("C15:not-resident", "key %d holds id %d, expected %s" % (k, v, cu[0] if cu else "nothing")))
                    elif cu[1] != c:
                        hits.append(("C15:cost", "key %d id %d resident with cost %d, loader/insert gave %d" % (k, v, c, cu[1])))
                for k, cu in cur.items():
                    fresh = cu[2] is None or now < cu[2]
                    if fresh and k not in maybe_gone and k not in res:
                        hits.append(("C15:not-resident", "key %d: id %d should be resident and fresh at t=%d" % (k, cu[0], now)))
        return hits


class LoaderConc(Engine):
    name = "loader.conc"
    exe = "loader"
    model_file = "Cache/Loader.v"

    def n_cases(self, tier):
        return 140 if tier == "quick" else 2500

    def corpus(self):
        return [
            "conc s s - - 1 herd 3 4",
            "conc a a - - 1 herd 3 4",
            "conc s a - - 4 herd 2 6",
            "conc s s - - 4 two 0 1 3",
            "conc a s - - 1 two 0 1 3",      # both keys on one stripe
            "conc s s - - 1 during 5 3 2",
            "conc s s - - 1 reload 5 3",
            "conc s s 10 5 1 expire 5 3 20",
            "conc a a 10 5 2 stale 5 3 12",
            "conc s s 10 5 1 stale 5 3 10",  # exactly at expires_at
            "conc s s - - 1 tpause 4 1",     # task parked before its map write: a new caller joins the pending load
            "conc s s - - 1 tpause 4 3",     # task parked after the map write, before the marker removal: a new caller hits
            "conc a a - - 2 tpause 5 1",
            "conc a s - - 1 tpause 5 3",
            "conc s s - - 1 reinv 6",        # marker removal precedes completion; invalidate + fetch_with starts a NEW load
            "conc a a - - 2 reinv 6",
            "conc s a - - 1 reinv 2",
            "conc s s - - 1 late 7",         # F-22 forced
            "conc a a - - 1 late 7",
            "conc s a - - 2 late 3",
        ]

    def gen(self, rng, tier):
        L, H = rng.pick(["s", "a"]), rng.pick(["s", "a"])
        sh = rng.pick([1, 2, 4])
        sc = rng.weighted([("herd", 30), ("two", 25), ("during", 15), ("reload", 10), ("expire", 10), ("stale", 15), ("tpause", 10), ("reinv", 12)])
        m = 1 + rng.below(6)
        k = rng.below(8)
        ttl, grace = "-", "-"
        if sc in ("expire", "stale") or rng.chance(1, 4):
            t = 2 + rng.below(9)
            ttl = str(t)
            g = 1 + rng.below(5)
            if sc == "stale" or rng.chance(1, 2):
                grace = str(g)
        if sc == "herd":
            args = [k, m]
        elif sc == "two":
            k2 = (k + 1 + rng.below(7)) % 8
            args = [k, k2, m]
        elif sc == "during":
            args = [k, m, 1 + rng.below(4)]
        elif sc in ("reload", "reinv"):
            args = [k, m] if sc == "reload" else [k]
        elif sc == "tpause":
            args = [k, rng.pick([1, 3])]
        elif sc == "expire":
            t = int(ttl)
            g = int(grace) if grace != "-" else 0
            args = [k, m, t + g + rng.below(3)]
        else:
            t, g = int(ttl), int(grace)
            args = [k, m, t + rng.below(g)]
        return " ".join(["conc", L, H, ttl, grace, str(sh), sc] + [str(a) for a in args])

    def split(self, line):
        t = line.split()
        return t[:6], [t[6:]]

    def shape(self, line):
        t = line.split()
        return " ".join(t[1:3] + [t[3] != "-" and "ttl" or "-", t[4] != "-" and "g" or "-", t[5], t[6]] + t[8:])

    def nontrivial(self, line, impl_out):
        return True

    def monitor(self, line, out):
        t = line.split()
        sc, args = t[6], [int(x) for x in t[7:]]
        hits = []
        o = out.strip()
        if o == "HANG":
            return [("C15:hang", "scenario never finished: a caller or a loader task is blocked forever")]
        if o == "PANIC" or o.startswith("DRIVER"):
            return [("panic", o)]
        if sc == "stress":
            f = o.split()
            d = dict(zip(f[1::2], f[2::2]))
            if int(d.get("hang", 0)):
                hits.append(("C15:hang", o))
            if int(d.get("dup", 0)) or int(d.get("split", 0)):
                hits.append(("C15:stress-duplicate-load", o))
            return hits
        parts = o.split(" | ")
        rets = {}
        for e in parts[0][4:].strip().split(","):
            if e:
                kv, n = e.split("*")
                k, v = kv.split(":")
                rets.setdefault(int(k), {})[int(v)] = int(n)
        probe = None
        if parts[-1].startswith("early"):
            parts = parts[:-1]
        elif parts[-1].startswith("probe"):
            probe = parts[-1].split()[1]
            parts = parts[:-1]
        runs, res, cc = parse_tail(parts[1:])
        last = parts[-1].split()
        hang, panic = int(last[1]), int(last[3])
        if hang and sc == "tpause":
            hits.append(("C15:section-order", "with the loader task parked between its sections a new caller could neither hit nor join the pending load "
                         "(the task holds a lock where none should be held, or map-write / marker-removal order changed); hang=%d" % hang))
        elif hang:
            hits.append(("C15:hang", "%d caller(s)/task(s) still blocked after the loader returned" % hang))
        if panic:
            hits.append(("panic", "%d caller(s) panicked" % panic))
        if hits:
            return hits

        def expect(k, nruns, groups, late=False):
            """groups: list of caller counts, one per expected load generation, in load order"""
            r = runs.get(k, 0)
            ids = sorted(rets.get(k, {}))
            if r != nruns or len(ids) != len(groups):
                clause = "C15:late-arrival-duplicate-load" if late and r == 2 and len(ids) == 2 else "C15:duplicate-load" if r > nruns else "C15:run-count"
                hits.append((clause, "key %d: loader ran %d times (expected %d); callers returned ids %s" % (k, r, nruns, rets.get(k, {}))))
                return
            for i, n in zip(ids, groups):
                if rets[k][i] != n:
                    hits.append(("C15:split-values", "key %d: %d callers expected on id %d, got %s" % (k, n, i, rets[k])))
            cur = ids[-1]
            if k not in res or res[k][0] != cur:
                hits.append(("C15:not-resident", "key %d: id %d not resident afterwards (res %s)" % (k, cur, res.get(k))))
            elif res[k][1] != loader_cost(k, cur):
                hits.append(("C15:cost", "key %d: id %d resident with cost %d, loader returned %d" % (k, cur, res[k][1], loader_cost(k, cur))))

        if sc == "herd":
            expect(args[0], 1, [args[1]])
        elif sc == "two":
            expect(args[0], 1, [args[2]])
            expect(args[1], 1, [args[2]])
        elif sc == "during":
            expect(args[0], 1, [args[1] + args[2]])
        elif sc in ("reload", "expire"):
            expect(args[0], 2, [args[1], args[1]])
        elif sc == "stale":
            expect(args[0], 2, [1 + args[1], 1])
        elif sc == "tpause":
            expect(args[0], 1, [2])
        elif sc == "reinv":
            k = args[0]
            ids = rets.get(k, {})
            if probe == "ready":
                hits.append(("C15:stale-join-after-invalidate",
                             "key %d: with the loader task parked before its marker removal, invalidate(%d); fetch_with(%d) returned at once with id %s and no loader run: "
                             "the call joined a load that was already completed (callers released while the future is still registered as in flight)" % (k, k, k, sorted(ids))))
            if runs.get(k, 0) == 1 and len(ids) == 1:
                hits.append(("C11:removed-value-returned",
                             "key %d: fetch_with; invalidate (completed); fetch_with returned the invalidated value id %s (resurrection of a removed value)" % (k, sorted(ids))))
                hits.append(("C15:stale-join-after-invalidate",
                             "key %d: fetch_with; invalidate; fetch_with -- the miss after the invalidation returned the invalidated id %s and the loader ran %d time(s) instead of 2" % (
                                 k, sorted(ids), runs.get(k, 0))))
            elif probe != "ready":
                expect(k, 2, [2, 1])
            elif not hits:
                expect(k, 2, [2, 1])
        elif sc == "late":
            # two concurrent callers of one key, nothing invalidated: one load, one value
            expect(args[0], 1, [2], late=True)
        return hits
