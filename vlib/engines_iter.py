"""E-ITER D1 engine: iteration (iter / iter_with_batch_size / stream / iter_snapshot / async snapshot
iterator), to_snapshot -> bincode -> build_from_snapshot, and the restored cache's later life, on the
real fibre_cache::Cache vs the extraction of coq/Cache/{Iter,Snapshot}.v.

case:  <shards> <cap|0> <ttl|0> <tti|0>  ops...
ops:   I k v c | T k v c d | A d | G k | P k | IT | IB n | IC n d K | SD | ST n | SC n d K | IS | AS
       | SN gap rtti | SB gap rttl rtti | M | C
       (SN: restoring builder without time_to_live; SB: with time_to_live rttl - it applies to later inserts only)
Generator invariants that every sub-sequence of a case keeps (so shrinking stays inside the model):
  * M only in cases whose header has ttl = tti = 0, whose SN ops have rtti = 0 and that have no SB op (no
    timer wheel, no TTI sampling in run_maintenance);
  * G (fetch) only in unbounded cases (bounded caches are read with peek: no read-access batching).
"""
import re
from .flow import Engine

ARITY = {"I": 4, "T": 5, "A": 2, "G": 2, "P": 2, "IT": 1, "IB": 2, "IC": 4, "SD": 1, "ST": 2, "SC": 4,
         "IS": 1, "AS": 1, "SN": 3, "SB": 4, "M": 1, "C": 1}
T0 = 1000
DEFAULT_BATCH = 64
DRAIN_LIMIT = 16
SIZES = [0, 1, 2, 3, 5, 8, 17, 63, 64, 65, 127, 128, 129, 200]
BATCHES = [0, 1, 2, 3, 7, 63, 64, 65, 128, 1000]


class DiffStr(str):
    """An output line that *compares* without the item lists of clock-advancing iterations ("ic ..."
    groups) but still *carries* them.  Which entries expire before the cursor reaches them depends on
    the map's enumeration order, a parameter of the model, so model and implementation legitimately
    differ there; flow.py diffs canon(impl) against canon(model) and hands canon(impl) to the monitor,
    which needs the full list to judge the sandwich clauses of C17_iter_clock."""

    def _key(self):
        return re.sub(r"ic \d+ \[[0-9:,]*\]", "ic *", str.__str__(self))

    def __eq__(self, other):
        return self._key() == (other._key() if isinstance(other, DiffStr) else other)

    def __ne__(self, other):
        return not self.__eq__(other)

    def __hash__(self):
        return hash(self._key())


class IterEngine(Engine):
    model_file = "Cache/Iter.v, Cache/Snapshot.v"
    exe = "iter"
    name = "iter"

    def n_cases(self, tier):
        return 1200 if tier == "quick" else 12000

    # ------------------------------------------------------------------ corpus
    def corpus(self):
        def ins(keys, cost=1):
            return " ".join("I %d %d %d" % (k, 100 + k, cost) for k in keys)
        c = []
        # sizes around the default batch, everything in one shard / spread / many empty shards
        for n in (63, 64, 65, 127, 128, 129):
            c.append("8 0 0 0 " + ins(range(0, 8 * n, 8)) + " IT SD IS")
            c.append("4 0 0 0 " + ins(range(n)) + " IT IB 1 IB 2 IB 3 ST 64 AS")
        c.append("8 0 0 0 " + ins([3, 11, 19]) + " IT IB 1 IB 2 SD IS AS")
        c.append("8 0 0 0 IT IB 1 SD IS AS SN 0 0 IT C")
        # expirations between inserts and iteration, and between batches
        c.append("2 0 0 0 T 1 1 1 5 T 2 2 1 50 I 3 3 1 A 5 IT IB 1 IS SD")
        c.append("1 0 0 0 T 1 1 1 3 T 2 2 1 3 T 3 3 1 3 T 4 4 1 50 IC 1 1 10 IT")
        c.append("2 0 20 0 I 1 1 1 I 2 2 1 A 19 IT A 1 IT IS")
        c.append("2 0 0 10 I 1 1 1 I 2 2 1 A 9 G 1 A 1 IT IS A 9 IT")
        # snapshot / restore
        c.append("4 0 0 0 I 1 1 1 T 2 2 3 40 T 3 3 2 5 A 5 C SN 7 0 C IT P 1 P 2 P 3 A 34 P 2 A 1 P 2 IT")
        c.append("2 100 0 0 I 1 1 30 I 2 2 30 I 3 3 30 M C SN 0 0 C I 4 4 30 I 5 5 30 M C IT")
        # F-23 shape (fixed): snapshot taken while over capacity; the first line is the former witness
        c.append("1 10 0 0 I 1 1 4 I 2 2 4 I 3 3 4 SN 0 0 M C")
        c.append("2 10 0 0 I 5 1 4 I 2 2 4 I 3 3 4 I 8 4 3 SN 2 0 C M C IT I 4 5 1 I 9 6 2 M C IT")
        c.append("1 10 0 0 I 1 1 4 I 2 2 4 I 3 3 4 C SN 0 0 C M C IT I 4 4 1 M C IT")
        c.append("1 10 0 0 I 1 1 4 I 2 2 4 I 3 3 4 C M C IT")
        # restoring builder with its own time_to_live: the persisted remaining TTL must win (seeded C17-2)
        c.append("1 0 0 0 T 1 1 1 10 I 2 2 1 A 5 SB 0 30 0 A 4 IT A 2 IT P 1 P 2 SN 0 0 I 3 3 1 A 29 IT A 1 IT")
        c.append("2 0 20 0 I 1 1 1 T 2 2 1 50 A 15 SB 3 20 0 P 1 A 4 P 1 A 1 P 1 IT IS A 40 IT")
        c.append("4 0 7 0 I 1 1 1 I 2 2 1 I 3 3 1 A 6 SB 0 7 5 IT A 1 IT SD")
        # TTI is reset by restore
        c.append("1 0 0 10 I 1 1 1 A 9 SN 0 10 A 5 P 1")
        return c

    # --------------------------------------------------------------- generator
    def gen(self, rng, tier):
        shards = rng.pick([1, 2, 4, 8])
        mode = rng.weighted([("iter", 50), ("restore", 25), ("capacity", 25)])
        if mode == "capacity":
            return self._gen_capacity(rng, shards)
        cap = 0
        ttl = rng.pick([0, 0, 0, 7, 30])
        tti = rng.pick([0, 0, 0, 6, 25])
        n = rng.pick(SIZES) if rng.chance(3, 4) else rng.below(140)
        place = rng.pick(["spread", "one", "few", "pool"])
        residue = rng.below(8)

        def key(i):
            if place == "spread":
                return i
            if place == "one":
                return residue + 8 * i
            if place == "few":
                return (residue if i % 2 else (residue + 4) % 8) + 8 * (i // 2)
            return rng.below(max(1, n // 2) + 3)

        ops = []
        vid = 1
        for i in range(n):
            k = key(i)
            if rng.chance(1, 4):
                ops.append(["T", str(k), str(vid), "1", str(rng.pick([0, 3, 5, 10, 50, 1000]))])
            else:
                ops.append(["I", str(k), str(vid), "1"])
            vid += 1
            if rng.chance(1, 12):
                ops.append(["A", str(rng.pick([1, 2, 5, 10]))])
            if rng.chance(1, 15):
                ops.append(["G", str(key(rng.below(i + 1)))])
        if rng.chance(1, 2):
            ops.append(["A", str(rng.pick([1, 3, 5, 6, 7, 10, 25, 50]))])

        def observe(k):
            out = []
            for _ in range(k):
                o = rng.weighted([("IT", 4), ("IB", 6), ("IC", 5), ("SD", 2), ("ST", 4), ("SC", 3), ("IS", 4), ("AS", 2),
                                  ("A", 2), ("P", 2), ("C", 1)])
                if o in ("IB", "ST"):
                    out.append([o, str(rng.pick(BATCHES))])
                elif o in ("IC", "SC"):
                    out.append([o, str(rng.pick([1, 2, 3, 7, 64])), str(rng.pick([1, 1, 2, 5])), str(rng.pick([1, 2, 5, 20, 200]))])
                elif o == "A":
                    out.append(["A", str(rng.pick([1, 2, 5, 10, 30]))])
                elif o == "P":
                    out.append(["P", str(key(rng.below(n + 1)))])
                else:
                    out.append([o])
            return out

        ops += observe(rng.pick([1, 2, 3]))
        if mode == "restore":
            gap = str(rng.pick([0, 0, 1, 5, 20]))
            if rng.chance(1, 3):
                # restoring builder with its own time_to_live: equal to / shorter / longer than the original's
                # ttls; then walk the clock past the ORIGINAL deadlines and look
                rttl = rng.pick([ttl, 3, 7, 30, 100, 2000]) or 30
                ops.append(["SB", gap, str(rttl), str(rng.pick([0, 0, 0, 4, 12]))])
                for _ in range(rng.pick([1, 2, 3])):
                    ops.append(["A", str(rng.pick([1, 2, 3, 5, 6, 7, 10, 25, 50]))])
                    ops.append([rng.pick(["IT", "IT", "IB", "IS", "SN", "P"])])
                    if ops[-1] == ["IB"]:
                        ops[-1] = ["IB", str(rng.pick([1, 2, 64]))]
                    elif ops[-1] == ["SN"]:
                        ops[-1] = ["SN", "0", "0"]
                    elif ops[-1] == ["P"]:
                        ops[-1] = ["P", str(key(rng.below(n + 1)))]
            else:
                ops.append(["SN", gap, str(rng.pick([0, 0, 4, 12]))])
            ops += observe(rng.pick([1, 2, 4]))
            for j in range(rng.below(6)):
                ops.append(["I", str(key(rng.below(n + 4))), str(vid), "1"])
                vid += 1
            ops += observe(rng.pick([1, 2]))
        return " ".join([str(shards), str(cap), str(ttl), str(tti)] + [t for o in ops for t in o])

    def _gen_capacity(self, rng, shards):
        cap = rng.pick([5, 10, 20, 50])
        nk = rng.pick([4, 8, 16, 40])
        ops = []
        vid = [1]

        def inserts(m):
            for _ in range(m):
                k = rng.below(nk)
                c = rng.pick([0, 1, 1, 2, 3, 5])
                if rng.chance(1, 8):
                    ops.append(["T", str(k), str(vid[0]), str(c), str(rng.pick([0, 5, 50]))])
                else:
                    ops.append(["I", str(k), str(vid[0]), str(c)])
                vid[0] += 1
                if rng.chance(1, 10):
                    x = rng.pick(["M", "C", "A"])
                    ops.append(["A", str(rng.pick([1, 5, 50]))] if x == "A" else [x])

        inserts(rng.pick([2, 5, 10, 20, 40]))
        if rng.chance(1, 2):
            ops += [["M"], ["C"]]
        if rng.chance(1, 3):
            ops.append(["IT"])
        if rng.chance(4, 5):
            ops.append(["SN", str(rng.pick([0, 0, 3])), "0"])
            ops += [["C"], ["M"], ["C"], ["IT"]]
            inserts(rng.pick([0, 1, 3, 10, 30]))
            ops += [["M"], ["C"], ["IT"]]
            if rng.chance(1, 2):
                inserts(rng.pick([1, 5]))
                ops += [["M"], ["M"], ["C"], ["IB", str(rng.pick([1, 2, 64]))]]
        return " ".join([str(shards), str(cap), "0", "0"] + [t for o in ops for t in o])

    # ------------------------------------------------------------------ shape
    def split(self, line):
        t = line.split()
        hdr, ops, i = t[:4], [], 4
        while i < len(t):
            k = ARITY[t[i]]
            ops.append(t[i:i + k])
            i += k
        return hdr, ops

    def shape(self, line):
        hdr, ops = self.split(line)
        names = [o[0] + (o[1] if o[0] in ("IB", "ST", "IC", "SC") else "") for o in ops if o[0] not in ("I", "T")]
        nins = sum(1 for o in ops if o[0] in ("I", "T"))
        return " ".join(hdr) + "|%d|" % nins + " ".join(names)

    def canon(self, out_line):
        return DiffStr(out_line)

    def nontrivial(self, line, out):
        ops = self.split(line)[1]
        return len(ops) >= 2 and any(o[0] in ("IT", "IB", "IC", "SD", "ST", "SC", "IS", "AS", "SN", "SB") for o in ops)

    # ---------------------------------------------------------------- monitor
    def monitor(self, line, out):
        """C17 judged on the implementation's output and the case script alone.  Python bookkeeping of
        what is logically in the cache; nothing here looks at the model."""
        hdr, ops = self.split(line)
        outs = [o.strip() for o in out.split(";")] if out.strip() else []
        hits = []

        def hit(c, d):
            hits.append((c, d))

        n, cap, ttl, tti = int(hdr[0]), int(hdr[1]), int(hdr[2]), int(hdr[3])
        now = T0
        # key -> dict: v, c, exp (absolute or None), la, maybe (capacity eviction may have removed it),
        #   and for entries that came out of a snapshot and were not re-inserted or hit since:
        #   limit (absolute end of the lifetime the entry had left in the ORIGINAL cache, counted from
        #   the restore), why (what bounded that lifetime), rt (time of the restore)
        ents = {}
        restored = False           # the current cache was built from a snapshot
        snap_total = 0             # sum of the costs in that snapshot
        pending = {}               # shard -> write events not yet drained into the policy
        settled = None             # True after a fully draining run_maintenance, until the next write
        acct_ok = True             # current_cost is judged throughout: since /repo 496bcb6 (F-18) capacity cleanup
        #                            subtracts what it actually removed, so a partially draining run_maintenance
        #                            (> 16 pending writes in a shard, stale policy cost) no longer makes it drift

        def expired(e, t):
            return (e["exp"] is not None and t >= e["exp"]) or (tti > 0 and t >= e["la"] + tti)

        def insert(k, v, c, exp):
            ents[k] = {"v": v, "c": c, "exp": exp, "la": now, "maybe": False, "limit": None, "why": "", "rt": None}
            pending[k % n] = pending.get(k % n, 0) + 1

        def served(k, v, what, t_live):
            """the implementation served (k, v); it had to be live at t_live"""
            e = ents.get(k)
            if e is None:
                hit("phantom", "%s served key %d which is not in the cache" % (what, k))
                return
            if v != e["v"]:
                hit("wrong-value", "%s served %d:%d, current value is %d" % (what, k, v, e["v"]))
            e["maybe"] = False
            if e["limit"] is not None and t_live >= e["limit"]:
                outlived(e, k, what, t_live)
            elif expired(e, t_live):
                hit("served-expired", "%s served key %d at t=%d, after its expiry" % (what, k, t_live))

        def outlived(e, k, what, t):
            """a restored, untouched entry is still there at or after the end of the lifetime it had left in
            the original cache (counted from the restore): remaining lifetimes must not be longer"""
            cl = "restore-tti-not-preserved" if e["why"] == "tti" else "restored-outlives-original"
            hit(cl, "%s served restored key %d at t=%d; the lifetime it had left in the original cache, "
                    "counted from the restore at t=%d, ended at t=%d" % (what, k, t, e["rt"], e["limit"]))

        def touch(k):
            if tti > 0 and k in ents:
                ents[k]["la"] = now
                ents[k]["limit"] = None      # a hit legitimately starts a new idle period

        def must_be_there(e, t):
            """is the property violated if e is not served at time t?"""
            if expired(e, t) or e["maybe"]:
                return None
            if e["limit"] is None:
                return "missing"
            # restored, untouched: "same mapping" is required at the restore; later the property only
            # bounds the lifetime from above
            return "restore-mapping" if t == e["rt"] else None

        if out.strip() == "SKIPPED-AFTER-HANG":
            return hits
        for op, o in zip(ops, outs):
            if o == "HANG":
                hit("hang", "op %s did not return within 30 s" % " ".join(op))
                break
            if o == "PANIC" or o.startswith("DRIVER") or "ERROR" in o or "OUT-OF-FUEL" in o:
                hit("panic", "op %s -> %s" % (" ".join(op), o))
                break
            t = op[0]
            if t in ("I", "T"):
                k, v, c = int(op[1]), int(op[2]), int(op[3])
                insert(k, v, c, now + int(op[4]) if t == "T" else (now + ttl if ttl > 0 else None))
                settled = None
            elif t == "A":
                now += int(op[1])
            elif t in ("G", "P"):
                k = int(op[1])
                e = ents.get(k)
                if o == "-":
                    why = must_be_there(e, now) if e is not None else None
                    if why == "missing":
                        hit("read-missing", "%s %d returned nothing at t=%d, live value is %d" % (t, k, now, e["v"]))
                    elif why:
                        hit(why, "restored key %d not readable right after the restore" % k)
                else:
                    m = re.match(r"v(\d+)$", o)
                    if not m:
                        hit("bad-output", o)
                        break
                    served(k, int(m.group(1)), t, now)
                    if t == "G":
                        touch(k)
            elif t in ("IT", "IB", "IC", "SD", "ST", "SC", "IS", "AS"):
                m = re.match(r"i[tc] (\d+) \[([0-9:,]*)\]$", o)
                if not m:
                    hit("bad-output", o)
                    break
                items = [tuple(int(x) for x in p.split(":")) for p in m.group(2).split(",")] if m.group(2) else []
                if int(m.group(1)) != len(items):
                    hit("bad-output", o)
                d = int(op[2]) * int(op[3]) if t in ("IC", "SC") else 0     # total clock advance of the op
                start, end = now, now + d
                seen = set()
                for k, v in items:
                    if k in seen:
                        hit("iter-duplicate", "%s yielded key %d twice" % (t, k))
                    seen.add(k)
                    # an entry yielded must have been live when the iteration began
                    served(k, v, t, start)
                for k, e in list(ents.items()):
                    if k in seen:
                        continue
                    # an entry still live when the iteration ended must have been yielded
                    if e["maybe"] and d == 0 and not expired(e, end):
                        del ents[k]             # capacity eviction removed it: now we know
                        continue
                    why = must_be_there(e, end) if (d == 0 or e["limit"] is None) else None
                    if why == "missing":
                        hit("iter-missing", "%s did not yield live key %d (value %d)" % (t, k, e["v"]))
                    elif why:
                        hit(why, "restored key %d not enumerated right after the restore" % k)
                if t in ("IS", "AS"):
                    for k in seen:
                        touch(k)
                now = end
            elif t in ("SN", "SB"):
                gap, rttl, rtti = (int(op[1]), 0, int(op[2])) if t == "SN" else (int(op[1]), int(op[2]), int(op[3]))
                m = re.match(r"sn (\d+) \[([0-9:,\-]*)\]( ROUNDTRIP-DIFFERS)?$", o)
                if not m:
                    hit("bad-output", o)
                    break
                if m.group(3):
                    hit("snapshot-roundtrip", "bincode round trip changed the snapshot")
                rows = {}
                for p in (m.group(2).split(",") if m.group(2) else []):
                    k, v, c, r = p.split(":")
                    if int(k) in rows:
                        hit("snapshot-duplicate", "key %s twice in the snapshot" % k)
                    rows[int(k)] = (int(v), int(c), None if r == "-" else int(r))
                if int(m.group(1)) != len(rows):
                    hit("bad-output", o)
                rt = now + gap
                new = {}
                for k, (v, c, r) in rows.items():
                    e = ents.get(k)
                    if e is None:
                        hit("phantom", "snapshot contains key %d which is not in the cache" % k)
                        continue
                    if e["limit"] is not None and now >= e["limit"]:
                        outlived(e, k, "to_snapshot", now)      # and carry it over: it IS in the new cache
                    elif expired(e, now):
                        hit("snapshot-expired", "snapshot contains key %d, expired at t=%d" % (k, now))
                        continue
                    if v != e["v"] or c != e["c"]:
                        hit("snapshot-wrong", "snapshot has %d:%d cost %d, cache has value %d cost %d" % (k, v, c, e["v"], e["c"]))
                    want = None if e["exp"] is None else e["exp"] - now
                    if r != want:
                        hit("snapshot-ttl", "snapshot ttl_remaining of key %d is %r, the entry has %r left" % (k, r, want))
                    rem, why = want, "ttl"          # lifetime left in the original cache, all causes
                    if tti > 0 and (rem is None or e["la"] + tti - now < rem):
                        rem, why = e["la"] + tti - now, "tti"
                    new[k] = {"v": e["v"], "c": e["c"], "exp": None if want is None else rt + want, "la": rt,
                              "maybe": False, "limit": None if rem is None else rt + rem, "why": why, "rt": rt}
                for k, e in ents.items():
                    if k not in rows and not expired(e, now) and not e["maybe"]:
                        hit("snapshot-missing", "live key %d (value %d) is not in the snapshot" % (k, e["v"]))
                ents = new
                now = rt
                tti, ttl = rtti, rttl       # the builder's time_to_live applies to later inserts only
                restored = True
                snap_total = sum(c for (_, c, _) in rows.values())
                pending = {}
                settled = None
                acct_ok = True
            elif t == "M":
                drained = all(p <= DRAIN_LIMIT for p in pending.values())
                pending = {s: max(0, p - DRAIN_LIMIT) for s, p in pending.items()}
                if cap > 0:
                    settled = drained
                    # evictions are possible when over capacity - or whenever the accounting may have
                    # drifted (partial drain): then current_cost is not the resident cost any more
                    if not acct_ok or sum(e["c"] for e in ents.values()) > cap:
                        for e in ents.values():
                            e["maybe"] = True
            elif t == "C":
                m = re.match(r"c (\d+)$", o)
                if not m:
                    hit("bad-output", o)
                    break
                c = int(m.group(1))
                lo = sum(e["c"] for e in ents.values() if not e["maybe"])
                hi = sum(e["c"] for e in ents.values())
                if acct_ok and not (lo <= c <= hi):
                    hit("restored-cost" if restored else "cost-mismatch", "current_cost %d, resident entries cost between %d and %d" % (c, lo, hi))
                # "honours its capacity": after a fully draining run_maintenance, until the next write
                if cap > 0 and settled and acct_ok and c > cap:
                    if restored and snap_total > cap:
                        hit("restored-over-capacity",
                            "restored cache: current_cost %d > capacity %d after run_maintenance (the snapshot held "
                            "cost %d: are the restored entries known to the eviction policy? finding F-23)" % (c, cap, snap_total))
                    elif restored:
                        hit("restored-capacity", "restored cache: current_cost %d > capacity %d after run_maintenance" % (c, cap))
                    else:
                        hit("capacity-after-maintenance", "current_cost %d > capacity %d after run_maintenance" % (c, cap))
        return hits
