"""The check flow shared by all properties (DESIGN.md §3, §6):
static gate -> proof gate -> tie gate (D1 differential + property monitors) -> verdict."""
import json
import os
import time
import hashlib

from . import common as C


class Engine:
    """One D1 correspondence engine: a family of cases understood by both line drivers."""
    name = "?"
    crate = "seqdrv"      # harness crate under /verif/harness
    exe = "?"             # binary in that crate (src/bin/<exe>.rs) and model driver modelrun_<exe>

    def gen(self, rng, tier):
        """return one case line (str) generated from rng"""
        raise NotImplementedError

    def n_cases(self, tier):
        return 2000 if tier == "quick" else 40000

    def corpus(self):
        """minimised cases that run first (list of lines)"""
        return []

    def split(self, line):
        """-> (header tokens, list of op token lists) for shrinking"""
        raise NotImplementedError

    def join(self, header, ops):
        return " ".join(header + [t for op in ops for t in op])

    def monitor(self, line, impl_out):
        """property-level oracle on the implementation's output, independent of the model.
        returns list of (clause_id, detail) violations"""
        return []

    def shape(self, line):
        """a coarse shape key used for the distinct_nontrivial count"""
        hdr, ops = self.split(line)
        return " ".join(hdr) + "|" + " ".join(op[0] for op in ops)

    def nontrivial(self, line, impl_out):
        return len(self.split(line)[1]) >= 2

    def canon(self, out_line):
        return out_line

    def model_input(self, line, impl_out):
        """the line fed to the model driver for this case.  Default: the case itself (the model
        predicts the output).  Relational engines (model with an abstract oracle component) append
        the implementation's output so that the driver can replay its choices as the oracle."""
        return line


def ddmin(ops, test):
    """delta debugging: smallest sublist of ops for which test(ops) is still True"""
    n = 2
    while len(ops) >= 2:
        chunk = max(1, len(ops) // n)
        reduced = False
        for i in range(0, len(ops), chunk):
            cand = ops[:i] + ops[i + chunk:]
            if cand and test(cand):
                ops = cand
                n = max(n - 1, 2)
                reduced = True
                break
        if not reduced:
            if chunk == 1:
                break
            n = min(n * 2, len(ops))
    return ops


class Run:
    def __init__(self, prop, tier, seed):
        self.prop, self.tier, self.seed = prop, tier, seed
        self.t0 = time.time()
        self.violations = []       # (replay_path, suffix)
        self.known_lines = []
        self.cov = {"obligations": 0, "discharged": 0, "checker_cmd": "", "trusted_base": list(C.KERNEL_TB),
                    "evaluations": 0, "distinct_nontrivial": 0, "rule": "", "samples": [],
                    "disagreements_checked": 0, "engines": {}}
        self.assumptions = []
        self.known, self.fixed = C.load_known()
        self.known = [k for k in self.known if k.get("property") == prop]

    # ---- gates
    def static_gate(self):
        nfiles, problems = C.static_gate()
        self.cov["static_gate_files"] = nfiles
        if problems:
            path = C.write_replay(self.prop, {"kind": "static-gate", "problems": problems})
            self.violations.append((path, "no-failing-input-found"))
        return not problems

    def proof_gate(self):
        res = C.proof_gate(self.prop)
        self.cov["checker_cmd"] = "make -C coq Props/%s.vo (coqc 8.16.1, full .vo) + Print Assumptions on every pinned theorem" % self.prop
        self.cov["proof_wall_s"] = round(res["wall"], 2)
        if not res["ok"]:
            self.cov["obligations"] = max(1, res.get("n_theorems", 1))
            self.cov["discharged"] = 0
            self.proof_failure = res
            return False
        self.cov["obligations"] = len(res["theorems"])
        self.cov["discharged"] = len(res["theorems"])
        self.cov["theorems"] = [{"name": n, "assumptions": a} for n, a in res["theorems"]]
        if res["axioms"]:
            self.cov["trusted_base"].append("std-library axioms used: " + ", ".join(sorted(res["axioms"])))
        else:
            self.cov["trusted_base"].append("Print Assumptions: every pinned theorem is closed under the global context (no axioms)")
        self.proof_failure = None
        return True

    # ---- tie gate
    def d1(self, engines):
        """differential run of all engines; returns list of mismatch records"""
        mism = []
        impl_exes = {}
        models = {}
        for eng in engines:
            if eng.exe not in impl_exes:
                exe, err = C.build_harness(eng.crate, eng.exe)
                if exe is None:
                    path = C.write_replay(self.prop, {"kind": "harness-build-failed", "crate": eng.crate, "log": err[-6000:]})
                    self.violations.append((path, "no-failing-input-found"))
                    return None
                impl_exes[eng.exe] = exe
                if not getattr(eng, "model_free", False):
                    models[eng.exe] = C.build_model(eng.exe)
        def one(eng):
            corpus = list(eng.corpus()) + list(getattr(eng, "_extra_corpus", []))
            n = eng.n_cases(self.tier)
            cases = list(corpus)
            for i in range(n):
                cases.append(eng.gen(C.Rng(self.seed, eng.name, i), self.tier))
            t1 = time.time()
            impl = C.run_lines(impl_exes[eng.exe], cases, shards=shards, per_shard=getattr(eng, 'per_shard', 50), mem_gb=getattr(eng, 'mem_gb', None))
            t2 = time.time()
            mod = impl if getattr(eng, "model_free", False) else \
                C.run_lines(models[eng.exe], [eng.model_input(c, a) for c, a in zip(cases, impl)], shards=shards)
            t3 = time.time()
            return eng, corpus, cases, impl, mod, t2 - t1, t3 - t2

        # engines run concurrently (each one shards its cases over a few processes)
        from concurrent.futures import ThreadPoolExecutor
        workers = 4 if len(engines) > 1 else 1
        shards = 16 if workers == 1 else 6
        with ThreadPoolExecutor(max_workers=workers) as ex:
            results = list(ex.map(one, engines))
        for eng, corpus, cases, impl, mod, t_impl, t_mod in results:
            shapes = set()
            hist = {}
            mon_hits = []
            nmis = 0
            for line, a, b in zip(cases, impl, mod):
                a, b = eng.canon(a), eng.canon(b)
                if eng.nontrivial(line, a):
                    shapes.add(hashlib.md5(eng.shape(line).encode()).hexdigest())
                for op in eng.split(line)[1]:
                    hist[op[0]] = hist.get(op[0], 0) + 1
                if a != b:
                    nmis += 1
                    if len(mism) < 20:
                        mism.append({"engine": eng, "case": line, "impl": a, "model": b})
                for clause, detail in eng.monitor(line, a):
                    mon_hits.append({"engine": eng, "case": line, "impl": a, "clause": clause, "detail": detail})
            self.cov["evaluations"] += len(cases)
            self.cov["distinct_nontrivial"] += len(shapes)
            self.cov["engines"][eng.name] = {
                "cases": len(cases), "corpus": len(corpus), "mismatches": nmis, "monitor_hits": len(mon_hits),
                "op_histogram": hist, "impl_s": round(t_impl, 2), "model_s": round(t_mod, 2),
                "case_len_max": max(len(eng.split(c)[1]) for c in cases) if cases else 0}
            for c, a in list(zip(cases, impl))[len(corpus):len(corpus) + 2]:
                self.cov["samples"].append({"engine": eng.name, "case": c, "impl_and_model_output": a})
            self.cov["disagreements_checked"] += len(cases)
            self._monitor_hits = getattr(self, "_monitor_hits", []) + mon_hits
        self._impl_exes = impl_exes
        self._models = models
        return mism

    def run_one(self, eng, line):
        a = C.run_lines(self._impl_exes[eng.exe], [line], shards=1, mem_gb=getattr(eng, 'mem_gb', None))[0]
        if getattr(eng, "model_free", False):
            return eng.canon(a), eng.canon(a)
        b = C.run_lines(self._models[eng.exe], [eng.model_input(line, a)], shards=1)[0]
        return eng.canon(a), eng.canon(b)

    def shrink_mismatch(self, rec):
        eng = rec["engine"]
        hdr, ops = eng.split(rec["case"])

        def test(o):
            a, b = self.run_one(eng, eng.join(hdr, o))
            return a != b and "DRIVER" not in a and "DRIVER" not in b

        if len(ops) <= 400:
            ops = ddmin(ops, test)
        line = eng.join(hdr, ops)
        a, b = self.run_one(eng, line)
        return {"engine": eng, "case": line, "impl": a, "model": b}

    def shrink_monitor(self, hit):
        eng = hit["engine"]
        hdr, ops = eng.split(hit["case"])
        clause = hit["clause"]

        def test(o):
            line = eng.join(hdr, o)
            a = eng.canon(C.run_lines(self._impl_exes[eng.exe], [line], shards=1, mem_gb=getattr(eng, 'mem_gb', None))[0])
            return any(c == clause for c, _ in eng.monitor(line, a))

        if len(ops) <= 400:
            ops = ddmin(ops, test)
        line = eng.join(hdr, ops)
        a = eng.canon(C.run_lines(self._impl_exes[eng.exe], [line], shards=1, mem_gb=getattr(eng, 'mem_gb', None))[0])
        det = [d for c, d in eng.monitor(line, a) if c == clause]
        return {"engine": eng, "case": line, "impl": a, "clause": clause, "detail": det[0] if det else hit["detail"]}

    def is_known(self, eng, clause):
        for k in self.known:
            if k.get("engine") == eng.name and k.get("clause") == clause:
                return k
        return None

    # ---- verdict
    def finish(self):
        wall = time.time() - self.t0
        self.cov["rule"] = self.cov["rule"] or (
            "seeded generated cases (VERIF_SEED) + committed corpus, each run on the implementation built from /repo's "
            "working tree and on the OCaml extraction of the Coq model; outputs diffed line by line; "
            "distinct = distinct op-shape hashes among cases with >= 2 ops")
        C.write_evidence(self.prop, self.tier, self.seed, self.cov, self.assumptions, wall, len(self.violations))
        for l in self.known_lines:
            print(l)
        for path, suffix in self.violations:
            print("VIOLATION property=%s replay=%s%s" % (self.prop, path, (" " + suffix) if suffix else ""))
        if self.violations:
            return 1
        print("OK property=%s tier=%s seed=%d obligations=%d evaluations=%d wall=%.1fs" % (
            self.prop, self.tier, self.seed, self.cov["obligations"], self.cov["evaluations"], wall))
        return 0


def standard(prop, tier, seed, engines, assumptions, known_witnesses=None, extra=None):
    """The standard D1-backed check.  known_witnesses: {finding_id: (engine, case_line, clause)}"""
    r = Run(prop, tier, seed)
    r.assumptions = assumptions
    r.static_gate()
    proof_ok = r.proof_gate()
    # witnesses of findings that are no longer listed as known (i.e. fixed) stay in the corpus as
    # regression cases: a fixed entry suppresses nothing
    known_ids = {k["id"] for k in r.known}
    for fid, w in (known_witnesses or {}).items():
        if fid not in known_ids:
            w[0]._extra_corpus = getattr(w[0], "_extra_corpus", [])
            if w[1] not in w[0]._extra_corpus:
                w[0]._extra_corpus.append(w[1])
    mism = r.d1(engines)
    if mism is None:
        return r.finish()
    # monitor clause ids may be prefixed "Cxx:" when one engine serves several properties;
    # a hit belongs to this check iff it has no prefix or this property's prefix
    def mine(clause):
        return ":" not in clause or clause.split(":", 1)[0] == prop
    for e in engines:
        if not getattr(e, "_filtered", False):
            orig = e.monitor
            e.monitor = (lambda orig: lambda line, out: [(c, d) for c, d in orig(line, out) if mine(c)])(orig)
            e._filtered = True
    hits = [h for h in getattr(r, "_monitor_hits", []) if mine(h["clause"])]

    # 1. property monitors on the implementation: concrete failing inputs
    new_hits = {}
    known_seen = {}
    for h in hits:
        k = r.is_known(h["engine"], h["clause"])
        if k:
            known_seen.setdefault(k["id"], h)
        else:
            new_hits.setdefault((h["engine"].name, h["clause"]), h)
    for key, h in new_hits.items():
        s = r.shrink_monitor(h)
        path = C.write_replay(prop, {"kind": "property-monitor", "engine": s["engine"].name, "case": s["case"],
                                     "impl_output": s["impl"], "clause": s["clause"], "detail": s["detail"],
                                     "replay": "echo '%s' | .build/target/release/%s" % (s["case"], s["engine"].exe)})
        r.violations.append((path, ""))

    # 2. correspondence mismatches
    if mism and not new_hits:
        # the model no longer describes the code: search for a concrete property failure near the mismatch
        seen = set()
        for rec in mism[:5]:
            s = r.shrink_mismatch(rec)
            key = (s["engine"].name, s["case"])
            if key in seen:
                continue
            seen.add(key)
            mh = s["engine"].monitor(s["case"], s["impl"])
            mh = [(c, d) for c, d in mh if not r.is_known(s["engine"], c)]
            payload = {"kind": "correspondence", "engine": s["engine"].name, "case": s["case"],
                       "impl_output": s["impl"], "model_output": s["model"],
                       "broken": "D1 correspondence of engine %s (model file coq/%s)" % (s["engine"].name, getattr(s["engine"], "model_file", "?"))}
            if mh:
                payload["clause"], payload["detail"] = mh[0]
                r.violations.append((C.write_replay(prop, payload), ""))
            else:
                r.violations.append((C.write_replay(prop, payload), "no-failing-input-found"))
            break
    # 2b. D3: the synchronisation skeleton of the anchored source files vs the committed baseline
    from . import skeleton
    nfiles, sk = skeleton.compare(prop)
    r.cov["skeleton_files_compared"] = nfiles
    r.cov["skeleton_mismatches"] = len(sk)
    if sk and not r.violations:
        # search the implementation for a failing schedule/input before reporting
        searchers = [e for e in engines if getattr(e, "model_free", False)]
        found = False
        if searchers:
            old_tier = r.tier
            r.tier = "thorough"
            r._monitor_hits = []
            r.d1(searchers[:8])
            r.tier = old_tier
            for h in [h for h in r._monitor_hits if mine(h["clause"])]:
                if not r.is_known(h["engine"], h["clause"]):
                    path = C.write_replay(prop, {"kind": "property-monitor", "engine": h["engine"].name, "case": h["case"],
                                                 "impl_output": h["impl"], "clause": h["clause"], "detail": h["detail"],
                                                 "skeleton_diff": sk[0][1]})
                    r.violations.append((path, ""))
                    found = True
                    break
        if not found:
            path = C.write_replay(prop, {"kind": "correspondence", "broken": "D3 synchronisation skeleton of %s differs from the baseline the models were written against (skeleton/*.skel)" % sk[0][0],
                                         "diff": sk[0][1], "files": [f for f, _ in sk]})
            r.violations.append((path, "no-failing-input-found"))

    # 3. proof failure
    if not proof_ok and not r.violations:
        pf = r.proof_failure
        path = C.write_replay(prop, {"kind": "proof-obligation", "where": pf.get("where"), "log": pf["log"][-3000:]})
        r.violations.append((path, "no-failing-input-found"))

    # 4. known findings: replay each witness on the implementation
    for k in r.known:
        w = (known_witnesses or {}).get(k["id"])
        if not w:
            continue
        eng, line, clause = w
        if eng.exe not in r._impl_exes:
            continue   # engine filtered out (VERIF_ONLY_ENGINES)
        a = eng.canon(C.run_lines(r._impl_exes[eng.exe], [line], shards=1, mem_gb=getattr(eng, 'mem_gb', None))[0])
        if any(c == clause for c, _ in eng.monitor(line, a)):
            r.known_lines.append("KNOWN-FINDING: property=%s id=%s %s" % (prop, k["id"], k["what"]))
            r.cov.setdefault("known_findings_replayed", []).append({"id": k["id"], "witness": line, "impl_output": a})
        else:
            r.cov.setdefault("known_findings_not_reproduced", []).append({"id": k["id"], "witness": line, "impl_output": a})
    if extra:
        extra(r)
    return r.finish()


def generic_replay(prop, engines, path):
    """./check Cxx --replay <file>: re-run the recorded case on the current tree (and on the model)
    and print both outcomes plus the monitor's verdict."""
    import json as _json
    rec = _json.load(open(path))
    print("replay file:", path)
    print("kind:", rec.get("kind"))
    name = rec.get("engine")
    case = rec.get("case")
    if not name or case is None:
        print(_json.dumps(rec, indent=1)[:4000])
        print("(nothing executable recorded: this replay names the proof obligation / correspondence item that no longer checks)")
        return 0
    eng = next((e for e in engines if e.name == name), None)
    if eng is None:
        print("engine %s is not wired for %s" % (name, prop))
        return 2
    exe, err = C.build_harness(eng.crate, eng.exe)
    if exe is None:
        print(err[-3000:])
        return 2
    a = eng.canon(C.run_lines(exe, [case], shards=1)[0])
    print("case:           ", case)
    print("implementation: ", a)
    if not getattr(eng, "model_free", False):
        m = C.build_model(eng.exe)
        b = eng.canon(C.run_lines(m, [eng.model_input(case, a)], shards=1)[0])
        print("model:          ", b)
        print("agree:          ", a == b)
    hits = eng.monitor(case, a)
    print("monitor:        ", hits if hits else "no clause violated")
    if "recorded impl_output" not in rec and rec.get("impl_output"):
        print("recorded impl:  ", rec.get("impl_output"))
    return 0
