"""E-ROUTE D1 engine (property C19): fibre_logging routing / exactly-once / order / shutdown flush,
driven through child processes of harness/seqdrv/src/bin/route.rs (one process-global init each).

The MONITOR below re-implements the property sentence directly (no Coq model, no per-appender
filter tables) and judges the implementation's output line alone."""
import re
from .flow import Engine

TARGETS = ["app", "app::db", "app::db::pool", "app::db::pool::conn", "apple", "apple::x", "ap",
           "app:", "app::", "app:::x", "app::dbx", "other", "other::x", "root", "root::x", "~",
           "::x", "noisy", "noisy::x", "app::x", "a", "a::x", "a::b::x", "aa::x"]
LOGGER_NAMES = ["app", "app::db", "app::db::pool", "apple", "ap", "app:", "app::", "app::dbx",
                "other", "noisy", "~", "a", "a::b", "aa", "other::x"]
FILTERS = ["off", "error", "warn", "info", "debug", "trace"]
LEVELS = ["error", "warn", "info", "debug", "trace"]
RANK = {"off": 0, "error": 1, "warn": 2, "info": 3, "debug": 4, "trace": 5}


def uname(s):
    return "" if s == "~" else s


class Case:
    """a parsed case line (shared by generator helpers and the monitor)"""

    def __init__(self, line):
        t = line.split()
        self.ok = len(t) >= 2 and t[0] == "route" and re.match(r"^(s|d|[xy]\d*)$", t[1]) is not None
        self.mode = t[1] if self.ok else "?"
        self.race = self.ok and self.mode[0] in "xy"    # events after S run concurrently with shutdown
        self.apps = []        # (name, kind, cap, policy)
        self.loggers = []     # (name, level, additive, [apps])
        self.events = []      # (thread, id, target, level, after_shutdown)
        self.ops = []
        i, eid, after = 2, 0, False
        try:
            while self.ok and i < len(t):
                k = t[i]
                if k == "A":
                    self.apps.append((t[i + 1], t[i + 2], int(t[i + 3]), t[i + 4]))
                    self.ops.append(t[i:i + 5])
                    i += 5
                elif k == "L":
                    n = int(t[i + 4])
                    apps = t[i + 5:i + 5 + n]
                    if len(apps) != n:
                        raise ValueError
                    self.loggers.append((uname(t[i + 1]), t[i + 2], t[i + 3] == "1", apps))
                    self.ops.append(t[i:i + 5 + n])
                    i += 5 + n
                elif k == "E":
                    self.events.append((int(t[i + 1]), eid, uname(t[i + 2]), t[i + 3], after))
                    eid += 1
                    self.ops.append(t[i:i + 4])
                    i += 4
                elif k == "S":
                    after = True
                    self.ops.append(["S"])
                    i += 1
                elif k == "D":
                    int(t[i + 1])
                    self.ops.append(t[i:i + 2])
                    i += 2
                else:
                    raise ValueError
        except (ValueError, IndexError):
            self.ok = False

    def valid_config(self):
        names = [a[0] for a in self.apps]
        lnames = [l[0] for l in self.loggers]
        if len(set(names)) != len(names) or len(set(lnames)) != len(lnames):
            return False
        if any(a[2] == 0 for a in self.apps):
            return False
        return all(l[1] in RANK and all(x in names for x in l[3]) for l in self.loggers)


# ---- the property sentence, directly ------------------------------------------------------
def is_module_prefix(logger_name, target):
    return target == logger_name or target.startswith(logger_name + "::")


def most_specific(loggers):
    return max(loggers, key=lambda l: len(l[0])) if loggers else None


def expected_delivery(case, target, level, app):
    """-> (expected: bool, overall_winner or None)"""
    root = next((l for l in case.loggers if l[0] == "root"), None)
    named = [l for l in case.loggers if l[0] != "root" and is_module_prefix(l[0], target)]
    mine = most_specific([l for l in named if app in l[3]])
    if mine is None and root is not None and app in root[3]:
        mine = root
    admits = mine is not None and RANK[level] <= RANK[mine[1]]
    overall = most_specific(named)
    winner = overall if overall is not None else root
    only_own = winner is not None and not winner[2]
    allowed = (not only_own) or (app in winner[3])
    return (admits and allowed), overall


def parse_output(out):
    """'s0: T0=0l,0t T1=- ; s1: ... ; END=disc' -> ({app: {thread: [(id, via)]}}, end, stray)"""
    res, end, stray = {}, None, 0
    stuck_holder = res.setdefault("#stuck", [])
    for part in out.split(" ; "):
        part = part.strip()
        if part.startswith("END="):
            end = part[4:]
            continue
        if part.startswith("STUCK="):
            stuck_holder.append(int(part[6:]))
            continue
        if part.startswith("LATE="):
            stray -= int(part[5:])      # negative: events that surfaced after a stream disconnected
            continue
        m = re.match(r"^(s\d+):(.*)$", part)
        if not m:
            return None, None, 0
        per = {}
        for tok in m.group(2).split():
            if tok.startswith("STRAY="):
                stray += int(tok[6:])
                continue
            mm = re.match(r"^T(\d+)=(.*)$", tok)
            if not mm:
                return None, None, 0
            items = []
            if mm.group(2) != "-":
                for it in mm.group(2).split(","):
                    im = re.match(r"^(\d+)([lt])$", it)
                    if not im:
                        return None, None, 0
                    items.append((int(im.group(1)), im.group(2)))
            per[int(mm.group(1))] = items
        res[m.group(1)] = per
    return res, end, stray


class RouteEngine(Engine):
    model_file = "Log/Route.v"
    exe = "route"
    name = "route"
    per_shard = 10       # children are slow: more driver shards (honoured by flow.d1 where supported)

    def n_cases(self, tier):
        return 150 if tier == "quick" else 3000

    def corpus(self):
        return [
            # F-25: non-additive logger without appenders does not gate
            "route s A s0 c 16 b L root info 1 1 s0 L noisy info 0 0 E 0 noisy::x info",
            # F-25b: additive logger without appenders does not lift a non-additive ancestor's gate
            "route s A s0 c 16 b A s1 c 16 b L root info 1 1 s0 L app info 0 1 s1 L app::db info 1 0 E 0 app::db::pool info",
            # the upstream additivity matrix (init.rs additivity_matrix_pins_dispatch_semantics)
            "route s A s1 c 1 b A s2 c 1 b A s3 f 2 b L root info 1 1 s3 L a debug 0 1 s1 L a::b debug 1 1 s2 "
            "E 0 a::x debug E 0 a::x info E 1 a::b::x info E 1 a::b::x debug E 0 other info E 1 aa::x debug",
            # `apple` is not under `app`; `app:::x` is under both `app` and `app:`
            "route s A s0 c 4 b A s1 c 4 b L root off 1 0 L app trace 1 1 s0 L app: trace 0 1 s1 "
            "E 0 apple info E 0 apple::x info E 0 app:::x info E 0 app::x info E 0 ap info",
            # drop the guard, file appender, event after shutdown
            "route d A s0 f 16 b L root trace 1 1 s0 E 0 other info E 0 app trace S E 0 other error",
            # empty logger name, root off, target named root
            "route s A s0 c 16 b L root off 1 1 s0 L ~ trace 1 1 s0 E 0 ::x info E 0 ~ info E 0 other error E 0 root::x error",
            # one appender named by several loggers, two by one; three threads; capacity 1 blocking
            "route s A s0 c 1 b A s1 f 1 b L root warn 1 2 s0 s1 L app debug 1 2 s0 s1 L app::db error 0 1 s0 "
            "E 0 app::db warn E 1 app::db error E 2 app debug E 0 app::db::pool error E 1 other warn E 2 other info",
            # no root at all (the loader adds root=INFO without appenders)
            "route s A s0 c 8 d L app info 1 1 s0 E 0 app info E 0 other error",
        ]

    def gen(self, rng, tier):
        toks = ["route", rng.weighted([("s", 7), ("d", 3)])]
        napp = rng.weighted([(1, 2), (2, 4), (3, 3), (4, 1)])
        apps = ["s%d" % i for i in range(napp)]
        for a in apps:
            kind = rng.weighted([("c", 3), ("f", 1)])
            if rng.chance(4, 5):
                toks += ["A", a, kind, str(rng.pick([1, 1, 2, 4, 64])), "b"]
            else:
                toks += ["A", a, kind, "256", "d"]     # never fills: <= 60 messages per case

        def subset():
            k = rng.weighted([(0, 3), (1, 10), (2, 6), (3, 1)])
            out = []
            for _ in range(min(k, napp)):
                a = rng.pick(apps)
                if a not in out or rng.chance(1, 10):
                    out.append(a)
            return out

        if rng.chance(17, 20):
            s = subset()
            toks += ["L", "root", rng.pick(FILTERS), "1" if rng.chance(4, 5) else "0", str(len(s))] + s
        family = rng.weighted([(["app", "app::db", "app::db::pool", "apple", "ap", "app:", "app::", "app::dbx"], 6),
                               (["a", "a::b", "aa"], 2), (LOGGER_NAMES, 3)])
        nlog = rng.weighted([(0, 1), (1, 3), (2, 5), (3, 5), (4, 3), (5, 1)])
        names = []
        for _ in range(nlog):
            n = rng.pick(family)
            if n not in names:
                names.append(n)
        for n in names:
            s = subset()
            toks += ["L", n, rng.pick(FILTERS), "1" if rng.chance(13, 20) else "0", str(len(s))] + s
        # targets near the chosen names
        near = [t for t in TARGETS if any(uname(t).startswith(n.rstrip(":")[:2]) for n in names if n != "~")] or TARGETS
        nev = rng.pick([1, 2, 3, 4, 6, 8, 12])
        nth = rng.weighted([(1, 3), (2, 3), (3, 2)])
        spos = rng.below(nev + 1) if rng.chance(3, 20) else -1
        for i in range(nev):
            if i == spos:
                toks += ["S"]
            t = rng.pick(near) if rng.chance(4, 5) else rng.pick(TARGETS)
            toks += ["E", str(rng.below(nth)), t, rng.pick(LEVELS)]
        if spos == nev:
            toks += ["S"]
        return " ".join(toks)

    def split(self, line):
        c = Case(line)
        if not c.ok:
            return line.split()[:2], [[t] for t in line.split()[2:]]
        return ["route", c.mode], c.ops

    def shape(self, line):
        c = Case(line)
        return "%s|%s|%s|%s" % (c.mode, sorted((a[1], a[2], a[3]) for a in c.apps),
                                sorted((l[0], l[1], l[2], len(l[3])) for l in c.loggers),
                                [(e[2], e[3]) for e in c.events])

    def nontrivial(self, line, out):
        c = Case(line)
        return c.ok and len(c.loggers) >= 1 and len(c.events) >= 1 and out.startswith("s")

    def monitor(self, line, out):
        """C19 judged from the implementation's output line only."""
        c = Case(line)
        out = out.strip()
        if not c.ok or out in ("BAD-CASE", "DUP-KEY"):
            return []
        if out == "HANG":
            return [("hang", "child did not finish (emitter, shutdown or stream drain stuck)")]
        if out.startswith("CHILD-FAILED") or out.startswith("DRIVER"):
            return [("child-failed", out)]
        if out == "CONFIG-ERROR":
            return [("config-rejected", "valid configuration rejected")] if c.valid_config() else []
        if not c.valid_config():
            return [("config-accepted", "invalid configuration accepted: " + out)]
        got, end, stray = parse_output(out)
        if got is None:
            return [("bad-output", out)]
        hits = []
        if end != "disc":
            hits.append(("no-disconnect", "a custom stream did not disconnect after shutdown (END=%s)" % end))
        if stray > 0:
            hits.append(("phantom", "%d received message(s) from unknown threads" % stray))
        stuck = sum(got.pop("#stuck", []))
        if stuck:
            hits.append(("emitter-stuck-after-shutdown", "%d emitting thread(s) stayed blocked inside a logging call after "
                         "shutdown/drop returned, until the custom stream receiver was dropped" % stuck))
        if stray < 0:
            hits.append(("late-after-disconnect", "%d event(s) were accepted into a custom stream after it had reported "
                         "Disconnected (lost to a consumer that stops at the disconnect)" % -stray))
        ev_by_id = {e[1]: e for e in c.events}
        for a in c.apps:
            name = a[0]
            per = got.get(name)
            if per is None:
                hits.append(("bad-output", "appender %s missing from output" % name))
                continue
            received = {}
            for th, items in per.items():
                # per emitting thread: emission order (id ascending; log before tracing)
                keys = [(i, 0 if v == "l" else 1) for i, v in items]
                if keys != sorted(keys):
                    hits.append(("order", "%s thread %d received %r, not in emission order" % (name, th, items)))
                for i, v in items:
                    e = ev_by_id.get(i)
                    if e is None or e[0] != th:
                        hits.append(("phantom", "%s received unknown event %d%s on thread %d" % (name, i, v, th)))
                        continue
                    received[(i, v)] = received.get((i, v), 0) + 1
            for (i, v), k in received.items():
                if k != 1:
                    hits.append(("exactly-once", "%s received event %d via %s %d times" % (name, i, v, k)))
            for e in c.events:
                th, i, target, level, after = e
                gl, gt = (i, "l") in received, (i, "t") in received
                if gl != gt and not (after and c.race):
                    hits.append(("log-tracing-differ", "%s: event %d (%s %s) log=%s tracing=%s" % (name, i, target, level, gl, gt)))
                if after and c.race:
                    continue        # judged below: prefix rule
                if after:
                    if gl or gt:
                        hits.append(("post-shutdown-delivery", "%s received event %d emitted after shutdown returned" % (name, i)))
                    continue
                want, overall = expected_delivery(c, target, level, name)
                for v, g in (("l", gl), ("t", gt)):
                    if g == want:
                        continue
                    what = ("not delivered" if want else "delivered") + " to %s: event %d via %s target=%r level=%s" % (
                        name, i, v, target, level)
                    if overall is not None and not overall[3]:
                        # F-25 family: the most specific matching logger names no appender
                        clause = "additive-no-appenders" if overall[2] else "nonadditive-no-appenders"
                    else:
                        clause = "lost-or-misrouted" if want else "misrouted"
                    hits.append((clause, what + " (most specific logger: %r)" % (overall[0] if overall else "root")))
            if c.race:
                # events emitted concurrently with shutdown: per thread, what was delivered must be a
                # PREFIX of what routing selects (FIFO channel, sequential thread, nothing after a
                # failed send) - no gap, no duplicate, no reordering, log before tracing
                threads = sorted(set(e[0] for e in c.events))
                for th in threads:
                    sel = []
                    for e in c.events:
                        if e[0] == th and e[4] and expected_delivery(c, e[2], e[3], name)[0]:
                            sel += [(e[1], "l"), (e[1], "t")]
                    late = [x for x in per.get(th, []) if x[0] in ev_by_id and ev_by_id[x[0]][4]]
                    if late != sel[:len(late)]:
                        hits.append(("shutdown-race-gap", "%s thread %d: events emitted during shutdown delivered as %r, "
                                     "not a prefix of the selected sequence %r" % (name, th, late[:12], sel[:12])))
        return hits

    # ---- race scenarios (monitor only) ---------------------------------------------------
    def gen_race(self, rng):
        """all-wired configuration, a short first phase, then many events racing with shutdown/drop"""
        mode = rng.pick(["x", "y"]) + str(rng.pick([0, 0, 1, 2, 5, 10, 20, 50, 100, 200]))
        toks = ["route", mode]
        napp = rng.weighted([(1, 3), (2, 3), (3, 1)])
        apps = ["s%d" % i for i in range(napp)]
        for a in apps:
            toks += ["A", a, rng.weighted([("f", 3), ("c", 2)]), str(rng.pick([1, 1, 2, 4, 16, 64])), "b"]
        toks += ["L", "root", rng.pick(["info", "debug", "trace"]), "1", "1", rng.pick(apps)]
        for n in rng.pick([[], ["app"], ["app", "app::db"], ["app::db"]]):
            k = rng.pick([1, 1, 2])
            toks += ["L", n, rng.pick(["warn", "info", "trace"]), "1" if rng.chance(2, 3) else "0", str(k)] + [rng.pick(apps) for _ in range(k)]
        tg = ["app", "app::db", "app::db::pool", "other", "apple"]
        nth = rng.pick([1, 2, 3])
        for i in range(rng.pick([0, 2, 6])):
            toks += ["E", str(rng.below(nth)), rng.pick(tg), rng.pick(["error", "warn", "info"])]
        toks += ["S"]
        for i in range(rng.pick([10, 30, 60, 120])):
            toks += ["E", str(rng.below(nth)), rng.pick(tg), rng.pick(["error", "warn", "info"])]
        return " ".join(toks)
