"""E-CHANOPS-spmc D1 engine: the broadcast SPMC channel fibre::spmc (bounded / bounded_async,
clone / close / drop / to_sync / to_async, single + batch + in-place batch forms, futures, Stream).

Case line:   <cap> <s|a> <fx> op*
  sender     ts v | sd v | tsb k v.. | tsm k v.. | sdb k v.. | sdm k v.. | scl | sdr | scv | sob
  receivers  tr r | rv r | rt r | trb r n | rvb r n | cl r | dr r | cn r c | cv r | ob r
  futures    mr f r | mrb f r n | ms f v | msb f k v.. | msm f k v.. | pl f w | df f | pn r w
  misc       snap
`fx` selects the model's post-patch behaviour (docs/spmc.md); the implementation ignores it except
for the harness's would-block guard.  FIXED below is what the generator emits."""
import os

from .flow import Engine

FIXED = int(os.environ.get("VERIF_SPMC_FIXED", "1"))   # set the default to 1 once the proposed patch (docs/spmc.md) is applied to /repo
NW = 4

ARITY = {"ts": 2, "sd": 2, "scl": 1, "sdr": 1, "scv": 1, "sob": 1, "tr": 2, "rv": 2, "rt": 2, "trb": 3,
         "rvb": 3, "cl": 2, "dr": 2, "cn": 3, "cv": 2, "ob": 2, "mr": 3, "mrb": 4, "ms": 3, "pl": 3,
         "df": 2, "pn": 3, "snap": 1}
LISTOPS = {"tsb": 1, "tsm": 1, "sdb": 1, "sdm": 1, "msb": 2, "msm": 2}   # position of the count token


def split_ops(toks):
    ops, i = [], 0
    while i < len(toks):
        t = toks[i]
        if t in LISTOPS:
            p = LISTOPS[t]
            k = int(toks[i + p])
            n = p + 1 + k
        else:
            n = ARITY[t]
        ops.append(toks[i:i + n])
        i += n
    return ops


class Rx:
    def __init__(self, cur, asyn, reg=True, closed=False, taint=False):
        self.cur, self.start, self.reg, self.closed, self.asyn, self.live, self.taint = cur, cur, reg, closed, asyn, True, taint


class Ref:
    """Reference bookkeeping used by the *generator* only (to keep cases mostly valid and to issue
    blocking forms only where they complete).  The monitor below does not use it."""

    def __init__(self, cap, asyn, fx):
        self.cap, self.fx = cap, fx
        self.head = 0
        self.alive, self.closed, self.asyn, self.pdrop = True, False, asyn, False
        self.rx = {0: Rx(0, asyn)}
        self.futs = {}          # id -> [kind, target, payload-list]
        self.fut_used = set()

    def mincur(self):
        cs = [r.cur for r in self.rx.values() if r.reg]
        return min(cs) if cs else None

    def space(self):
        m = self.mincur()
        if m is None:
            return None
        return self.cap - min(self.head - m, self.cap)

    def rx_busy(self, r):
        return any(f[0] in ("mr", "mrb") and f[1] == r for f in self.futs.values())

    def tx_busy(self):
        return any(f[0] in ("ms", "msb", "msm") for f in self.futs.values())

    def inwin(self, t):
        return t < self.head <= t + self.cap

    def recv_n(self, x, n):
        """how many values a batch receive of n on x yields (None = empty/disc)"""
        if self.head <= x.cur:
            return None
        return min(self.head - x.cur, n)

    def send_n(self, k):
        sp = self.space()
        if sp is None or self.closed:
            return 0
        w = min(sp, k)
        self.head += w
        return w

    def unreg(self, x):
        x.reg, x.closed = False, True

    def apply(self, op):
        """update the bookkeeping for op (results are predicted, not observed)"""
        t = op[0]
        if t in ("ts", "sd"):
            if self.alive and not (t == "sd" and self.asyn):
                self.send_n(1)
        elif t in ("tsb", "tsm", "sdb", "sdm"):
            k = int(op[1])
            if self.alive and not (t in ("sdb", "sdm") and self.asyn):
                if t in ("sdb", "sdm") and not self.closed and self.space() is not None and k > self.space():
                    return
                self.send_n(k)
        elif t == "scl":
            if self.alive and not self.tx_busy() and not self.closed:
                self.closed = self.pdrop = True
        elif t == "sdr":
            if self.alive and not self.tx_busy():
                self.alive, self.pdrop, self.closed = False, True, True
        elif t == "scv":
            if self.alive and not self.tx_busy():
                self.asyn = not self.asyn
                if not self.fx:
                    self.closed = False
        elif t in ("tr", "rv", "rt"):
            x = self.rx.get(int(op[1]))
            if x and x.live and not x.closed and not (t != "tr" and x.asyn) and self.inwin(x.cur):
                x.cur += 1
        elif t in ("trb", "rvb"):
            x = self.rx.get(int(op[1]))
            n = int(op[2])
            if x and x.live and not x.closed and n > 0 and not (t == "rvb" and x.asyn):
                k = self.recv_n(x, n)
                if k:
                    x.cur += k
        elif t == "cl":
            x = self.rx.get(int(op[1]))
            if x and x.live and not x.closed:
                self.unreg(x)
        elif t == "dr":
            r = int(op[1])
            x = self.rx.get(r)
            if x and x.live and not self.rx_busy(r):
                if not x.closed:
                    self.unreg(x)
                x.live = False
        elif t == "cn":
            x = self.rx.get(int(op[1]))
            c = int(op[2])
            if x and x.live and c not in self.rx:
                if self.fx and x.closed:
                    self.rx[c] = Rx(x.cur, x.asyn, reg=False, closed=True)
                else:
                    self.rx[c] = Rx(x.cur, x.asyn, taint=x.taint or not x.reg)
        elif t == "cv":
            r = int(op[1])
            x = self.rx.get(r)
            if x and x.live and not self.rx_busy(r):
                x.asyn = not x.asyn
                if not self.fx and x.closed:
                    x.closed, x.taint = False, True
        elif t in ("mr", "mrb"):
            f, r = int(op[1]), int(op[2])
            x = self.rx.get(r)
            if x and x.live and x.asyn and f not in self.fut_used:
                self.futs[f] = [t, r, int(op[3]) if t == "mrb" else 1]
                self.fut_used.add(f)
        elif t in ("ms", "msb", "msm"):
            f = int(op[1])
            if self.alive and self.asyn and f not in self.fut_used:
                self.futs[f] = [t, None, 1 if t == "ms" else int(op[2])]
                self.fut_used.add(f)
        elif t == "pl":
            f = int(op[1])
            fu = self.futs.get(f)
            if not fu:
                return
            if fu[0] in ("mr", "mrb"):
                x = self.rx[fu[1]]
                if x.closed:
                    del self.futs[f]
                elif fu[0] == "mr":
                    if self.inwin(x.cur):
                        x.cur += 1
                        del self.futs[f]
                    elif self.pdrop and x.cur >= self.head:
                        del self.futs[f]
                else:
                    if fu[2] == 0:
                        del self.futs[f]
                    else:
                        k = self.recv_n(x, fu[2])
                        if k:
                            x.cur += k
                            del self.futs[f]
                        elif self.pdrop:
                            del self.futs[f]
            else:
                if self.closed or self.space() is None:
                    del self.futs[f]
                else:
                    w = self.send_n(fu[2])
                    fu[2] -= w
                    if fu[2] == 0:
                        del self.futs[f]
        elif t == "df":
            self.futs.pop(int(op[1]), None)
        elif t == "pn":
            r = int(op[1])
            x = self.rx.get(r)
            if x and x.live and x.asyn and not self.rx_busy(r) and not x.closed and self.inwin(x.cur):
                x.cur += 1


class SpmcEngine(Engine):
    name = "spmc"
    exe = "spmc"
    model_file = "Chan/SpmcOps.v"

    def n_cases(self, tier):
        return 1200 if tier == "quick" else 60000

    # ---------------------------------------------------------------- corpus
    def corpus(self):
        fx = str(FIXED)
        c = [
            "2 s %s ts 1 ts 2 ts 3 tr 0 ts 3 tr 0 tr 0 tr 0 sdr tr 0" % fx,
            "1 s %s cn 0 1 ts 1 ts 2 tr 0 ts 2 tr 1 ts 2 tr 0 tr 1 sob ob 0 ob 1" % fx,
            # capacity 1, many laps, one and two receivers, sync and async (F-10 characterisation)
            "1 s %s " % fx + " ".join("sd %d rv 0" % i for i in range(1, 13)) + " sdr rv 0",
            "1 s %s cn 0 1 " % fx + " ".join("sd %d rv 0 rv 1" % i for i in range(1, 11)) + " sdr rv 0 rv 1",
            "1 a %s cn 0 1 " % fx + " ".join("ms %d %d pl %d 0 mr %d 0 pl %d 1 mr %d 1 pl %d 2" % (i, i, i, 100 + i, 100 + i, 200 + i, 200 + i) for i in range(1, 8)),
            # a clone starts at the parent's position; clone then drop parent
            "3 s %s ts 1 ts 2 tr 0 cn 0 1 dr 0 ts 3 tr 1 tr 1 tr 1 sdr tr 1" % fx,
            # slow receiver closes: backpressure released
            "2 s %s cn 0 1 ts 1 ts 2 tr 0 tr 0 ts 3 cl 1 ts 3 ts 4 ts 5" % fx,
            # async send future pending on a full ring, slowest receiver closes
            "1 a %s cn 0 1 ts 1 tr 0 ms 0 2 pl 0 0 cl 1 pl 0 0 tr 0" % fx,
            # async recv future pending on an empty view, then send
            "2 a %s mr 0 0 pl 0 1 ts 1 pl 0 1 sdr mr 1 0 pl 1 1" % fx,
            # batches around capacity and wrap-around
            "3 s %s tsb 4 1 2 3 4 trb 0 2 tsb 3 4 5 6 trb 0 5 tsm 4 6 7 8 9 trb 0 9 snap" % fx,
            # all receivers gone
            "2 s %s ts 1 cl 0 ts 2 sd 3 tsb 2 4 5 tsm 1 6 sob" % fx,
            # sender close, drain, disconnected
            "4 s %s ts 1 ts 2 scl scl ts 3 tr 0 tr 0 tr 0 rt 0 rv 0 ob 0" % fx,
        ]
        return c

    # ---------------------------------------------------------------- generator
    def gen(self, rng, tier):
        cap = rng.pick([1, 1, 2, 2, 3, 4, 8])
        asyn = rng.chance(1, 2)
        mode = rng.weighted([("basic", 30), ("laps", 15), ("batch", 20), ("async", 25), ("life", 15)])
        clean = rng.chance(9, 10)          # avoid deriving handles from closed handles
        ref = Ref(cap, asyn, FIXED)
        n = rng.pick([3, 6, 10, 16, 24, 40, 70])
        if mode == "laps":
            n = max(n, 6 * cap + 6)
        ops = []
        nextv = [1]
        nextf = [0]
        nextr = [1]

        def val():
            v = nextv[0]
            nextv[0] += 1
            return v

        def vals(k):
            return [str(val()) for _ in range(k)]

        def live_rx():
            return [r for r, x in ref.rx.items() if x.live]

        def some_rx():
            lr = live_rx()
            if lr and not rng.chance(1, 25):
                return rng.pick(lr)
            return rng.below(nextr[0] + 1)

        def emit(op):
            ops.append(op)
            ref.apply(op)

        # a few receivers up front
        for _ in range(rng.pick([0, 0, 1, 1, 2, 3])):
            if nextr[0] < 6:
                emit(["cn", str(rng.pick(live_rx() or [0])), str(nextr[0])])
                nextr[0] += 1
        W = {
            "basic": [("ts", 30), ("tr", 35), ("sd", 6), ("rv", 6), ("rt", 3), ("cn", 4), ("cl", 3), ("dr", 3), ("ob", 3), ("sob", 3), ("tsb", 4), ("trb", 4), ("scl", 1), ("sdr", 1), ("cv", 2), ("scv", 2), ("snap", 1)],
            "laps": [("ts", 40), ("tr", 40), ("sd", 8), ("rv", 8), ("trb", 3), ("cn", 1), ("cl", 1)],
            "batch": [("tsb", 18), ("tsm", 12), ("sdb", 5), ("sdm", 5), ("trb", 25), ("rvb", 6), ("tr", 10), ("ts", 6), ("cn", 3), ("cl", 2), ("dr", 2), ("sob", 3), ("ob", 3), ("snap", 2), ("sdr", 1), ("scl", 1), ("cv", 1), ("scv", 1)],
            "async": [("mr", 12), ("mrb", 5), ("ms", 10), ("msb", 4), ("msm", 4), ("pl", 38), ("df", 6), ("pn", 5), ("ts", 10), ("tr", 12), ("trb", 3), ("cn", 3), ("cl", 3), ("dr", 2), ("cv", 2), ("scv", 2), ("scl", 1), ("sdr", 1), ("tsb", 2)],
            "life": [("cn", 10), ("cl", 12), ("dr", 10), ("cv", 8), ("scv", 6), ("scl", 5), ("sdr", 4), ("ts", 14), ("tr", 14), ("sd", 3), ("rv", 3), ("rt", 3), ("tsb", 3), ("trb", 3), ("tsm", 2), ("ob", 4), ("sob", 4), ("mr", 3), ("ms", 2), ("pl", 6), ("df", 2), ("pn", 2)],
        }[mode]
        for _ in range(n):
            t = rng.weighted(W)
            if t in ("ts",):
                emit([t, str(val())])
            elif t == "sd":
                sp = ref.space()
                if ref.alive and not ref.asyn and not ref.closed and sp == 0:
                    emit(["ts", str(val())])          # would block: use the try form
                else:
                    emit([t, str(val())])
            elif t in ("tsb", "tsm", "msb", "msm", "sdb", "sdm"):
                k = rng.pick([0, 1, 2, cap, cap, cap + 1, max(1, cap - 1), 2 * cap + 1])
                if t in ("sdb", "sdm"):
                    sp = ref.space()
                    if ref.alive and not ref.asyn and not ref.closed and sp is not None and k > sp:
                        t = "tsb" if t == "sdb" else "tsm"
                if t in ("msb", "msm"):
                    emit([t, str(nextf[0]), str(k)] + vals(k))
                    nextf[0] += 1
                else:
                    emit([t, str(k)] + vals(k))
            elif t in ("tr", "rt", "ob", "cl"):
                emit([t, str(some_rx())])
            elif t == "rv":
                r = some_rx()
                x = ref.rx.get(r)
                if x and x.live and not x.asyn and not x.closed and not ref.inwin(x.cur) and not (ref.pdrop and x.cur >= ref.head):
                    emit(["tr", str(r)])              # would block
                else:
                    emit([t, str(r)])
            elif t in ("trb", "rvb"):
                r = some_rx()
                nn = rng.pick([0, 1, 2, cap, cap + 1, 3 * cap])
                x = ref.rx.get(r)
                if t == "rvb" and x and x.live and not x.asyn and not x.closed and nn > 0 and ref.head <= x.cur and not ref.pdrop:
                    t = "trb"
                emit([t, str(r), str(nn)])
            elif t == "dr":
                r = some_rx()
                emit([t, str(r)])
            elif t == "cn":
                r = some_rx()
                x = ref.rx.get(r)
                if clean and x and (x.closed or not x.reg):
                    continue
                if nextr[0] < 7:
                    emit([t, str(r), str(nextr[0])])
                    nextr[0] += 1
            elif t == "cv":
                r = some_rx()
                x = ref.rx.get(r)
                if clean and x and x.closed:
                    continue
                emit([t, str(r)])
            elif t == "scv":
                if clean and ref.closed:
                    continue
                emit([t])
            elif t in ("scl", "sdr", "sob", "snap"):
                emit([t])
            elif t in ("mr", "mrb"):
                r = some_rx()
                if t == "mr":
                    emit([t, str(nextf[0]), str(r)])
                else:
                    emit([t, str(nextf[0]), str(r), str(rng.pick([0, 1, 2, cap, cap + 2]))])
                nextf[0] += 1
            elif t == "ms":
                emit([t, str(nextf[0]), str(val())])
                nextf[0] += 1
            elif t == "pl":
                fs = sorted(ref.futs)
                f = rng.pick(fs) if fs and not rng.chance(1, 20) else rng.below(nextf[0] + 1)
                emit([t, str(f), str(rng.below(NW))])
            elif t == "df":
                fs = sorted(ref.futs)
                f = rng.pick(fs) if fs and not rng.chance(1, 10) else rng.below(nextf[0] + 1)
                emit([t, str(f)])
            elif t == "pn":
                emit([t, str(some_rx()), str(rng.below(NW))])
        # drain phase: often let every receiver read to the end so that the accounting bites
        if rng.chance(2, 3):
            if rng.chance(1, 2):
                emit([rng.pick(["sdr", "scl"])])
            for r in live_rx():
                x = ref.rx[r]
                if ref.rx_busy(r):
                    continue
                for _ in range(min(ref.head - x.cur, cap) + 1 if not x.closed else 1):
                    emit(["tr", str(r)])
        return " ".join([str(cap), "a" if asyn else "s", str(FIXED)] + [t for op in ops for t in op])

    def split(self, line):
        t = line.split()
        return t[:3], split_ops(t[3:])

    def shape(self, line):
        hdr, ops = self.split(line)
        return " ".join(hdr) + "|" + " ".join(op[0] for op in ops)

    # ---------------------------------------------------------------- monitor
    def monitor(self, line, out):
        return monitor(line, out)


# ======================================================================================
# Property monitor: judges C07 / C04 / C06 / C09 clauses from the implementation's outputs only.
def parse_out(out):
    """-> (list of (result tokens, wakes list), final W list or None, final D dict or None, abnormal)"""
    parts = out.split(" | ")
    body = parts[0]
    W = D = None
    for p in parts[1:]:
        if p.startswith("W "):
            W = [int(x) for x in p.split()[1:]]
        elif p.startswith("D "):
            d = p[2:].strip()
            D = {} if d == "-" else {int(a.split(":")[0]): int(a.split(":")[1]) for a in d.split(",")}
    res = []
    for g in body.split(" ; ") if body.strip() else []:
        tk = g.split()
        wk = [int(x[1:]) for x in tk if x.startswith("^")]
        res.append(([x for x in tk if not x.startswith("^")], wk))
    return res, W, D


def idlist(tok):
    return [] if tok == "-" else [int(x) for x in tok.split(",")]


class MRx:
    def __init__(self, cur, asyn, derived=None):
        self.cur = self.start = cur
        self.asyn = asyn
        self.live = True
        self.closed = False        # close() returned Ok on this handle (or on the handle it was converted from)
        self.reg = True            # counts for backpressure in the property's sense: live and not closed
        self.derived = derived     # None | "clone" | "conv": obtained from a closed handle through Clone / to_sync,to_async
        self.disc = False          # observed Disconnected while not closed
        self.got = []


def monitor(line, out):
    toks = line.split()
    cap, asyn, fx = int(toks[0]), toks[1] == "a", toks[2] == "1"
    ops = split_ops(toks[3:])
    res, W, D = parse_out(out)
    hits = []

    def hit(c, d):
        if not any(h[0] == c for h in hits):
            hits.append((c, d))

    log = []                    # accepted ids in order
    rx = {0: MRx(0, asyn)}
    s_alive, s_closed, s_asyn = True, False, asyn
    s_derived = False           # sender handle converted after close() returned Ok
    s_gone = False              # the sender was closed or dropped (first time)
    futs = {}                   # id -> dict(kind, r, vals(list), wait(waker or None), woken(bool), displaced)
    fut_used = set()
    offered = {}                # id -> expected number of drops
    delivered = {}              # id -> number of clones handed out

    def offer(vs):
        for v in vs:
            offered[v] = offered.get(v, 0) + 1

    def accept(vs):
        for v in vs:
            log.append(v)

    def live_cursors():
        return [x.cur for x in rx.values() if x.live and not x.closed and x.reg]

    def check_accept(k, what):
        """k values were accepted: backpressure must have allowed each of them"""
        cs = live_cursors()
        if not cs:
            hit("C04:send-after-last-rx", "%s accepted %d value(s) with no live receiver" % (what, k))
            return
        if len(log) + k - min(cs) > cap:
            hit("C07:overwrite", "%s accepted %d value(s) at head=%d while the slowest live receiver is at %d (cap %d)" % (what, k, len(log), min(cs), cap))

    def space():
        cs = live_cursors()
        if not cs:
            return None
        return max(0, cap - (len(log) - min(cs)))

    def any_derived():
        return any(x.derived and x.live for x in rx.values())

    def dclause(x=None):
        """narrow clause id for anomalies that go back to a handle derived from a closed handle"""
        if x is not None:
            return "C07:clone-of-closed" if x.derived == "clone" else "C04:convert-reopens-receiver"
        if any(y.derived == "clone" and y.live for y in rx.values()):
            return "C07:clone-of-closed"
        return "C04:convert-reopens-receiver"

    def sclause(generic):
        return "C04:convert-reopens-sender" if s_derived else generic

    def deliver(r, x, vs, what):
        for v in vs:
            delivered[v] = delivered.get(v, 0) + 1
            if x.closed:
                hit("C04:closed-handle-accepts", "%s on closed receiver %d returned value %d" % (what, r, v))
            if x.derived == "conv":
                hit("C04:convert-reopens-receiver", "%s on receiver %d, converted after close() returned Ok, returned value %d" % (what, r, v))
            if x.disc:
                hit(sclause("C04:value-after-disc"), "receiver %d got %d after Disconnected" % (r, v))
            if x.cur < len(log) and log[x.cur] == v:
                x.cur += 1
                x.got.append(v)
            else:
                exp = log[x.cur] if x.cur < len(log) else None
                if x.derived:
                    hit(dclause(x), "receiver %d (derived from a closed handle) got %d, next in its view is %r" % (r, v, exp))
                elif v not in log:
                    hit("C07:phantom", "receiver %d got %d which was never accepted" % (r, v))
                else:
                    hit("C07:order", "receiver %d got %d, expected %r (position %d)" % (r, v, exp, x.cur))
                x.cur += 1
        wake_send_ready()

    def on_empty(r, x, what):
        if x.closed:
            hit("C04:closed-handle-accepts", "%s on closed receiver %d returned Empty/Pending, not Disconnected" % (what, r))
            return
        if x.derived == "conv":
            hit("C04:convert-reopens-receiver", "%s on receiver %d, converted after close() returned Ok, is answered as if open" % (what, r))
        elif x.cur < len(log):
            hit(dclause(x) if x.derived else "C07:empty-wrong", "%s on receiver %d says empty at position %d, head %d" % (what, r, x.cur, len(log)))
        elif s_gone and not s_derived:
            hit("C07:disc-missing", "%s on receiver %d says empty although the sender is gone and its view is drained" % (what, r))

    def on_disc(r, x, what):
        if x.closed:
            return
        if not s_gone:
            hit("C07:disc-early", "%s on receiver %d says Disconnected while the sender is alive" % (what, r))
        elif x.cur < len(log):
            hit(dclause(x) if x.derived else "C07:disc-early", "%s on receiver %d says Disconnected at position %d, head %d" % (what, r, x.cur, len(log)))
        x.disc = True

    # ---- C06 bookkeeping
    def recv_ready(x, n=1):
        return x.closed or x.cur < len(log) or s_gone

    def send_ready():
        sp = space()
        return (s_closed and not s_derived) or sp is None or sp > 0

    def wake_send_ready():
        pass

    def note_wakes(wk):
        for f in futs.values():
            if f["wait"] is not None and f["wait"] in wk:
                f["woken"] = True

    def check_c06(after):
        for fid, f in futs.items():
            if f["wait"] is None or f["woken"]:
                continue
            if f["kind"] in ("mr", "mrb"):
                x = rx[f["r"]]
                if x.derived:
                    continue
                if x.closed:
                    hit("C06:rx-close-no-wake", "recv future %d pending on receiver %d: the receiver was closed (%s), waker %d not invoked" % (fid, f["r"], after, f["wait"]))
                elif recv_ready(x):
                    hit("C06:missed-wake", "recv future %d on receiver %d is able to complete after %s, waker %d not invoked" % (fid, f["r"], after, f["wait"]))
            else:
                if send_ready():
                    if f["displaced"]:
                        hit("C06:send-waker-displaced", "send future %d is able to complete after %s; its registration was replaced by another send future's, waker %d not invoked" % (fid, after, f["wait"]))
                    else:
                        hit("C06:missed-wake", "send future %d is able to complete after %s, waker %d not invoked" % (fid, after, f["wait"]))

    def rx_busy(r):
        return any(f["kind"] in ("mr", "mrb") and f["r"] == r for f in futs.values())

    def tx_busy():
        return any(f["kind"] in ("ms", "msb", "msm") for f in futs.values())

    abnormal = False
    for idx, op in enumerate(ops):
        if idx >= len(res):
            break
        o, wk = res[idx]
        t = op[0]
        what = " ".join(op)
        if not o:
            break
        if o[0] in ("PANIC", "HANG", "DRIVER-THREAD-DIED") or o[0].startswith("DRIVER"):
            hit("panic" if o[0] == "PANIC" else "hang", "%s -> %s" % (what, o[0]))
            abnormal = True
            break
        note_wakes(wk)
        if o[0] in ("NA", "BUSY", "WOULDBLOCK"):
            continue
        # ------------------------------------------------ sender
        if t in ("ts", "sd"):
            v = int(op[1])
            offer([v])
            if o[0] == "ok":
                if s_closed:
                    hit(sclause("C04:closed-handle-accepts"), "%s on closed sender accepted" % what)
                check_accept(1, what)
                accept([v])
            elif o[0] == "full":
                sp = space()
                if sp is None:
                    hit("C04:send-after-last-rx", "%s says Full with no live receiver (expected Closed)" % what)
                elif sp > 0 and not s_closed:
                    hit(dclause() if any_derived() else "C07:full-wrong", "%s says Full at head=%d, slowest live receiver at %d, cap %d" % (what, len(log), min(live_cursors()), cap))
                if len(o) < 2 or int(o[1]) != v:
                    hit("C04:value-not-returned", "%s -> %s" % (what, " ".join(o)))
            elif o[0] == "closed":
                if not s_closed and space() is not None:
                    hit("C04:closed-wrong", "%s says Closed with a live receiver and an open sender handle" % what)
                if t == "ts" and (len(o) < 2 or int(o[1]) != v):
                    hit("C04:value-not-returned", "%s -> %s" % (what, " ".join(o)))
        elif t in ("tsb", "tsm", "sdb", "sdm"):
            vs = [int(x) for x in op[2:]]
            offer(vs)
            if o[0] == "bok":
                k, un = int(o[1]), []
            elif o[0] in ("bfull", "bclosed", "berr"):
                k, un = int(o[1]), idlist(o[2])
            elif o[0] == "mok":
                k, un = int(o[1]), idlist(o[2])
            elif o[0] == "mclosed":
                un = idlist(o[1])
                k = len(vs) - len(un)
            else:
                hit("bad-output", "%s -> %s" % (what, " ".join(o)))
                continue
            if vs[:k] + un != vs:
                hit("C07:batch-split", "%s: sent %d + unsent %r is not the input" % (what, k, un))
            if k:
                if s_closed:
                    hit(sclause("C04:closed-handle-accepts"), "%s on closed sender accepted" % what)
                check_accept(k, what)
                accept(vs[:k])
            if un:
                sp = space()
                closedish = o[0] in ("bclosed", "berr", "mclosed")
                if closedish and not s_closed and sp is not None:
                    hit("C04:closed-wrong", "%s says Closed with a live receiver and an open sender handle" % what)
                if not closedish and sp is None and not s_closed:
                    hit("C04:send-after-last-rx", "%s says Full with no live receiver" % what)
                if not closedish and sp is not None and sp > 0 and not s_closed:
                    hit(dclause() if any_derived() else "C07:full-wrong", "%s left %d unsent with space %d" % (what, len(un), sp))
        elif t == "scl":
            if o[0] == "ok":
                if s_closed:
                    hit(sclause("C04:double-close"), "second close of the sender returned Ok")
                s_closed = True
                s_gone = True
            elif o[0] == "cerr" and not s_closed:
                hit("C04:double-close", "first close of the sender returned CloseError")
        elif t == "sdr":
            s_alive = False
            s_gone = True
            s_closed = True
        elif t == "scv":
            if s_closed:
                s_derived = True
            s_asyn = not s_asyn
        elif t == "sob":
            ln, e, f, c = int(o[1]), o[2] == "1", o[3] == "1", o[4] == "1"
            sp = space()
            if not any_derived():
                want = 0 if sp is None else cap - sp
                if ln != want or e != (want == 0) or f != (want == cap) or c != (sp is None) or int(o[5]) != cap:
                    hit("C07:observer", "%s -> %s, expected len %d closed %s" % (what, " ".join(o), want, sp is None))
        # ------------------------------------------------ receivers
        elif t in ("tr", "rv", "rt", "trb", "rvb", "pn"):
            r = int(op[1])
            x = rx.get(r)
            if x is None or not x.live:
                hit("bad-output", "%s on a dead handle -> %s" % (what, " ".join(o)))
                continue
            if t == "pn":
                if o[0] == "pending":
                    on_empty(r, x, what)
                    continue
                o = o[1:]
                if o[0] == "none":
                    o = ["disc"]
            if o[0] == "v":
                deliver(r, x, [int(o[1])], what)
            elif o[0] == "vs":
                vs = idlist(o[1])
                n = int(op[2])
                if len(vs) > n or (n > 0 and not vs):
                    hit("C07:batch-size", "%s -> %d values" % (what, len(vs)))
                deliver(r, x, vs, what)
                if vs and not x.derived and len(vs) < n and x.cur < len(log):
                    hit("C07:batch-short", "%s returned %d values with more available" % (what, len(vs)))
            elif o[0] in ("empty", "timeout"):
                on_empty(r, x, what)
            elif o[0] == "disc":
                on_disc(r, x, what)
        elif t == "cl":
            x = rx.get(int(op[1]))
            if o[0] == "ok":
                if x.closed:
                    hit("C04:double-close", "second close of receiver %s returned Ok" % op[1])
                if x.derived == "conv":
                    hit("C04:convert-reopens-receiver", "close of receiver %s returned Ok a second time (converted after the first)" % op[1])
                x.closed = True
            elif o[0] == "cerr" and not x.closed:
                hit("C04:double-close", "first close of receiver %s returned CloseError" % op[1])
        elif t == "dr":
            x = rx.get(int(op[1]))
            x.live = False
        elif t == "cn":
            p = rx.get(int(op[1]))
            c = MRx(p.cur, p.asyn, derived=p.derived or ("clone" if p.closed else None))
            if fx and p.closed:
                c.closed = True
                c.reg = False
                c.derived = p.derived
            rx[int(op[2])] = c
        elif t == "cv":
            x = rx.get(int(op[1]))
            x.asyn = not x.asyn
            if x.closed and not fx:
                x.derived = "conv"
                x.closed = False
                x.reg = False          # its cursor no longer holds the sender back, by its own close
        elif t == "ob":
            x = rx.get(int(op[1]))
            if not x.derived:
                want = max(0, len(log) - x.cur)
                ln, e, f, c = int(o[1]), o[2] == "1", o[3] == "1", o[4] == "1"
                if ln != want or e != (want == 0) or f != (want == cap) or int(o[5]) != cap:
                    hit("C07:observer", "%s -> %s, expected len %d" % (what, " ".join(o), want))
                if c != (s_gone and want == 0) and not s_derived:
                    hit("C07:observer", "%s -> is_closed %s, sender gone %s, view len %d" % (what, c, s_gone, want))
        # ------------------------------------------------ futures
        elif t in ("mr", "mrb"):
            futs[int(op[1])] = {"kind": t, "r": int(op[2]), "n": int(op[3]) if t == "mrb" else 1, "wait": None, "woken": False, "displaced": False}
        elif t == "ms":
            offer([int(op[2])])
            futs[int(op[1])] = {"kind": t, "vals": [int(op[2])], "wait": None, "woken": False, "displaced": False}
        elif t in ("msb", "msm"):
            vs = [int(x) for x in op[3:]]
            offer(vs)
            futs[int(op[1])] = {"kind": t, "vals": vs, "sent": 0, "wait": None, "woken": False, "displaced": False}
        elif t == "df":
            futs.pop(int(op[1]), None)
        elif t == "pl":
            fid = int(op[1])
            f = futs.get(fid)
            if f is None:
                hit("bad-output", "%s on a dead future -> %s" % (what, " ".join(o)))
                continue
            w = int(op[2]) % NW
            if f["kind"] in ("mr", "mrb"):
                r = f["r"]
                x = rx[r]
                if o[0] == "pending":
                    on_empty(r, x, what)
                    f["wait"], f["woken"], f["displaced"] = w, False, False
                else:
                    del futs[fid]
                    if o[1] == "v":
                        deliver(r, x, [int(o[2])], what)
                    elif o[1] == "vs":
                        vs = idlist(o[2])
                        if len(vs) > f["n"] or (f["n"] > 0 and not vs):
                            hit("C07:batch-size", "%s -> %d values" % (what, len(vs)))
                        deliver(r, x, vs, what)
                    elif o[1] == "disc":
                        on_disc(r, x, what)
            else:
                vs = f["vals"]
                if o[0] == "pending":
                    # a batch future may have written a prefix before going to sleep; how many is not
                    # visible from this output, only from what receivers see next: take the space there was
                    if f["kind"] != "ms":
                        sp = space()
                        k = min(sp or 0, len(vs)) if (not s_closed or s_derived) else 0
                        if k:
                            if s_closed:
                                hit(sclause("C04:closed-handle-accepts"), "%s on closed sender accepted" % what)
                            check_accept(k, what)
                            accept(vs[:k])
                            f["vals"] = vs[k:]
                            f["sent"] += k
                    elif send_ready():
                        hit("C06:pending-but-ready", "%s pending although the send can complete" % what)
                    for g in futs.values():
                        if g is not f and g["kind"] in ("ms", "msb", "msm") and g["wait"] is not None and g["wait"] != w:
                            g["displaced"] = True
                    f["wait"], f["woken"], f["displaced"] = w, False, False
                else:
                    del futs[fid]
                    body = o[1:]
                    if body[0] == "ok":
                        if s_closed:
                            hit(sclause("C04:closed-handle-accepts"), "%s on closed sender accepted" % what)
                        check_accept(1, what)
                        accept(vs)
                    elif body[0] == "closed":
                        if not s_closed and space() is not None:
                            hit("C04:closed-wrong", "%s says Closed with a live receiver and an open sender handle" % what)
                    elif body[0] in ("bok", "berr", "mok", "mclosed"):
                        if body[0] == "bok":
                            k = int(body[1]) - f["sent"]
                            un = []
                        elif body[0] == "berr":
                            k = int(body[1]) - f["sent"]
                            un = idlist(body[2])
                        elif body[0] == "mok":
                            k = int(body[1]) - f["sent"]
                            un = idlist(body[2])
                        else:
                            un = idlist(body[1])
                            k = len(vs) - len(un)
                        if vs[:k] + un != vs:
                            hit("C07:batch-split", "%s: sent %d + unsent %r is not the rest of the input %r" % (what, k, un, vs))
                        if k > 0:
                            check_accept(k, what)
                            accept(vs[:k])
                        if un and body[0] != "bok" and not s_closed and space() is not None:
                            hit("C04:closed-wrong", "%s says Closed with a live receiver and an open sender handle" % what)
        check_c06(what)

    # ---------------------------------------------------- C09: drop accounting after the teardown
    if D is not None and not abnormal and len(res) >= len(ops):
        acc = set(log)
        for v in offered:
            want = offered[v] + delivered.get(v, 0)
            got = D.get(v, 0)
            if got > want:
                hit("C09:double-drop", "id %d dropped %d times, expected %d (%s, %d clones handed out)" % (v, got, want, "accepted" if v in acc else "not accepted", delivered.get(v, 0)))
            elif got < want:
                hit("C09:leak", "id %d dropped %d times, expected %d (%s, %d clones handed out)" % (v, got, want, "accepted" if v in acc else "not accepted", delivered.get(v, 0)))
        for v in D:
            if v not in offered:
                hit("C09:double-drop", "id %d dropped but never offered" % v)
    return hits


_ENG = SpmcEngine()
_INFO = {"name": "E-CHANOPS-spmc",
         "path": "coq/Chan/SpmcOps.v, coq/Proofs/SpmcOpsProofs.v, ocaml/eng_spmc.ml, harness/seqdrv/src/bin/spmc.rs, vlib/engines_spmc.py",
         "kind": "K2 op-level model of fibre::spmc (broadcast ring): every public call / poll / drop is one atomic step; theorems by induction over all op histories; D1 differential tie through the public API"}
_ASSUME = [
    "spmc K2: sequential histories only (one API call, poll or future drop at a time); the interleavings of try_send_internal's cursor scan, the left-right cursor list and the producer park handshake are E-SPMC (K3), not this engine",
    "spmc K2: head/cursors are unbounded N (fewer than 2^63 sends); slot contents are derived from head (slot i mod cap holds the last index congruent to i below head), validated by D1 on every run",
    "spmc K2: blocking sync forms are exercised only where they return without parking (the harness refuses with WOULDBLOCK otherwise, as the model does)",
]

WIT_CLONE_CLOSED = "1 s %d cn 0 1 cl 0 ts 1 tr 1 ts 2 tr 1 cn 0 2 trb 2 5 ts 3 tr 2 sdr tr 2" % FIXED

WIT_RXCLOSE_NOWAKE = "2 a %d mr 0 0 pl 0 1 cl 0 pl 0 1" % FIXED
WIT_SENDWAKER = "1 a %d ts 1 ms 0 2 pl 0 0 ms 1 3 pl 1 1 tr 0 pl 0 0 pl 1 1" % FIXED
WIT_REOPEN_TX = "2 s %d scl tr 0 scv ts 1 tr 0 scl" % FIXED
WIT_REOPEN_RX = "2 s %d cn 0 1 cl 0 cv 0 ts 1 tr 0 cl 0" % FIXED

PROPS = {
    "C07": {"engines": [_ENG], "witness": {"F-spmc-clone-closed": (_ENG, WIT_CLONE_CLOSED, "C07:clone-of-closed")},
            "assumptions": _ASSUME,
            "covers": "spmc broadcast (sync+async handles, single/batch/in-place forms, futures, Stream): per-receiver exact delivery from the creation position, backpressure by the slowest live receiver, release on close/drop, Disconnected only after drain",
            "engine_info": _INFO},
    "C04": {"engines": [_ENG],
            "witness": {"F-spmc-reopen-tx": (_ENG, WIT_REOPEN_TX, "C04:convert-reopens-sender"),
                        "F-spmc-reopen-rx": (_ENG, WIT_REOPEN_RX, "C04:convert-reopens-receiver")},
            "assumptions": _ASSUME,
            "covers": "spmc broadcast: drain-then-Disconnected for every receive form, Disconnected final, Closed with the values handed back after the last receiver, clone isolation, closed handles reject, close idempotent (K2, all histories; full statements for the patched model, `_except_` for the current code)",
            "engine_info": _INFO},
    "C06": {"engines": [_ENG],
            "witness": {"F-spmc-rxclose-nowake": (_ENG, WIT_RXCLOSE_NOWAKE, "C06:rx-close-no-wake"),
                        "F-spmc-sendwaker": (_ENG, WIT_SENDWAKER, "C06:send-waker-displaced")},
            "assumptions": _ASSUME,
            "covers": "spmc broadcast futures (RecvFuture, RecvBatchFuture, SendFuture, SendBatchFuture, SendBatchMutFuture; Stream polls are tied but carry no wake obligation): wake invariant after every history, cancellation harmless (K2); two recorded exceptions",
            "engine_info": _INFO},
    "C09": {"engines": [_ENG], "witness": {}, "assumptions": _ASSUME + [
                "spmc C09: T: Clone — a receive hands out a clone (dropped by the caller: the harness drops it at once), the original stays in its slot until the slot is overwritten one lap later or the last handle goes; the harness's per-id drop counters are diffed against the model's drop log mid-case (snap) and after teardown"],
            "covers": "spmc broadcast: conservation of payload instances and clones at every point of every history, exactly-once drop after any teardown order, overwrite drops the previous lap's original (K2)",
            "engine_info": _INFO},
}
