"""E-LOCK (K3) check for C10: fibre::sync::HybridMutex / HybridRwLock.

Two-pass tie (docs/K3_GUIDE.md):
  pass 1  harness/sched/src/bin/lockscen.rs runs scenario programs on the REAL locks under the
          deterministic scheduler (hook H1), many seeded schedules each, with the property monitors
          (guard coexistence, lost update, deadlock = lost wake-up, livelock, panic, try_ blocked);
          with `trace` it prints the atomic-event trace of every run;
  pass 2  ocaml/eng_k3lock.ml replays every trace through the model extracted from
          coq/Sync/HMutex.v (+HRwLock.v): each implementation execution must be a model execution
          (D2), with the same API results;
  D3      vlib/lockskel.py: ordered facade operations + Ordering literals of the modelled functions,
          read from the current source, vs the model's table (`modelrun_k3lock --skeleton`).
"""
import hashlib
import os
import subprocess
import time

from . import common as C
from . import flow
from . import lockskel

KINDS = ("mutex", "rwlock")

MUTEX_OPS = [("l", 5), ("lh", 2), ("tl", 3), ("al", 4), ("ap", 4), ("ad", 2), ("yw", 2), ("ys", 2)]
RW_OPS = [("r", 4), ("w", 4), ("rh", 1), ("wh", 2), ("tr", 2), ("tw", 2), ("ar", 3), ("aw", 3),
          ("apr", 3), ("apw", 3), ("ad", 2), ("yw", 2), ("ys", 2)]

# minimal interesting programs; they run first (and are the mutation witnesses of docs/C10.md)
MUTEX_CORPUS = [
    ("m", "T: l | T: l"),
    ("b", "T: lh | T: l"),                       # sync waiter parks, unlock must wake it
    ("b", "T: lh | T: l | T: l"),
    ("m", "T: lh | T: ap ad | T: al"),           # future cancelled before being woken
    ("m", "T: lh | T: ap yw ad | T: al"),        # future cancelled after WOKEN must forward the wake
    ("m", "T: lh | T: ap yw ad | T: l"),
    ("m", "T: l | T: ap yw ad | T: ap yw ad | T: al"),
    ("m", "T: lh | T: al | T: al"),
    ("m", "T: lh | T: al | T: tl tl tl"),        # woken async waiter loses to a barging try_lock and must be re-armed
    ("r", "T: lh | T: ap yw ap yw ap | T: tl tl tl tl"),
    ("m", "T: l | T: tl tl | T: l"),
    ("m", "T: tl | T: tl tl | T: lh"),
    ("m", "T: lh | T: ap ap ad l | T: al tl"),
    ("b", "T: lh l | T: l lh | T: l"),
    ("m", "T: ap tl ap l | T: al al | T: ap ap ap | T: lh"),
    ("m", "T: ad ap | T: tl ad | T: al"),
]
RW_CORPUS = [
    ("m", "T: r | T: r | T: w"),
    ("b", "T: wh | T: r | T: w"),
    ("b", "T: rh | T: w | T: r r"),              # queued writer gates new readers
    ("m", "T: rh | T: apw yw ad | T: ar"),
    ("m", "T: wh | T: apr yw ad | T: aw"),
    ("m", "T: w | T: apw yw ad | T: w | T: ar"),
    ("r", "T: rh | T: apw ys ad | T: ar"),       # queued writer future dropped un-woken: HAS_QUEUED stays for the reader behind it
    ("r", "T: rh | T: apw ys ad | T: apr yw"),
    ("r", "T: rh | T: apw ys ys ad | T: ar | T: ar"),
    ("m", "T: wh | T: ar | T: ar | T: aw"),
    ("m", "T: tr tw | T: tw tr | T: wh"),
    ("b", "T: wh r | T: w rh | T: r w"),
    ("m", "T: apr tw apw w | T: ar aw | T: apw apr apr | T: wh"),
    ("m", "T: rh | T: tr tr tr | T: w"),
]


class LockScen:
    """scenario generator for one lock kind"""

    def __init__(self, kind):
        self.kind = kind
        self.name = "k3lock." + kind
        self.ops = MUTEX_OPS if kind == "mutex" else RW_OPS
        self.corpus = MUTEX_CORPUS if kind == "mutex" else RW_CORPUS

    def gen(self, rng):
        nthr = rng.weighted([(2, 3), (3, 5), (4, 2)])
        thr = []
        for _ in range(nthr):
            n = rng.weighted([(1, 4), (2, 4), (3, 2), (4, 1)])
            thr.append("T: " + " ".join(rng.weighted(self.ops) for _ in range(n)))
        pol = rng.weighted([("m", 3), ("b", 2), ("r", 1)])
        return pol, " | ".join(thr)

    def line(self, pol, prog, runs, seed, trace=True, extra=""):
        return "%s %d %d %s pol=%s%s | %s" % (self.kind, runs, seed, "trace" if trace else "", pol, extra, prog)


def split_prog(prog):
    """-> list of (thread index, op)"""
    out = []
    for ti, th in enumerate(prog.split("|")):
        for op in th.split()[1:]:
            out.append((ti, op))
    return out


def join_prog(items, nthr):
    th = [[] for _ in range(nthr)]
    for ti, op in items:
        th[ti].append(op)
    return " | ".join("T: " + " ".join(ops) for ops in th if ops)


def parse_fail(out):
    """FAIL <clause> run=<i> seed=<s> :: <detail> :: choices=<..> [|| trace]"""
    head, _, trace = out.partition(" || ")
    parts = head.split(" :: ")
    toks = parts[0].split()
    d = {"clause": toks[1], "run": int(toks[2].split("=")[1]), "seed": int(toks[3].split("=")[1]),
         "detail": parts[1] if len(parts) > 1 else "",
         "choices": parts[2].split("=", 1)[1] if len(parts) > 2 else "", "trace": trace}
    return d


def run(tier, seed, kinds=("mutex",)):
    prop = "C10"
    r = flow.Run(prop, tier, seed)
    r.assumptions = ASSUMPTIONS
    r.static_gate()
    proof_ok = r.proof_gate()
    cov = r.cov
    cov["rule"] = (
        "scenario programs (committed corpus + seeded generated, VERIF_SEED) are run on the real "
        "HybridMutex/HybridRwLock built from the repo's working tree under the deterministic scheduler, "
        "R seeded schedules each (random / bursty-prefix / PCT); evaluations = schedules executed; every "
        "completed schedule's atomic-event trace is replayed through the extracted Coq model "
        "(traces_validated_against_impl = traces accepted); distinct_nontrivial = distinct event traces "
        "(hash of the per-thread event sequence incl. interleaving) that contain at least one park or "
        "list-lock section")
    exe, err = C.build_harness("sched", "lockscen")
    if exe is None:
        path = C.write_replay(prop, {"kind": "harness-build-failed", "crate": "sched", "log": err[-6000:]})
        r.violations.append((path, "no-failing-input-found"))
        return r.finish()
    try:
        model = C.build_model("k3lock")
    except RuntimeError as ex:
        path = C.write_replay(prop, {"kind": "model-build-failed", "log": str(ex)[-6000:]})
        r.violations.append((path, "no-failing-input-found"))
        return r.finish()
    env = dict(C.ENV)
    env["VERIF_REPO"] = C.REPO

    # ---- D3: source skeleton vs model table
    sk = subprocess.run([model], input="--skeleton\n", capture_output=True, text=True).stdout.strip()
    nrows, skel_bad = lockskel.diff(C.REPO, sk, kinds)
    cov["skeleton_rows"] = nrows
    cov["skeleton_mismatches"] = len(skel_bad)

    # ---- pass 1: scenarios on the implementation
    quick = tier == "quick"
    runs_corpus = 30 if quick else 300
    runs_gen = 10 if quick else 60
    n_gen = 30 if quick else 200
    lines, meta = [], []
    for kind in kinds:
        g = LockScen(kind)
        for i, (pol, prog) in enumerate(g.corpus):
            lines.append(g.line(pol, prog, runs_corpus, seed * 7919 + i))
            meta.append((g, pol, prog, runs_corpus, seed * 7919 + i))
        for i in range(n_gen):
            pol, prog = g.gen(C.Rng(seed, g.name, i))
            s = seed * 104729 + 1000 + i
            lines.append(g.line(pol, prog, runs_gen, s))
            meta.append((g, pol, prog, runs_gen, s))
    t1 = time.time()
    outs = C.run_lines(exe, lines, shards=16, env=env, timeout=3000)
    t2 = time.time()
    fails, cases, case_src = [], [], []
    schedules = events = starved = 0
    hist = {}
    for (g, pol, prog, runs, s), line, out in zip(meta, lines, outs):
        for _, op in split_prog(prog):
            hist[op] = hist.get(op, 0) + 1
        if out.startswith("FAIL "):
            f = parse_fail(out)
            f.update({"gen": g, "pol": pol, "prog": prog, "runs": runs, "sseed": s, "line": line})
            fails.append(f)
            schedules += f["run"] + 1
            continue
        if not out.startswith("ok "):
            fails.append({"clause": "C10:harness", "detail": out[:300], "gen": g, "pol": pol, "prog": prog,
                          "runs": runs, "sseed": s, "line": line, "run": 0, "seed": 0, "choices": "", "trace": ""})
            continue
        head, _, body = out.partition(" || ")
        kv = dict(t.split("=") for t in head.split()[1:])
        schedules += int(kv["runs"])
        events += int(kv["events"])
        starved += int(kv.get("pct_starved", 0))
        scen = "%s 1 0 | %s" % (g.kind, prog)
        for tr in body.split(" ## "):
            if tr.strip():
                cases.append(scen + " || " + tr)
                case_src.append(line)
    # ---- pass 2: D2 replay of every trace through the extracted model
    t3 = time.time()
    mouts = C.run_lines(model, cases, shards=16, timeout=3000)
    t4 = time.time()
    rejects, accepted = [], 0
    shapes = set()
    for c, src, o in zip(cases, case_src, mouts):
        if o.startswith("ok "):
            accepted += 1
            body = c.split(" ;; ", 1)[1] if " ;; " in c else ""
            if " park " in body or "wait_queue.locked" in body:
                # the event sequence without the source positions
                shapes.add(hashlib.md5(" ".join(t for t in body.split() if not t.startswith("@")).encode()).hexdigest())
        else:
            if len(rejects) < 10:
                rejects.append({"scenario_line": src, "case": c, "model": o})
            else:
                rejects.append(None)
    cov["evaluations"] = schedules
    cov["schedules"] = schedules
    cov["events"] = events
    cov["traces_validated_against_impl"] = accepted
    cov["disagreements_checked"] = len(cases)
    cov["distinct_nontrivial"] = len(shapes)
    cov["pct_starved_schedules"] = starved
    cov["engines"]["k3lock"] = {
        "scenarios": len(lines), "corpus": sum(len(LockScen(k).corpus) for k in kinds), "schedules": schedules,
        "events": events, "traces_replayed": len(cases), "traces_rejected": len(rejects),
        "monitor_hits": len(fails), "op_histogram": hist, "impl_s": round(t2 - t1, 2), "model_s": round(t4 - t3, 2),
        "kinds": list(kinds)}
    for c in cases[:1] + cases[len(cases) // 2:len(cases) // 2 + 1]:
        cov["samples"].append({"engine": "k3lock", "scenario_and_trace": c[:1500] + (" ..." if len(c) > 1500 else "")})
    for l in lines[len(MUTEX_CORPUS):len(MUTEX_CORPUS) + 2]:
        cov["samples"].append({"engine": "k3lock", "scenario": l})

    def scen_run(g, pol, prog, runs, s, extra=""):
        return C.run_lines(exe, [g.line(pol, prog, runs, s, trace=False, extra=extra)], shards=1, env=env, timeout=600)[0]

    # ---- verdict 1: monitor hits = concrete failing schedules on the real code
    seen = set()
    for f in fails:
        key = (f["gen"].kind, f["clause"])
        if key in seen:
            continue
        seen.add(key)
        g = f["gen"]
        k = r.is_known(type("E", (), {"name": g.name})(), f["clause"])
        if k:
            r.known_lines.append("KNOWN-FINDING: property=%s id=%s %s" % (prop, k["id"], k["what"]))
            continue
        # shrink the program (same runs/seed; the schedule search is re-done for every candidate)
        items = split_prog(f["prog"])
        nthr = len(f["prog"].split("|"))
        best = {"prog": f["prog"], "out": None}

        def test(cand):
            p = join_prog(cand, nthr)
            if not p:
                return False
            o = scen_run(g, f["pol"], p, f["runs"], f["sseed"])
            if o.startswith("FAIL ") and parse_fail(o)["clause"] == f["clause"]:
                best["prog"], best["out"] = p, o
                return True
            return False

        if f["clause"] != "C10:harness" and len(items) <= 40:
            flow.ddmin(items, test)
        ff = parse_fail(best["out"]) if best["out"] else f
        replay_line = "%s 1 0 trace rawseed=%d choices=%s | %s" % (g.kind, ff["seed"], ff["choices"], best["prog"])
        again = C.run_lines(exe, [replay_line], shards=1, env=env, timeout=600)[0]
        payload = {"kind": "scheduler-monitor", "engine": g.name, "clause": f["clause"], "detail": ff["detail"],
                   "scenario": best["prog"], "original_scenario": f["line"], "seed": ff["seed"], "run": ff["run"],
                   "choices": ff["choices"], "replay": "echo '%s' | .build/target/release/lockscen" % replay_line,
                   "replay_reproduces": again.startswith("FAIL " + f["clause"]),
                   "trace": again.partition(" || ")[2][:20000]}
        r.violations.append((C.write_replay(prop, payload), ""))

    # ---- verdict 2: broken correspondence (D2 reject / D3 mismatch) without a monitor hit:
    # the monitors above already searched every scenario; search harder around the broken item
    if (rejects or skel_bad) and not r.violations:
        found = None
        budget = 40 if quick else 400
        for kind in kinds:
            g = LockScen(kind)
            for i, (pol, prog) in enumerate(g.corpus):
                for pol2 in ("b", "r"):
                    o = scen_run(g, pol2, prog, budget * 5, seed * 31 + i)
                    schedules += budget * 5
                    if o.startswith("FAIL "):
                        found = (g, pol2, prog, parse_fail(o))
                        break
                if found:
                    break
            if found:
                break
        cov["evaluations"] = cov["schedules"] = schedules
        broken = []
        if skel_bad:
            broken.append({"item": "D3 source skeleton", "rows": skel_bad[:6]})
        if rejects:
            rj = [x for x in rejects if x][:2]
            broken.append({"item": "D2 trace refinement (coq/Sync model no longer accepts the implementation's traces)",
                           "rejected": len(rejects),
                           "first": [{"scenario": x["scenario_line"], "model_says": x["model"], "trace": x["case"][:6000]} for x in rj]})
        payload = {"kind": "correspondence", "engine": "k3lock", "broken": broken}
        if found:
            g, pol2, prog, ff = found
            replay_line = "%s 1 0 trace rawseed=%d choices=%s | %s" % (g.kind, ff["seed"], ff["choices"], prog)
            payload.update({"clause": ff["clause"], "detail": ff["detail"], "scenario": prog, "seed": ff["seed"],
                            "choices": ff["choices"],
                            "replay": "echo '%s' | .build/target/release/lockscen" % replay_line})
            r.violations.append((C.write_replay(prop, payload), ""))
        else:
            payload["searched"] = "all corpus scenarios x %d extra schedules (bursty + random) with the C10 monitors" % (budget * 5)
            r.violations.append((C.write_replay(prop, payload), "no-failing-input-found"))

    # ---- verdict 3: proof failure
    if not proof_ok and not r.violations:
        pf = r.proof_failure
        path = C.write_replay(prop, {"kind": "proof-obligation", "where": pf.get("where"), "log": pf["log"][-3000:]})
        r.violations.append((path, "no-failing-input-found"))
    return r.finish()


ASSUMPTIONS = [
    "K3 models run under sequential consistency; the Ordering of every modelled access is data in the event and is compared with the source by D2 (trace) and D3 (skeleton) - a weakened Ordering is reported as broken correspondence, its C11 consequences are not modelled",
    "SPIN_YIELDS / POLL_ATTEMPTS are abstracted to 'any finite budget >= 1' (choice ChAgain/ChGo); the constants are not compared",
    "thread::park follows std token semantics (one token; the harness' critical section leaves a token, so spurious returns are exercised); wakers are either sched::block_on's (flag + unpark) or a non-blocking counting waker",
    "a thread never blocks in lock()/lock_async().await while it owns a pending lock future of the same lock, and futures are dropped at the end of the thread (Rust scoping; mem::forget of a WOKEN future is outside the model)",
    "the intrusive list's prev/next pointers are abstracted to a FIFO list of node owners; node memory safety (UnsafeCell, Box::from_raw) is not modelled beyond 'a linked node's owner is alive'",
    "usize reader-count overflow never reached",
]

MANIFEST = {
    "engine": "E-LOCK",
    "engines": [{"name": "E-LOCK", "path": "coq/Sync/HMutex.v, coq/Sync/HRwLock.v, coq/Proofs/HMutex*.v, coq/Proofs/HRw{Base,Guard,Proofs,Queue,Node,Wake,Owed,Live}.v, coq/Props/C10.v, coq/Props/C10_rw.v, ocaml/eng_k3lock.ml, harness/sched/src/bin/lockscen.rs, vlib/engines_k3lock.py, vlib/lockskel.py",
                 "kind": "K3 atomic-step models (one step per traced atomic event) of HybridMutex and HybridRwLock over the wait list; invariants for all thread counts, programs and schedules; D2 trace refinement under the deterministic scheduler + D3 source skeleton"}],
    "technique": "Coq proof (inductive invariant over all schedules of an atomic-step model) + checked tie: every scheduler-controlled execution of the real lock is replayed through the extracted model (D2), Ordering literals / operation order compared with the source (D3), scheduler-side monitors search for a failing schedule",
    "text": "HybridMutex (Props/C10.v), for any number of threads, any programs of lock / try_lock / lock_async (block_on) / poll-once / drop-future calls and every schedule (any spin and poll-attempt budgets): C10_mutex_excl - the LOCKED bit is set iff exactly one thread holds a guard, never two (C10_mutex_critical_section: no two threads in the critical section); C10_try_nonblocking - try_lock is enabled in every state, touches only the state word and returns within two own steps (never parks, yields, spins or takes the list lock); C10_wake_owed / C10_mutex_deadlock_free - no reachable state in which no thread can step has a parked or queued waiter, a held lock or an unfinished thread (safety core of 'acquirers eventually acquire after release' and of 'a dropped future does not lose the wake-up owed to the next waiter'); C10_cancel_forwards_wake - a cancelled future whose node was WOKEN runs wake_next; C10_list_wf - the wait list has no duplicates and every linked node's owner is alive (no dangling node after a drop). HybridRwLock (Props/C10_rw.v), same quantification plus spurious compare_exchange_weak failure: C10_rw_excl - WRITE_LOCKED set implies zero readers, no read guard and exactly one write guard; the reader count equals the number of read guards (readers may coexist, Example); a write guard never coexists with any other guard; C10_writer_gate - every step that creates a read guard replaced a word without WRITE_LOCKED and without WRITER_PENDING, and WRITER_PENDING is up from a queued writer's fetch_or until it is unlinked (C10_writer_gate_up), so no NEW reader acquires while a writer is queued (safety core of 'a queued writer is not starved by a stream of readers'); C10_rw_try_nonblocking; C10_rw_wake_owed / C10_rw_deadlock_free - no reachable state in which no thread can step has a parked or queued reader/writer (sync or block_on), a held lock or an unfinished thread: in particular a linked writer is never left parked with the lock free (safety core of 'acquirers eventually acquire' and of 'a queued writer is not starved'); C10_rw_list_wf - no owner linked twice, the owner of every linked node is alive and of the node's kind (no dangling node after a read/write future drop); C10_rw_wake_in_flight / C10_rw_woken_has_token (the wake-owed invariants: lock free and list non-empty implies a wake_waiters is on its way - incl. the drop of a WOKEN future - or the wake target is awake; a WOKEN parked waiter has its token or its handle is in a wake list still to be fired); C10_rw_cancel_forwards_wake; C10_rw_release_wakes. NOT proved (either lock): 'eventually acquires under fair scheduling' (only the safety core above), bounded waiting/FIFO fairness, anything about weak memory.",
    "design_ref": "DESIGN.md §8 C10, §7 E-LOCK, §5.2-5.3",
    "note": "Trusted: Coq kernel, extraction + OCaml trace driver, hook H1 (traced sync backend) and the baton scheduler, the scenario runner. SC abstraction of the C11 memory model; spin budgets abstracted; list pointers abstracted to a list of owners.",
}
