"""E-CHANOPS-mpmcb D1 engine: fibre::mpmc::{bounded, bounded_async} (channels/src/mpmc_v2/{mod,core,
sync_impl,async_impl}.rs) through the public API; model coq/Chan/MpmcB.v.

Case line:  <cap> <s|a> <fixbits> op*      (see harness/seqdrv/src/bin/mpmcb.rs for the op alphabet)
The monitor below is a *spec-level* oracle (reference FIFO + handle/future bookkeeping); it never looks
at the model.  Clause ids are prefixed with the property they belong to; deviations that are explained
by a recorded defect *trigger* seen earlier in the same case get that defect's own narrow clause id,
everything else keeps the generic (reportable) id."""
import os
from .flow import Engine

# fx03 fx03f fx06 fx07 fx08 fx12 fx33 — which proposed repairs the code under test contains
# (all 0 = /repo as it is today; the lead flips a bit together with the corresponding fix commit)
FIXES = os.environ.get("VERIF_MPMCB_FIXES", "1111111")

AR = {"ts": 2, "tr": 2, "sd": 2, "rv": 2, "rt": 2, "cl": 3, "cs": 2, "dr": 2, "cv": 3, "ob": 2,
      "ms": 3, "mr": 3, "po": 3, "df": 2, "tsb": 3, "tsm": 3, "trb": 3, "trm": 3}

CAPS = [1, 1, 2, 2, 3, 4, 5, 7, 8]


class MpmcbEngine(Engine):
    model_file = "Chan/MpmcB.v"
    exe = "mpmcb"
    name = "mpmcb"

    def __init__(self, bias="mix"):
        self.bias = bias

    def n_cases(self, tier):
        return 1000 if tier == "quick" else 60000

    # ------------------------------------------------------------------ corpus
    def corpus(self):
        F = FIXES
        return [
            "2 a %s mr 10 1 po 10 100 cs 1 ts 0 po 10 100" % F,                                  # seeded C04-1: pending recv future outlives close
            "2 a %s cl 1 2 mr 10 1 po 10 100 cs 1 dr 2 ts 0 ms 11 0 po 11 101" % F,
            # seeded C03-3: more parked receivers than the (non power of two) capacity, then a burst of sends
            "3 a %s cl 1 2 cl 1 3 cl 1 4 mr 10 1 mr 11 2 mr 12 3 mr 13 4 po 10 100 po 11 101 po 12 102 po 13 103 ts 0 ts 0 ts 0 ts 0 ob 0 ts 0" % F,
            "5 a %s cl 1 2 cl 1 3 cl 1 4 cl 1 5 cl 1 6 cl 1 7 mr 10 1 mr 11 2 mr 12 3 mr 13 4 mr 14 5 mr 15 6 mr 16 7 po 10 100 po 11 101 po 12 102 po 13 103 po 14 104 po 15 105 po 16 106 tsb 0 8 ob 0" % F,
            # seeded C06-2: a cancelled, already-notified send future must pass the freed slot on (capacity >= 2)
            "2 a %s ts 0 ts 0 cl 0 2 ms 10 0 ms 11 2 po 10 100 po 11 101 tr 1 df 10 ob 0 po 11 101" % F,
            "3 a %s ts 0 ts 0 ts 0 cl 0 2 ms 10 0 ms 11 2 po 10 100 po 11 101 tr 1 df 10 ob 0 po 11 101 tr 1" % F,
            "2 a %s ts 0 ts 0 cl 0 2 ms 10 0 ms 11 2 po 10 100 po 11 101 tr 1 cs 0 po 10 100 ob 2 po 11 101" % F,
            "2 s %s ts 0 cs 1 rt 1 tr 1" % F,                                                   # F-03
            "2 a %s cs 0 tr 1 ms 10 0 po 10 100 tr 1" % F,                                       # F-03 futures
            "2 a %s ts 0 cs 1 mr 10 1 po 10 100" % F,
            "2 s %s cl 0 2 cs 0 cv 0 3 dr 3 tr 1 ts 2 dr 2" % F,                                 # F-07
            "2 s %s cl 1 2 cs 1 cv 1 3 dr 3 ts 0 dr 2" % F,
            "2 a %s cl 1 2 mr 10 1 mr 11 2 po 10 100 po 11 101 ts 0 po 11 101 df 11 ts 0 po 10 100" % F,   # F-06
            "2 a %s cl 1 2 mr 10 1 mr 11 2 mr 12 2 po 10 100 po 11 101 po 12 102 ts 0 po 11 101 ts 0 ts 0" % F,
            "1 a %s ts 0 cl 0 2 ms 10 0 ms 11 2 po 10 100 po 11 101 tr 1 df 10 ob 0" % F,        # F-12 send side
            "2 a %s cl 1 2 mr 10 1 mr 11 2 po 10 100 po 11 101 ts 0 df 10 ob 0 po 11 101" % F,   # F-12 recv side
            "2 a %s cl 1 2 mr 10 1 mr 11 2 po 10 100 po 11 101 ts 0 cs 0 po 11 101 tr 2" % F,    # F-08
            "2 s %s cs 0 tr 1 cl 0 2 ts 2 tr 1 dr 0 dr 1 dr 2" % F,                              # F-33
            "3 s %s ts 0 ts 0 ts 0 ts 0 tr 1 ts 0 tr 1 tr 1 tr 1 tr 1 ob 1" % F,                 # wrap on a non power of two
            "1 a %s ts 0 ms 5 0 po 5 1 po 5 2 tr 1 po 5 2 tr 1 df 5 dr 0 dr 1" % F,              # re-poll with another waker
            "2 a %s ts 0 ts 0 ms 5 0 po 5 1 dr 1 po 5 1 df 5 dr 0" % F,                          # last receiver closes a parked sender
            "2 a %s ts 0 ts 0 cl 1 2 ms 5 0 ms 6 0 po 5 1 po 6 2 dr 2 po 5 1 po 6 2 tr 1 po 5 1" % F,  # non-last receiver nudges the front sender
            "2 s %s sd 0 sd 0 sd 0 rv 1 rv 1 rv 1 cs 0 rv 1 sd 0" % F,
            "2 s %s ts 0 dr 0 tr 1 tr 1 dr 1" % F,
            "2 a %s ms 5 0 df 5 ms 6 0 po 6 1 df 6 tr 1 dr 0 dr 1" % F,
            "2 s %s tsb 0 3 trb 1 5 tsm 0 0 trm 1 0 trb 1 2 tsm 0 3 trm 1 1 trb 1 9" % F,            # batch forms
            "3 a %s mr 10 1 po 10 7 mr 11 1 po 11 8 tsb 0 5 po 10 7 trm 1 4 cs 0 tsm 0 2 trb 1 1" % F,
            "1 a %s ts 0 ms 10 0 po 10 7 cl 0 2 ms 11 2 po 11 8 trb 1 3 dr 1 tsb 0 2" % F,
        ]

    # ------------------------------------------------------------------ generator
    def gen(self, rng, tier):
        cap = rng.pick(CAPS)
        bias = self.bias if self.bias != "mix" else rng.pick(["flow", "life", "async", "async", "flow"])
        kind = "a" if bias == "async" or rng.chance(1, 2) else "s"
        n = rng.pick([2, 4, 6, 8, 12, 16, 24, 32, 48, 60])
        toks = [str(cap), kind, FIXES]
        # the generator's own cheap belief about which ids exist (never exact, never needed to be)
        H = {0: [True, kind == "a", True], 1: [False, kind == "a", True]}     # tx?, async?, live?
        Fu = {}                                                               # id -> [recv?, live?]
        nh, nf = 2, 10
        malformed = rng.chance(1, 10)
        if kind == "a" and rng.chance(1, 4):
            # scripted prologue: a pending future outlives the close() of the handle it was created from
            # (its waiter entry is still queued), then every form is tried against that state
            if rng.chance(1, 4):
                k = cap + 1 + rng.below(2)
                hs = [1]
                for _ in range(k - 1):
                    toks += ["cl", "1", str(nh)]
                    H[nh] = [False, True, True]
                    hs.append(nh)
                    nh += 1
                for i, h in enumerate(hs):
                    toks += ["mr", str(nf), str(h), "po", str(nf), str(100 + i)]
                    Fu[nf] = [True, True, h]
                    nf += 1
                for _ in range(k):
                    toks += ["ts", "0"]
                toks += ["ob", "0"]
            elif rng.chance(2, 3):
                extra = []
                if rng.chance(1, 3):
                    toks += ["cl", "1", str(nh)]
                    H[nh] = [False, True, True]
                    extra = [nh]
                    nh += 1
                toks += ["mr", str(nf), "1", "po", str(nf), "100"]
                Fu[nf] = [True, True, 1]
                nf += 1
                for h in [1] + extra:
                    toks += ["cs", str(h)]
            else:
                for _ in range(cap):
                    toks += ["ts", "0"]
                toks += ["ms", str(nf), "0", "po", str(nf), "100"]
                Fu[nf] = [False, True, 0]
                nf += 1
                if rng.chance(1, 2):
                    toks += ["cs", "0"]
                else:
                    # two parked senders, one slot freed, the notified future is cancelled
                    toks += ["cl", "0", str(nh), "ms", str(nf), str(nh), "po", str(nf), "101", "tr", "1", "df", str(nf - 1)]
                    H[nh] = [True, True, True]
                    Fu[nf] = [False, True, nh]
                    Fu[nf - 1][1] = False
                    nh += 1
                    nf += 1

        def pick_h(pred):
            c = [h for h, v in H.items() if v[2] and pred(v)]
            if malformed and rng.chance(1, 4):
                return rng.below(nh + 1)
            if not c:
                return None
            return rng.pick(c)

        def pick_f():
            c = [f for f, v in Fu.items() if v[1]]
            if malformed and rng.chance(1, 4):
                return 10 + rng.below(max(1, nf - 9))
            if not c:
                return None
            return rng.pick(c)

        w_flow = {"tsb": 5, "tsm": 4, "trb": 5, "trm": 4, "ts": 30, "tr": 26, "sd": 6, "rv": 6, "rt": 5, "ob": 6, "cl": 4, "cs": 3, "dr": 3, "cv": 2,
                  "ms": 4, "mr": 4, "po": 10, "df": 3}
        w_life = {"tsb": 3, "tsm": 2, "trb": 3, "trm": 2, "ts": 14, "tr": 12, "sd": 4, "rv": 4, "rt": 6, "ob": 6, "cl": 14, "cs": 12, "dr": 10, "cv": 10,
                  "ms": 3, "mr": 3, "po": 6, "df": 2}
        w_async = {"tsb": 4, "tsm": 3, "trb": 4, "trm": 3, "ts": 16, "tr": 14, "sd": 1, "rv": 1, "rt": 1, "ob": 4, "cl": 6, "cs": 4, "dr": 3, "cv": 2,
                   "ms": 10, "mr": 12, "po": 34, "df": 8}
        W = {"flow": w_flow, "life": w_life, "async": w_async}[bias]
        pairs = sorted(W.items())
        for _ in range(n):
            op = rng.weighted(pairs)
            if op in ("ts",):
                h = pick_h(lambda v: v[0])
                if h is not None:
                    toks += [op, str(h)]
            elif op in ("tsb", "tsm"):
                h = pick_h(lambda v: v[0])
                if h is not None:
                    toks += [op, str(h), str(rng.pick([0, 1, 1, 2, 2, 3, cap, cap + 1, cap + 2]))]
            elif op in ("trb", "trm"):
                h = pick_h(lambda v: not v[0])
                if h is not None:
                    toks += [op, str(h), str(rng.pick([0, 1, 1, 2, 2, 3, cap, cap + 1]))]
            elif op == "sd":
                h = pick_h(lambda v: v[0] and not v[1])
                if h is not None:
                    toks += [op, str(h)]
            elif op == "tr":
                h = pick_h(lambda v: not v[0])
                if h is not None:
                    toks += [op, str(h)]
            elif op in ("rv", "rt"):
                h = pick_h(lambda v: not v[0] and not v[1])
                if h is not None:
                    toks += [op, str(h)]
            elif op in ("ob", "cs"):
                h = pick_h(lambda v: True)
                if h is not None:
                    toks += [op, str(h)]
            elif op == "dr":
                h = pick_h(lambda v: True)
                if h is not None:
                    toks += [op, str(h)]
                    if h in H and not any(v[1] and v[2] == h for v in Fu.values()):
                        H[h][2] = False
            elif op == "cl":
                h = pick_h(lambda v: True)
                if h is not None and len(H) < 9:
                    toks += [op, str(h), str(nh)]
                    if h in H and H[h][2]:
                        H[nh] = [H[h][0], H[h][1], True]
                    nh += 1
            elif op == "cv":
                h = pick_h(lambda v: True)
                if h is not None and len(H) < 12:
                    toks += [op, str(h), str(nh)]
                    if h in H and H[h][2] and not any(v[1] and v[2] == h for v in Fu.values()):
                        H[nh] = [H[h][0], not H[h][1], True]
                        H[h][2] = False
                    nh += 1
            elif op == "ms":
                h = pick_h(lambda v: v[0] and v[1])
                if h is not None and len(Fu) < 8:
                    toks += [op, str(nf), str(h)]
                    if h in H and H[h][2] and H[h][0] and H[h][1]:
                        Fu[nf] = [False, True, h]
                    nf += 1
            elif op == "mr":
                h = pick_h(lambda v: (not v[0]) and v[1])
                if h is not None and len(Fu) < 8:
                    toks += [op, str(nf), str(h)]
                    if h in H and H[h][2] and (not H[h][0]) and H[h][1]:
                        Fu[nf] = [True, True, h]
                    nf += 1
            elif op == "po":
                f = pick_f()
                if f is not None:
                    # mostly one waker per future, sometimes a different one (re-poll with another waker)
                    w = 100 + f if rng.chance(5, 6) else 200 + rng.below(3)
                    toks += [op, str(f), str(w)]
            elif op == "df":
                f = pick_f()
                if f is not None:
                    toks += [op, str(f)]
                    if f in Fu:
                        Fu[f][1] = False
        # teardown in a random order (C09: every teardown order): futures first is what borrowck forces
        if rng.chance(7, 10):
            fl = [f for f, v in Fu.items() if v[1]]
            while fl:
                f = fl.pop(rng.below(len(fl)))
                toks += ["df", str(f)]
            hl = [h for h, v in H.items() if v[2]]
            while hl:
                h = hl.pop(rng.below(len(hl)))
                toks += ["dr", str(h)]
        return " ".join(toks)

    def split(self, line):
        t = line.split()
        hdr, ops, i = t[:3], [], 3
        while i < len(t):
            k = AR.get(t[i], 2)
            ops.append(t[i:i + k])
            i += k
        return hdr, ops

    def nontrivial(self, line, out):
        return len(self.split(line)[1]) >= 3

    # ------------------------------------------------------------------ monitor
    def monitor(self, line, out):
        return monitor(self, line, out)


def _parse_group(g):
    t = g.split()
    res, wakes, drops, bad = [], [], [], False
    for x in t:
        if x == "BAD":
            bad = True
        elif len(x) > 1 and x[0] == "w" and x[1:].isdigit():
            wakes.append(int(x[1:]))
        elif len(x) > 1 and x[0] == "d" and x[1:].isdigit() and res and res[0] != "done":
            drops.append(int(x[1:]))
        else:
            res.append(x)
    return res, wakes, drops, bad


def monitor(eng, line, out):
    hdr, ops = eng.split(line)
    cap = int(hdr[0])
    asy = hdr[1] == "a"
    groups = [g.strip() for g in out.split(";")] if out.strip() else []
    hits = []

    def hit(c, d):
        hits.append((c, d))

    Q = []                       # reference FIFO
    accepted, received, handed_back, dropped = set(), set(), set(), set()
    # closed: False / True / None (= derived from a closed handle: either behaviour is acceptable)
    H = {0: dict(tx=True, asy=asy, closed=False, live=True, src=None),
         1: dict(tx=False, asy=asy, closed=False, live=True, src=None)}
    F = {}
    nxt = 0
    trig = set()
    saw_disc = set()
    any_disc = False

    def nopen(tx):
        return sum(1 for v in H.values() if v["live"] and v["tx"] == tx and v["closed"] is False)

    def nunknown(tx):
        return sum(1 for v in H.values() if v["live"] and v["tx"] == tx and v["closed"] is None)

    def count_clause(tx):
        """a count-type deviation on side tx: which finding explains it, if any"""
        if ("conv", tx) in trig:
            return "C04:conv-closed-handle"
        if ("res", tx) in trig:
            return "C04:clone-of-closed-resurrects"
        return "C04:clone-close-affects-other"

    def resolve_open(h, what):
        """a handle derived from a closed one just behaved as an open handle"""
        v = H[h]
        if v["closed"] is None:
            if v["src"] == "cv":
                hit("C04:conv-closed-handle", "handle %d converted from a closed handle %s" % (h, what))
                trig.add(("conv", v["tx"]))
            elif nopen(v["tx"]) == 0:
                hit("C04:clone-of-closed-resurrects",
                    "handle %d cloned from a closed handle %s although no open %s handle existed" % (h, what, "sender" if v["tx"] else "receiver"))
                trig.add(("res", v["tx"]))
            v["closed"] = False

    def got_value(x, h, opname):
        nonlocal Q
        if x in received:
            hit("C01:dup", "%s returned id %d twice" % (opname, x))
        elif x not in accepted:
            hit("C01:phantom", "%s returned id %d that no send form reported as accepted" % (opname, x))
        elif not Q or Q[0] != x:
            hit("C02:order", "%s returned id %d, FIFO head is %r" % (opname, x, Q[:1]))
        if x in dropped or x in handed_back:
            hit("C09:double-drop", "id %d returned by %s was already destroyed/handed back" % (x, opname))
        received.add(x)
        if x in Q:
            Q.remove(x)
        if h is not None:
            if h in saw_disc or any_disc:
                if ("res", True) in trig:
                    hit("C04:clone-of-closed-resurrects", "%s on handle %d returned id %d after Disconnected had been observed" % (opname, h, x))
                elif "closedfut" in trig:
                    hit("C04:closed-handle-future", "%s on handle %d returned id %d after Disconnected (a send future on a closed handle was accepted)" % (opname, h, x))
                elif "fdisc" in trig:
                    hit("C04:future-disc-before-drain", "%s on handle %d returned id %d after a future reported Disconnected" % (opname, h, x))
                elif ("conv", True) in trig:
                    hit("C04:conv-closed-handle", "%s on handle %d returned id %d after Disconnected" % (opname, h, x))
                else:
                    hit("C04:value-after-disc", "%s on handle %d returned id %d after Disconnected had been observed" % (opname, h, x))

    def got_disc(h, opname, by_future=False):
        nonlocal any_disc
        v = H.get(h)
        if v is not None and v["closed"] is True:
            return                         # the handle's own closed flag
        if v is not None and v["closed"] is None:
            # derived from a closed handle: a Disconnected the channel state does not explain means
            # the handle inherited the closed flag
            if (nopen(True) > 0 or Q) and ("conv", True) not in trig and ("res", True) not in trig \
                    and not (by_future and nopen(True) == 0):
                # (a future's Disconnected with ids still buffered and no sender left may also be the
                #  CLOSED-woken shortcut F-08 on an open handle: undecidable from here)
                v["closed"] = True
            return
        if nopen(True) > 0:
            hit(count_clause(True), "%s on handle %d reported Disconnected while %d open sender handle(s) exist" % (opname, h, nopen(True)))
            trig.add(("conv", True)) if ("conv", True) in trig else None
        if Q:
            if by_future:
                hit("C04:future-disc-before-drain", "%s reported Disconnected while ids %r are still buffered" % (opname, Q))
                trig.add("fdisc")
            else:
                hit("C04:disc-before-drain", "%s reported Disconnected while ids %r are still buffered" % (opname, Q))
        saw_disc.add(h)
        any_disc = True

    def send_accepted(x, h, opname):
        accepted.add(x)
        if len(Q) >= cap:
            hit("C03:len-over-cap", "%s accepted id %d while %d of %d slots were used" % (opname, x, len(Q), cap))
        Q.append(x)
        v = H[h]
        if v["closed"] is None:
            resolve_open(h, "accepted a send")
        if nopen(False) == 0 and nunknown(False) == 0:
            hit(count_clause(False) if ("conv", False) in trig else "C04:send-after-last-rx",
                "%s accepted id %d although no open receiver handle exists" % (opname, x))

    def send_closed(h, opname):
        v = H[h]
        if v["closed"] is True:
            return
        if v["closed"] is None:
            # Closed because of the handle's own flag only if the channel still has receivers
            if nopen(False) > 0 and ("conv", False) not in trig and ("res", False) not in trig:
                v["closed"] = True
            return
        if nopen(False) > 0:
            hit(count_clause(False), "%s on open handle %d reported Closed while %d open receiver handle(s) exist" % (opname, h, nopen(False)))

    for idx, op in enumerate(ops):
        if idx >= len(groups):
            break
        res, wakes, drops, bad = _parse_group(groups[idx])
        code = op[0]
        r0 = res[0] if res else ""
        desc = " ".join(op)
        if r0 == "HANG":
            hit("C03:hang", "op %s did not return" % desc)
            break
        if r0.startswith("DRIVER"):
            break
        if bad:
            hit("C06:dangling-waiter", "op %s made the channel write to the state cell of a dropped future" % desc)
        if r0 == "PANIC":
            side = None
            if code in ("cs", "dr") and int(op[1]) in H:
                side = H[int(op[1])]["tx"]
            if side is not None and ("conv", side) in trig:
                hit("C04:conv-closed-handle", "op %s panicked (handle count underflow)" % desc)
            else:
                hit("C04:panic", "op %s panicked" % desc)
        expect_drops = set()

        # ---------------------------------------------------------------- handle validity as the monitor sees it
        def valid(h, pred):
            v = H.get(h)
            return v is not None and v["live"] and pred(v)

        if code in ("ts", "sd"):
            h = int(op[1])
            ok = valid(h, (lambda v: v["tx"]) if code == "ts" else (lambda v: v["tx"] and not v["asy"]))
            if ok and r0 != "WOULDBLOCK":
                x = nxt
                nxt += 1
                v = H[h]
                if r0 == "ok":
                    if v["closed"] is True:
                        hit("C04:closed-handle-accepts", "%s on closed handle %d succeeded" % (code, h))
                    send_accepted(x, h, code)
                elif r0 == "full":
                    if len(res) < 2 or int(res[1]) != x:
                        hit("C01:failed-op-effect", "try_send Full handed back %r, input was %d" % (res[1:], x))
                    handed_back.add(x)
                    if len(Q) < cap and v["closed"] is not True:
                        hit("C03:try-send-wrong", "try_send reported Full with %d of %d slots used" % (len(Q), cap))
                elif r0 == "closed":
                    if code == "ts":
                        if len(res) < 2 or int(res[1]) != x:
                            hit("C01:failed-op-effect", "try_send Closed handed back %r, input was %d" % (res[1:], x))
                        handed_back.add(x)
                    else:
                        expect_drops.add(x)
                    send_closed(h, code)
                elif r0 != "PANIC":
                    hit("C01:bad-output", "%s -> %s" % (desc, " ".join(res)))
            elif ok and r0 == "WOULDBLOCK":
                if len(Q) < cap:
                    hit("C03:try-send-wrong", "blocking send would block with %d of %d slots used" % (len(Q), cap))
        elif code in ("tr", "rv", "rt"):
            h = int(op[1])
            ok = valid(h, (lambda v: not v["tx"]) if code == "tr" else (lambda v: not v["tx"] and not v["asy"]))
            if ok:
                v = H[h]
                if r0 == "v":
                    x = int(res[1])
                    if v["closed"] is True:
                        if code == "rt":
                            hit("C04:closed-handle-recv-timeout", "recv_timeout on closed handle %d returned id %d" % (h, x))
                        else:
                            hit("C04:closed-handle-accepts", "%s on closed handle %d returned id %d" % (code, h, x))
                    if v["closed"] is None:
                        resolve_open(h, "received a value")
                    got_value(x, h, code)
                elif r0 in ("empty", "timeout"):
                    if v["closed"] is True:
                        if code == "rt":
                            hit("C04:closed-handle-recv-timeout", "recv_timeout on closed handle %d reported Timeout" % h)
                        else:
                            hit("C04:closed-handle-accepts", "%s on closed handle %d reported %s" % (code, h, r0))
                    elif Q:
                        hit("C01:failed-op-effect", "%s reported %s while ids %r are buffered" % (code, r0, Q))
                    elif nopen(True) == 0 and nunknown(True) == 0 and v["closed"] is False:
                        hit(count_clause(True) if ("conv", True) in trig else "C04:missing-disc",
                            "%s reported %s although no open sender handle exists" % (code, r0))
                elif r0 == "disc":
                    got_disc(h, code)
                elif r0 == "WOULDBLOCK":
                    if Q:
                        hit("C01:failed-op-effect", "blocking recv would block while ids %r are buffered" % Q)
                elif r0 != "PANIC":
                    hit("C01:bad-output", "%s -> %s" % (desc, " ".join(res)))
        elif code in ("tsb", "tsm"):
            h, n = int(op[1]), int(op[2])
            if valid(h, lambda v: v["tx"]) and r0 in ("ok", "err", "closed"):
                v = H[h]
                ins = list(range(nxt, nxt + n))
                nxt += n
                nums = [int(x) for x in res[1:] if x.lstrip("-").isdigit()]
                if r0 == "ok":
                    sent = nums[0] if nums else 0
                    rest = nums[1:]
                elif r0 == "err":
                    sent = nums[0] if nums else 0
                    rest = nums[1:]
                else:
                    sent, rest = 0, nums
                if ins[:sent] + rest != ins or len(rest) != n - sent:
                    hit("C01:failed-op-effect", "%s: sent %d + unsent %r is not the input %r in order" % (code, sent, rest, ins))
                for x in rest:
                    handed_back.add(x)
                if sent > 0 and v["closed"] is True:
                    hit("C04:closed-handle-accepts", "%s on closed handle %d accepted %d item(s)" % (code, h, sent))
                for x in ins[:sent]:
                    send_accepted(x, h, code)
                why = "closed" if (r0 == "closed" or (r0 == "err" and "closed" in res)) else ("full" if r0 == "err" or (code == "tsm" and rest) else None)
                if why == "closed":
                    send_closed(h, code)
                elif why == "full":
                    if len(Q) < cap and v["closed"] is not True:
                        hit("C03:try-send-wrong", "%s stopped with %d of %d slots used" % (code, len(Q), cap))
        elif code in ("trb", "trm"):
            h, m = int(op[1]), int(op[2])
            if valid(h, lambda v: not v["tx"]):
                v = H[h]
                if r0 in ("v", "n"):
                    xs = [int(x) for x in (res[1:] if r0 == "v" else res[2:])]
                    if m > 0 and v["closed"] is True and xs:
                        hit("C04:closed-handle-accepts", "%s on closed handle %d returned %r" % (code, h, xs))
                    if len(xs) > m:
                        hit("C01:failed-op-effect", "%s returned %d items, max was %d" % (code, len(xs), m))
                    if m > 0 and not xs:
                        hit("C01:bad-output", "%s returned an empty batch" % code)
                    if xs and v["closed"] is None:
                        resolve_open(h, "received a batch")
                    for x in xs:
                        got_value(x, h, code)
                    if m > 0 and xs and len(xs) < m and Q:
                        hit("C01:failed-op-effect", "%s returned %d of max %d items while ids %r stay buffered" % (code, len(xs), m, Q))
                elif r0 == "empty":
                    if v["closed"] is True:
                        hit("C04:closed-handle-accepts", "%s on closed handle %d reported Empty" % (code, h))
                    elif Q:
                        hit("C01:failed-op-effect", "%s reported Empty while ids %r are buffered" % (code, Q))
                    elif nopen(True) == 0 and nunknown(True) == 0 and v["closed"] is False:
                        hit(count_clause(True) if ("conv", True) in trig else "C04:missing-disc",
                            "%s reported Empty although no open sender handle exists" % code)
                elif r0 == "disc":
                    got_disc(h, code)
        elif code == "ob":
            h = int(op[1])
            if valid(h, lambda v: True) and r0 == "o":
                ln, emp, full, cp, clo = [int(x) for x in res[1:6]]
                if ln > cp or ln > cap:
                    hit("C03:len-over-cap", "len() = %d > capacity %d" % (ln, cp))
                if ln != len(Q) or emp != (1 if ln == 0 else 0) or full != (1 if ln == cap else 0) or cp != cap:
                    hit("C03:observer-wrong", "len/is_empty/is_full/capacity = %d/%d/%d/%d, reference len %d cap %d" % (ln, emp, full, cp, len(Q), cap))
                v = H[h]
                if v["tx"]:
                    want = nopen(False) == 0
                    if clo != (1 if want else 0) and nunknown(False) == 0:
                        hit(count_clause(False), "Sender::is_closed() = %d with %d open receiver handle(s)" % (clo, nopen(False)))
                else:
                    if clo == 1 and (nopen(True) > 0 or Q):
                        hit(count_clause(True), "Receiver::is_closed() = 1 with %d open sender handle(s), %d buffered" % (nopen(True), len(Q)))
        elif code == "cl":
            h, h2 = int(op[1]), int(op[2])
            if valid(h, lambda v: True) and r0 == "ok" and h2 not in H:
                v = H[h]
                c = False if v["closed"] is False else None
                if c is None and nopen(v["tx"]) == 0:
                    trig.add(("res", v["tx"]))          # F-33 trigger: clone of a closed handle on a disconnected side
                H[h2] = dict(tx=v["tx"], asy=v["asy"], closed=c, live=True, src="cl")
        elif code == "cv":
            h, h2 = int(op[1]), int(op[2])
            if valid(h, lambda v: True) and r0 == "ok" and h2 not in H:
                v = H[h]
                c = False if v["closed"] is False else None
                if c is None:
                    trig.add(("conv", v["tx"]))         # F-07 trigger: conversion of a closed handle
                H[h2] = dict(tx=v["tx"], asy=not v["asy"], closed=c, live=True, src="cv")
                v["live"] = False
        elif code == "cs":
            h = int(op[1])
            if valid(h, lambda v: True):
                v = H[h]
                if r0 == "ok":
                    if v["closed"] is True:
                        hit("C04:double-close", "second close() on handle %d returned Ok" % h)
                    if v["closed"] is None:
                        resolve_open(h, "was closed successfully")
                    v["closed"] = True
                elif r0 == "closeerr":
                    if v["closed"] is False:
                        hit("C04:double-close", "first close() on handle %d returned CloseError" % h)
                    v["closed"] = True
                elif r0 == "PANIC":
                    v["closed"] = True
        elif code == "dr":
            h = int(op[1])
            if valid(h, lambda v: True) and r0 in ("ok", "PANIC"):
                v = H[h]
                v["live"] = False
                if v["closed"] is None:
                    # unknown whether the count moved; faithful conversions make it move twice
                    if v["src"] == "cv":
                        trig.add(("conv", v["tx"]))
                    v["closed"] = True
                else:
                    v["closed"] = True
                if not any(x["live"] for x in H.values()):
                    expect_drops |= set(Q)
                    Q = []
        elif code in ("ms", "mr"):
            f, h = int(op[1]), int(op[2])
            if r0 == "ok" and f not in F and valid(h, lambda v: v["asy"] and v["tx"] == (code == "ms")):
                item = None
                if code == "ms":
                    item = nxt
                    nxt += 1
                F[f] = dict(recv=code == "mr", h=h, alive=True, state="new", waker=None, woken=False, item=item, sent=False)
        elif code == "po":
            f, w = int(op[1]), int(op[2])
            fu = F.get(f)
            if fu is not None and fu["alive"] and fu["state"] != "ready" and r0 in ("pending", "ready"):
                hv = H.get(fu["h"])
                hclosed = hv is not None and hv["closed"] is True
                hunknown = hv is not None and hv["closed"] is None
                if r0 == "pending":
                    fu["state"], fu["waker"], fu["woken"], fu["amb"] = "pending", w, False, False
                    if hclosed:
                        hit("C04:closed-handle-future", "poll of future %d on closed handle %d stays Pending" % (f, fu["h"]))
                        trig.add("closedfut")
                else:
                    was_pending_unwoken = fu["state"] == "pending" and (not fu["woken"] or fu.get("amb", False))
                    fu["state"] = "ready"
                    r1 = res[1] if len(res) > 1 else ""
                    if fu["recv"]:
                        if r1 == "v":
                            x = int(res[2])
                            if hclosed:
                                hit("C04:closed-handle-future", "recv future %d on closed handle %d returned id %d" % (f, fu["h"], x))
                                trig.add("closedfut")
                            if hunknown:
                                resolve_open(fu["h"], "received a value through a future")
                            if was_pending_unwoken:
                                trig.add("steal")      # F-06 trigger: completed while its waiter entry is queued
                            got_value(x, fu["h"], "poll(recv future)")
                        elif r1 == "disc":
                            if not hclosed:
                                got_disc(fu["h"], "poll(recv future %d)" % f, by_future=True)
                    else:
                        if r1 == "ok":
                            if hclosed:
                                hit("C04:closed-handle-future", "send future %d on closed handle %d completed Ok" % (f, fu["h"]))
                                trig.add("closedfut")
                            fu["sent"] = True
                            send_accepted(fu["item"], fu["h"], "poll(send future)")
                        elif r1 == "closed":
                            if not hclosed:
                                send_closed(fu["h"], "poll(send future %d)" % f)
        elif code == "df":
            f = int(op[1])
            fu = F.get(f)
            if fu is not None and fu["alive"] and r0 in ("ok", "PANIC"):
                if fu["state"] == "pending" and fu["woken"]:
                    trig.add(("wdrop", fu["recv"]))        # F-12 trigger
                fu["alive"] = False
                if not fu["recv"] and not fu["sent"]:
                    expect_drops.add(fu["item"])

        # ---------------------------------------------------------------- drops of this op (C09)
        for d in drops:
            if d in dropped:
                hit("C09:double-drop", "id %d destroyed twice (op %s)" % (d, desc))
            elif d in received or d in handed_back:
                hit("C09:double-drop", "id %d destroyed by the channel after it was returned to the caller (op %s)" % (d, desc))
            elif d not in expect_drops:
                hit("C09:unexpected-drop", "id %d destroyed by op %s" % (d, desc))
                if d in accepted:
                    hit("C01:lost", "id %d was accepted (its send reported success) and then destroyed by op %s without being received" % (d, desc))
            dropped.add(d)
            if d in Q:
                Q.remove(d)
        for d in expect_drops:
            if d not in drops and r0 != "PANIC":
                hit("C09:leak", "id %d should have been destroyed by op %s and was not" % (d, desc))

        # ---------------------------------------------------------------- wakes of this op, then C06
        for w in wakes:
            hitl = [fu for fu in F.values() if fu["alive"] and fu["state"] == "pending" and fu["waker"] == w]
            for fu in hitl:
                fu["woken"] = True
                # one waker shared by several pending futures: which of them the channel woke is unknown
                fu["amb"] = len(hitl) > 1
        for recv in (True, False):
            pend = [fu for fu in F.values() if fu["alive"] and fu["state"] == "pending" and fu["recv"] == recv]
            if not pend or any(fu["woken"] for fu in pend):
                continue
            if recv:
                why = None
                if Q:
                    why = "%d id(s) buffered" % len(Q)
                elif nopen(True) == 0 and nunknown(True) == 0:
                    why = "no open sender handle left"
            else:
                why = None
                if len(Q) < cap:
                    why = "%d of %d slots used" % (len(Q), cap)
                elif nopen(False) == 0 and nunknown(False) == 0:
                    why = "no open receiver handle left"
            if why is None:
                continue
            d = "after op %s: %s future(s) %r pending and none woken although %s" % (
                desc, "recv" if recv else "send", [k for k, fu in F.items() if fu in pend], why)
            if ("wdrop", recv) in trig:
                hit("C06:woken-future-dropped", d)
            elif recv and "steal" in trig:
                hit("C06:stale-waiter-swallows-wake", d)
            elif ("conv", recv) in trig or ("res", recv) in trig or "closedfut" in trig:
                hit("C04:conv-closed-handle" if ("conv", recv) in trig else "C06:missed-wake-after-resurrect", d)
            else:
                hit("C06:missed-wake", d)
            # report once per pending set
            for fu in pend:
                fu["woken"] = True
    # ---------------------------------------------------------------- end of case (C09 / C01 conservation)
    if len(groups) == len(ops) and not any(v["live"] for v in H.values()) and not any(fu["alive"] for fu in F.values()):
        left = [x for x in accepted if x not in received and x not in dropped]
        if left:
            hit("C09:leak", "ids %r accepted, never received, never destroyed after all handles are gone" % sorted(left))
    # de-duplicate, keep first detail per clause
    seen, outl = set(), []
    for c, d in hits:
        if c not in seen:
            seen.add(c)
            outl.append((c, d))
    return outl


ENG = MpmcbEngine()

_INFO = {"name": "E-CHANOPS-mpmcb",
         "path": "coq/Chan/MpmcB.v, coq/Proofs/MpmcBProofs.v, coq/Props/C0x_mpmcb.v, ocaml/eng_mpmcb.ml, harness/seqdrv/src/bin/mpmcb.rs, vlib/engines_mpmcb.py",
         "kind": "K2 op-level model of fibre::mpmc::{bounded,bounded_async} (one API call / one poll / one drop = one step); invariants proved by induction over all op sequences; D1 differential tie through the public API with counting wakers and drop-counting payloads"}

_ASSUME = [
    "mpmcb: sequential histories only (K2); the two sync waiter queues are empty in every sequential history (blocking forms are issued only where they return without parking; recv_timeout uses a zero timeout)",
    "mpmcb: UnsynchronizedRingBuffer is modelled as a list (index arithmetic exercised by D1 incl. non-power-of-two capacities and wrap); HybridMutex sections are atomic steps",
    "mpmcb: the blocking batch forms (send_batch[_mut], recv_batch[_mut]), the four batch futures and Stream::poll_next are not modelled (not generated by D1 either); try_send_batch[_mut] / try_recv_batch[_mut] are",
]

F = FIXES
PROPS = {
    "C01": {"engines": [ENG], "witness": {}, "assumptions": _ASSUME, "engine_info": _INFO,
            "covers": "mpmc bounded (sync+async handles; single-item forms, try batch / in-place batch forms, SendFuture/RecvFuture): conservation, NoDup, failed ops have no effect, sent ++ unsent = input (K2)"},
    "C02": {"engines": [ENG], "witness": {}, "assumptions": _ASSUME, "engine_info": _INFO,
            "covers": "mpmc bounded: accepted = received ++ buffered in order for every history (K2)"},
    "C03": {"engines": [ENG], "witness": {}, "assumptions": _ASSUME, "engine_info": _INFO,
            "covers": "mpmc bounded: len <= cap invariant, try_send exactness (K2)"},
    "C04": {"engines": [ENG], "assumptions": _ASSUME, "engine_info": _INFO,
            "witness": {
                "F-03-mpmcb": (ENG, "2 s %s ts 0 cs 1 rt 1" % F, "C04:closed-handle-recv-timeout"),
                "F-03f-mpmcb": (ENG, "2 a %s cs 0 ms 10 0 po 10 100" % F, "C04:closed-handle-future"),
                "F-07-mpmcb": (ENG, "2 s %s cl 0 2 cs 0 cv 0 3 dr 3 tr 1 ts 2 dr 2" % F, "C04:conv-closed-handle"),
                "F-08-mpmcb": (ENG, "2 a %s cl 1 2 mr 10 1 mr 11 2 po 10 100 po 11 101 ts 0 cs 0 po 11 101 tr 2" % F, "C04:future-disc-before-drain"),
                "F-33-mpmcb": (ENG, "2 s %s cs 0 tr 1 cl 0 2 ts 2 tr 1" % F, "C04:clone-of-closed-resurrects"),
            },
            "covers": "mpmc bounded: disconnect protocol over all clone/close/drop/convert histories; five recorded deviations (F-03, F-03f, F-07, F-08, F-33) each with refuted/except theorem pair and a proved post-fix model (K2)"},
    "C06": {"engines": [ENG], "assumptions": _ASSUME, "engine_info": _INFO,
            "witness": {
                "F-06-mpmcb": (ENG, "2 a %s cl 1 2 mr 10 1 mr 11 2 po 10 100 po 11 101 ts 0 po 11 101 df 11 ts 0" % F, "C06:dangling-waiter"),
                "F-06w-mpmcb": (ENG, "2 a %s cl 1 2 mr 10 1 mr 11 2 mr 12 2 po 10 100 po 11 101 po 12 102 ts 0 po 11 101 po 10 100 ts 0 ts 0" % F, "C06:stale-waiter-swallows-wake"),
                "F-12-mpmcb": (ENG, "1 a %s ts 0 cl 0 2 ms 10 0 ms 11 2 po 10 100 po 11 101 tr 1 df 10" % F, "C06:woken-future-dropped"),
            },
            "covers": "mpmc bounded SendFuture/RecvFuture: wake accounting invariant, no dangling registration, cancellation preserves conservation/order; F-06/F-12 refuted on the faithful model, full theorem for the post-fix model (K2)"},
    "C09": {"engines": [ENG], "witness": {}, "assumptions": _ASSUME, "engine_info": _INFO,
            "covers": "mpmc bounded: every payload id ends Returned or Dropped exactly once for every teardown order (K2)"},
}
