"""E-PIPE tie (property C19, pipeline/shutdown clauses).

Log/Pipeline.v is a hand-written section-level model of the writer loop, the blocking send and
shutdown_impl.  There is no deterministic scheduler for the logging crate, so it is tied by
 (a) this source-skeleton check (D3 style, deliberately dumb): the ordered sequence of channel / flag
     operations of every modelled function is re-read from the CURRENT source and compared with the
     sequence the model's steps were written from; any edit to that sequence fails the check and names
     the model step that went stale;
 (b) the end-to-end D1 scenarios and the shutdown-race scenarios of engines_route.py."""
import os
import re
from . import common as C


def strip_comments(src):
    out = []
    for line in src.split("\n"):
        i = line.find("//")
        out.append(line if i < 0 else line[:i])
    return "\n".join(out)


def fn_body(src, header_re):
    m = re.search(header_re, src)
    if not m:
        return None
    i = src.find("{", m.end())
    if i < 0:
        return None
    depth, j = 0, i
    while j < len(src):
        if src[j] == "{":
            depth += 1
        elif src[j] == "}":
            depth -= 1
            if depth == 0:
                return src[i:j + 1]
        j += 1
    return None


# (file, function header regex, model step the row justifies, ordered markers, {regex: exact count})
SKELETON = [
    ("logging/src/init.rs", r"fn run_byte_appender_writer\s*\(",
     "step_writer WTop/WRecv/WBatch/WFinal/WFlush", [
         r"loop\s*\{", r"shutdown\.load\(Ordering::Relaxed\)", r"break;",
         r"rx\.recv_timeout\(WRITER_RECV_TIMEOUT\)", r"Ok\(bytes\)\s*=>", r"write_one\(",
         r"for _ in 0\.\.WRITER_DRAIN_BATCH_MAX", r"rx\.try_recv\(\)", r"Ok\(bytes\)\s*=>", r"write_one\(",
         r"Err\(_\)\s*=>\s*break", r"Err\(RecvErrorTimeout::Timeout\)\s*=>",
         r"Err\(RecvErrorTimeout::Disconnected\)\s*=>\s*break",
         r"while let Ok\(bytes\) = rx\.try_recv\(\)", r"write_one\(", r"if is_dirty", r"flush\("],
     {r"\brx\.": 3, r"shutdown\.": 1}),
    ("logging/src/init.rs", r"const WRITER_DRAIN_BATCH_MAX\s*:", "batch_max = 256", [], {}),
    ("logging/src/lib.rs", r"fn shutdown_impl\s*\(",
     "step_shut SIdle/SFlagged/SClosed", [
         r"shutdown_signal", r"\.store\(true,", r"self\.processor\.take\(\)", r"processor\.close_channels\(\)",
         r"is_finished\(\)", r"handle\.join\(\)"],
     {r"close_channels\(\)": 1, r"\.store\(": 1}),
    ("logging/src/lib.rs", r"impl Drop for InitResult", "Drop = shutdown_impl", [r"self\.shutdown_impl\("], {}),
    ("logging/src/subscriber/processor.rs", r"fn close_channels\s*\(",
     "step_shut SFlagged (closed := true)", [r"ActorAction::SendBytes\(sender\)", r"sender\.close\(\)"], {}),
    ("logging/src/subscriber/processor.rs", r"fn send_bytes\s*\(",
     "step_emit (OverflowPolicy::Block = blocking send, result ignored)", [
         r"OverflowPolicy::Block\s*=>", r"let _ = sender\.send\(bytes\)", r"OverflowPolicy::DropNewest\s*=>",
         r"sender\.try_send\(bytes\)"], {}),
    ("channels/src/mpsc/bounded_v3/producer.rs", r"fn send_inner\s*\(",
     "step_emit EIdle (closed check) / EChecked (try_send_now; LEmitSpin = retry without the check; LEmit = retry from the check)", [
         r"self\.closed\.load\(Ordering::Relaxed\)\s*\|\|\s*!self\.shared\.receivers_alive\(\)", r"return Err\(item\)",
         r"self\.shared\.try_send_now\(item\)", r"Ok\(\(\)\)\s*=>\s*return Ok\(\(\)\)",
         r"if self\.shared\.cap\(\) <= 4", r"for _ in 0\.\.SYNC_SPIN_LIMIT", r"self\.shared\.try_send_now\(item\)",
         r"loop\s*\{", r"self\.closed\.load\(Ordering::Relaxed\)\s*\|\|\s*!self\.shared\.receivers_alive\(\)",
         r"return Err\(item\)", r"self\.shared\.try_send_now\(item\)", r"return Ok\(\(\)\)", r"park_thread\(\)"], {}),
]


def check():
    """-> (rows checked, list of problems)"""
    problems = []
    rows = 0
    for rel, header, step, markers, counts in SKELETON:
        path = os.path.join(C.REPO, rel)
        try:
            src = strip_comments(open(path).read())
        except OSError:
            problems.append("%s: cannot read (model step: %s)" % (rel, step))
            continue
        if not markers and not counts:
            m = re.search(header + r"\s*usize\s*=\s*(\d+)\s*;", src)
            rows += 1
            if not m or m.group(1) != "256":
                problems.append("%s: WRITER_DRAIN_BATCH_MAX is not 256 (model: %s)" % (rel, step))
            continue
        body = fn_body(src, header)
        if body is None:
            problems.append("%s: function /%s/ not found (model step: %s)" % (rel, header, step))
            continue
        pos = 0
        for mk in markers:
            rows += 1
            m = re.compile(mk).search(body, pos)
            if not m:
                problems.append("%s /%s/: expected `%s` after offset %d - the operation order changed; "
                                "stale model step: %s" % (rel, header, mk, pos, step))
                break
            pos = m.end()
        for rx, n in counts.items():
            rows += 1
            k = len(re.findall(rx, body))
            if k != n:
                problems.append("%s /%s/: %d occurrences of `%s`, the model accounts for %d; stale model step: %s"
                                % (rel, header, k, rx, n, step))
    return rows, problems
