"""D3 — static skeleton of synchronisation operations, regenerated from /repo's CURRENT source on
every run and compared with the committed baseline that the K2/K3 models were written against
(skeleton/*.skel).  For every function: the ordered list of facade operations with their Ordering
literals, lock/park/unpark/fence calls.  An SC replay cannot see a weakened Ordering or a removed
fence; this check can.  Deliberately dumb (regex over brace structure, no Rust parser): any edit to a
modelled function's synchronisation sequence is a broken correspondence (DESIGN §5.3)."""
import os
import re

from . import common as C

OPS = r"(load|store|swap|compare_exchange_weak|compare_exchange|fetch_add|fetch_sub|fetch_or|fetch_and|fetch_max|fetch_min)"
CALL_RE = re.compile(r"([A-Za-z_]\w*)\s*(?:\(\s*\))?\s*\.\s*" + OPS + r"\s*\(")
ORD_RE = re.compile(r"Ordering::(Relaxed|Acquire|Release|AcqRel|SeqCst)")
OTHER_RE = re.compile(
    r"\b(fence\s*\(\s*Ordering::\w+\s*\)|thread::park_timeout|thread::park\b|park_thread_timeout|park_thread\b|"
    r"hint::spin_loop\(\)|thread::yield_now\(\)|adaptive_wait|pre_park_fence\(\)|notify_receivers\(\)|notify_senders\(\))"
    r"|(\.unpark\(\)|\.wake\(\)|\.wake_by_ref\(\)|\.lock\(\)|\.try_lock\(\)|\.register\(|\.unregister\(|\.wake_one\()")
FN_RE = re.compile(r"\bfn\s+(\w+)")


def strip_comments(src):
    out = []
    i, n = 0, len(src)
    while i < n:
        if src.startswith("//", i):
            j = src.find("\n", i)
            i = n if j < 0 else j
        elif src.startswith("/*", i):
            j = src.find("*/", i + 2)
            i = n if j < 0 else j + 2
        elif src[i] == '"':
            j = i + 1
            while j < n and src[j] != '"':
                j += 2 if src[j] == "\\" else 1
            out.append('""')
            i = j + 1
        else:
            out.append(src[i])
            i += 1
    return "".join(out)


def balanced(src, i):
    """src[i] == '(' -> index just after the matching ')'"""
    d = 0
    for j in range(i, len(src)):
        if src[j] == "(":
            d += 1
        elif src[j] == ")":
            d -= 1
            if d == 0:
                return j + 1
    return len(src)


def extract(path):
    """-> list of 'fn <name>: op ; op ; …' lines in source order (functions with no sync op are
    omitted; #[cfg(test)] modules are skipped)"""
    try:
        src = open(path).read()
    except OSError:
        return ["<missing %s>" % path]
    m = re.search(r"#\[cfg\((?:all\()?test", src)
    if m:
        src = src[:m.start()]
    src = strip_comments(src)
    # function bodies
    fns = []
    for fm in FN_RE.finditer(src):
        j = fm.end()
        depth_par = 0
        while j < len(src):
            c = src[j]
            if c == "(":
                depth_par += 1
            elif c == ")":
                depth_par -= 1
            elif c == ";" and depth_par == 0:
                j = -1
                break
            elif c == "{" and depth_par == 0:
                break
            j += 1
        if j < 0 or j >= len(src):
            continue
        d, k = 0, j
        while k < len(src):
            if src[k] == "{":
                d += 1
            elif src[k] == "}":
                d -= 1
                if d == 0:
                    break
            k += 1
        fns.append((fm.group(1), j, k, fm.start()))
    ops = []
    for cm in CALL_RE.finditer(src):
        par = cm.end() - 1
        end = balanced(src, par)
        args = src[par:end]
        ords = ORD_RE.findall(args)
        if not ords:
            continue  # not an atomic access (Vec::swap, HashMap ops, …)
        ops.append((cm.start(), "%s.%s(%s)" % (cm.group(1), cm.group(2), ",".join(ords))))
    for om in OTHER_RE.finditer(src):
        tok = re.sub(r"\s+", "", om.group(0)).strip(".").rstrip("(")
        ops.append((om.start(), tok))
    ops.sort()
    per = {}
    for pos, tok in ops:
        inner = None
        for name, st, en, decl in fns:
            if st <= pos <= en and (inner is None or st > inner[1]):
                inner = (name, st, decl)
        if inner:
            per.setdefault((inner[2], inner[0]), []).append(tok)
    return ["fn %s: %s" % (name, " ; ".join(toks)) for (decl, name), toks in sorted(per.items())]


def files_for(prop):
    """anchor files of a property (properties.jsonl), restricted to channels/ and cache/ sources"""
    import json
    import ast
    for line in open(os.path.join(C.VERIF, "properties.jsonl")):
        p = json.loads(line)
        if p["id"] == prop:
            a = p.get("anchors")
            if isinstance(a, str):
                a = ast.literal_eval(a)
            return [f for f in a.get("files", []) if f.endswith(".rs")]
    return []


def skel_path(relfile):
    return os.path.join(C.VERIF, "skeleton", relfile.replace("/", "__") + ".skel")


def current(relfile):
    return "\n".join(extract(os.path.join(C.REPO, relfile))) + "\n"


def compare(prop):
    """-> list of (file, diff lines) for anchor files whose skeleton differs from the baseline"""
    import difflib
    out = []
    n = 0
    for f in files_for(prop):
        bp = skel_path(f)
        if not os.path.exists(bp):
            continue
        n += 1
        base = open(bp).read()
        cur = current(f)
        if base != cur:
            d = [x for x in difflib.unified_diff(base.split("\n"), cur.split("\n"), "baseline:" + f, "current:" + f, lineterm="", n=0)]
            out.append((f, d[:40]))
    return n, out


def regenerate(files):
    os.makedirs(os.path.join(C.VERIF, "skeleton"), exist_ok=True)
    for f in files:
        with open(skel_path(f), "w") as fh:
            fh.write(current(f))
