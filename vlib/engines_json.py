"""E-JSON / E-PATTERN D1 engines (exe `json`): fibre_logging's JsonLinesFormatter and PatternFormatter
through the public EventFormatter API, against the extracted models Log/Json.v and Log/Pattern.v.

Case line (see harness/seqdrv/src/bin/json.rs):
    json    <flat|nest>             EV OP*
    pattern <full|nopanic> <s:PAT>  EV OP*
    EV = LEVEL ts_millis s:ts_render target name msg span parent tid tname
    OP = f <s:name> <kind> <payload> | d <s:opts> <s:render> -
Output: hex of the bytes returned by format_event | PANIC | ERR   (nopanic mode: OK | PANIC | ERR)

The monitors judge property C20's encoder clauses from the implementation's output and the case
inputs only (Python's json module is the independent JSON reader)."""
import json
import re
import struct
from datetime import datetime, timedelta

from .flow import Engine

LEVELS = ["TRACE", "DEBUG", "INFO", "WARN", "ERROR"]
CORE = ["timestamp", "level", "target", "message", "name", "span_id", "parent_id", "thread_id", "thread_name"]

# the 12 characters whose 2-combinations the corpus enumerates exhaustively
SPECIALS = ['"', "\\", "\n", "\r", "\t", "\x00", "\x1f", "\x7f", "a", "é", "€", "\U0001F600"]

FIELD_NAMES = ["a", "b", "k1", "user id", "", "é", 'q"k', "a\\b", "nl\nk", "fields", "Level",
               "level", "message", "target", "timestamp", "name", "span_id", "parent_id", "thread_id",
               "thread_name"]

# (f64 bits, serde_json text, Rust `{}` Display text); the two texts are opaque inputs of the model,
# the monitor checks the JSON one independently by parsing it back
FLOATS = [
    (0x0000000000000000, "0.0", "0"),
    (0x8000000000000000, "-0.0", "-0"),
    (0x3FF0000000000000, "1.0", "1"),
    (0x3FF8000000000000, "1.5", "1.5"),
    (0xC002000000000000, "-2.25", "-2.25"),
    (0x3FB999999999999A, "0.1", "0.1"),
    (0x4341C37937E08000, "1e+16", "10000000000000000"),
    (0x3E7AD7F29ABCAF48, "1e-7", "0.0000001"),
    (0x40FE240C9FBE76C9, "123456.789", "123456.789"),
    (0x400921FB54442D18, "3.141592653589793", "3.141592653589793"),
    (0x7FF8000000000000, "null", "NaN"),
    (0x7FF0000000000000, "null", "inf"),
    (0xFFF0000000000000, "null", "-inf"),
]

INTS = [0, 1, -1, 7, 42, -300, 1234567890, 2 ** 31, -2 ** 31, 2 ** 63 - 1, -2 ** 63, 10 ** 18, 99, 100]

TIMES = [0, 1, 999, 1000, 1698330605123, 951782400000, 4102444799999, -1, -86400000, 1700000000000, 253402300799999]

# strftime formats on which Python and chrono agree (C locale) — used in `full` mode
DATE_FMTS = ["%Y-%m-%d", "%H:%M:%S", "%Y-%m-%d %H:%M", "%d/%m/%y", "%j", "%H%M", "%b %d", "%a", "%%Y",
             "é%Y", "T%H", "%Y%m%dT%H%M%SZ", "plain"]
# arbitrary / invalid strftime text — `nopanic` mode only
DATE_JUNK = ["%Q", "%", "%.3f", "%+", "%:z", "%N", "%-", "%5", "%Y%", "%E", "%O", "%!", "%3f", "%s", "%v", "%c %x %X"]

CONVERTERS = ["d", "p", "l", "t", "m", "T", "n", "X"]
PADS = ["0", "1", "2", "3", "5", "8", "10", "20", "64", "300", "-0", "-1", "-3", "-8", "-20", "-300", "007", "-007"]
BIG_PADS = ["65535", "-65535", "65536", "-65536", "70000", "2147483647", "-2147483648"]
OVERFLOW_PADS = ["2147483648", "-2147483649", "99999999999", "-99999999999999999999"]
MALFORMED = ["%", "%{", "%-", "%5", "%%", "%-%", "%5%m", "%m{", "%m{}", "%m{a", "%d{}", "%X{}", "%-m", "%--5m",
             "%5-m", "%05m", "%-0m", "%%%", "%%m", "%%%m", "% m", "%5 m", "%-5", "%5{a}", "%{a}m", "%m{a}{b}",
             "%m{a{b}c}", "%m}", "%X{a", "%X{}}", "%d{%Y", "%1", "%é", "%5é", "%-é", "%m{é}", "%Zz", "%q", "%-5q{x}"]

# the source regex of pattern.rs, on str (ASCII digits: see ASSUMPTIONS about Unicode \d)
PATTERN_RE = re.compile(r"%(?P<padding>-?[0-9]+)?(?P<converter>[a-zA-Z])(?:\{(?P<options>[^}]+)\})?|(?P<escaped>%%)")


def s_tok(x):
    if x is None:
        return "-"
    if isinstance(x, str):
        x = x.encode("utf-8")
    return "s:" + x.hex()


def un_tok(t):
    if t == "-":
        return None
    return bytes.fromhex(t[2:]).decode("utf-8")


def rfc3339_millis(ms):
    dt = datetime(1970, 1, 1) + timedelta(milliseconds=ms)
    return dt.strftime("%Y-%m-%dT%H:%M:%S") + ".%03dZ" % (dt.microsecond // 1000)


def strftime(ms, fmt):
    return (datetime(1970, 1, 1) + timedelta(milliseconds=ms)).strftime(fmt)


def rand_char(rng):
    k = rng.weighted([("special", 30), ("ascii", 40), ("ctrl", 8), ("syntax", 10), ("uni", 12)])
    if k == "special":
        return rng.pick(SPECIALS)
    if k == "ascii":
        return chr(32 + rng.below(95))
    if k == "ctrl":
        return chr(rng.below(32))
    if k == "syntax":
        return rng.pick(list('{}[],:"\\/ %'))
    while True:
        cp = rng.pick([0x80 + rng.below(0x780), 0x800 + rng.below(0xF800), 0x10000 + rng.below(0x100000)])
        if not (0xD800 <= cp <= 0xDFFF):
            return chr(cp)


def rand_str(rng, maxlen=300):
    n = rng.pick([0, 1, 1, 2, 2, 3, 5, 8, 16, 40, 100, 300])
    n = min(n, maxlen)
    return "".join(rand_char(rng) for _ in range(n))


def rand_value(rng):
    k = rng.weighted([("S", 40), ("D", 10), ("I", 20), ("B", 10), ("F", 20)])
    if k in ("S", "D"):
        return [k, s_tok(rand_str(rng, 40))]
    if k == "I":
        v = rng.pick(INTS) if rng.chance(3, 4) else rng.below(2 ** 64) - 2 ** 63
        return ["I", str(v)]
    if k == "B":
        return ["B", str(rng.below(2))]
    bits, j, d = rng.pick(FLOATS)
    return ["F", "%016x/%s/%s" % (bits, s_tok(j), s_tok(d))]


def rand_fields(rng, maxn=6):
    n = rng.pick([0, 0, 1, 1, 2, 3, maxn])
    names, ops = set(), []
    for _ in range(n):
        name = rng.pick(FIELD_NAMES) if rng.chance(5, 6) else rand_str(rng, 8)
        if name in names:
            continue
        names.add(name)
        ops.append(["f", s_tok(name)] + rand_value(rng))
    return ops


def rand_event(rng, msg=None):
    ms = rng.pick(TIMES) if rng.chance(2, 3) else rng.below(4 * 10 ** 12) - 2 * 10 ** 11
    o = lambda: (rng.pick(["1", "main", "worker-é", "", 'q"'])) if rng.chance(1, 3) else None
    if msg is None:
        msg = rand_str(rng) if rng.chance(9, 10) else None
    elif msg is False:
        msg = None
    return ms, [rng.pick(LEVELS), str(ms), s_tok(rfc3339_millis(ms)), s_tok(rand_str(rng, 16)), s_tok(rand_str(rng, 8)),
                s_tok(msg), s_tok(o()), s_tok(o()), s_tok(o()), s_tok(o())]


class EncEngine(Engine):
    """shared case handling: header = kind-specific tokens + EV + all `d` ops; shrinkable ops = field
    ops, one pseudo-op per message character (m <hex>), and (pattern) per pattern character (p <hex>)"""
    exe = "json"
    mem_gb = 6        # a defective padding path may try to allocate 2^31 bytes per case
    nhdr = 0          # kind-specific leading tokens
    msg_at = 5        # index of msg inside EV

    def split(self, line):
        t = line.split()
        ev0 = self.nhdr
        hdr = t[:ev0 + 10]
        rest = t[ev0 + 10:]
        ops, dops = [], []
        for i in range(0, len(rest) - 3, 4):
            (dops if rest[i] == "d" else ops).append(rest[i:i + 4])
        msg = un_tok(hdr[ev0 + self.msg_at])
        hdr = list(hdr)
        if msg is not None:
            hdr[ev0 + self.msg_at] = "MSG"
            ops += [["m", c.encode("utf-8").hex()] for c in msg]
        if self.nhdr == 3:
            pat = un_tok(hdr[2])
            hdr[2] = "PAT"
            ops += [["p", c.encode("utf-8").hex()] for c in pat]
        return hdr + [x for d in dops for x in d], ops

    def join(self, header, ops):
        ev0 = self.nhdr
        hdr = list(header[:ev0 + 10])
        dtoks = list(header[ev0 + 10:])
        if hdr[ev0 + self.msg_at] == "MSG":
            hdr[ev0 + self.msg_at] = "s:" + "".join(o[1] for o in ops if o[0] == "m")
        if self.nhdr == 3 and hdr[2] == "PAT":
            hdr[2] = "s:" + "".join(o[1] for o in ops if o[0] == "p")
        return " ".join(hdr + dtoks + [x for o in ops if o[0] == "f" for x in o])

    def parse(self, line):
        """-> dict of decoded case inputs"""
        t = line.split()
        ev = t[self.nhdr:self.nhdr + 10]
        rest = t[self.nhdr + 10:]
        fields = []
        for i in range(0, len(rest) - 3, 4):
            if rest[i] != "f":
                continue
            kind, payload = rest[i + 2], rest[i + 3]
            if kind in ("S", "D"):
                v = un_tok(payload)
            elif kind == "I":
                v = int(payload)
            elif kind == "B":
                v = payload == "1"
            else:
                v = struct.unpack(">d", bytes.fromhex(payload.split("/")[0]))[0]
            fields.append((un_tok(rest[i + 1]), kind, v))
        return {"level": ev[0], "ms": int(ev[1]), "target": un_tok(ev[3]), "name": un_tok(ev[4]), "message": un_tok(ev[5]),
                "span_id": un_tok(ev[6]), "parent_id": un_tok(ev[7]), "thread_id": un_tok(ev[8]),
                "thread_name": un_tok(ev[9]), "fields": fields}


def _no_const(x):
    raise ValueError("non-JSON constant " + x)


class _Dup(Exception):
    pass


def _pairs(pairs):
    d = {}
    for k, v in pairs:
        if k in d:
            raise _Dup(k)
        d[k] = v
    return d


def same(expected, got):
    """type-aware equality between an input value and what the JSON reader returned"""
    if isinstance(expected, bool) or isinstance(got, bool):
        return isinstance(expected, bool) and isinstance(got, bool) and expected == got
    if isinstance(expected, float):
        if expected != expected or expected in (float("inf"), float("-inf")):
            return got is None
        return isinstance(got, float) and struct.pack(">d", got) == struct.pack(">d", expected)
    if isinstance(expected, int):
        return isinstance(got, int) and got == expected
    return isinstance(got, str) and got == expected


class JsonEngine(EncEngine):
    name = "json"
    model_file = "Log/Json.v"
    nhdr = 2

    def n_cases(self, tier):
        return 1500 if tier == "quick" else 40000

    def case(self, mode, ev, ops):
        return " ".join(["json", mode] + ev + [x for o in ops for x in o])

    def corpus(self):
        out = []
        base = ["INFO", "1698330605123", s_tok(rfc3339_millis(1698330605123))]
        none4 = ["-", "-", "-", "-"]
        # every ordered pair of the 12 special characters, as message, target, name, field name and value
        for i, a in enumerate(SPECIALS):
            for j, b in enumerate(SPECIALS):
                s = a + b
                ev = base + [s_tok(s), s_tok(b + a), s_tok(s)] + none4
                ops = [["f", s_tok(s), "S", s_tok(s)], ["f", s_tok("d" + s), "D", s_tok(s)]]
                out.append(self.case("nest" if (i + j) % 2 else "flat", ev, ops))
        ev = base + [s_tok("t"), s_tok("n"), s_tok("hi")] + none4
        out.append(self.case("flat", ev, [["f", s_tok("level"), "S", s_tok("x")]]))            # F-27
        out.append(self.case("nest", ev, [["f", s_tok("level"), "S", s_tok("x")]]))
        out.append(self.case("flat", ev, [["f", s_tok(k), "I", str(i)] for i, k in enumerate(CORE + ["fields"])]))
        out.append(self.case("flat", base + [s_tok("t"), s_tok("n"), "-"] + none4, [["f", s_tok("message"), "S", s_tok("m")]]))
        out.append(self.case("nest", base + [s_tok(""), s_tok(""), s_tok("")] + [s_tok("")] * 4, []))
        allf = [["f", s_tok("f%d" % i), "F", "%016x/%s/%s" % (b, s_tok(j), s_tok(d))] for i, (b, j, d) in enumerate(FLOATS)]
        alli = [["f", s_tok("i%d" % i), "I", str(v)] for i, v in enumerate(INTS)]
        for mode in ("flat", "nest"):
            out.append(self.case(mode, ev, allf + alli + [["f", s_tok("t"), "B", "1"], ["f", s_tok("f"), "B", "0"]]))
        for ms in TIMES:
            out.append(self.case("nest", ["WARN", str(ms), s_tok(rfc3339_millis(ms)), s_tok("t"), s_tok("n"), s_tok("m")] + none4, []))
        return out

    def gen(self, rng, tier):
        _, ev = rand_event(rng)
        return self.case(rng.pick(["flat", "nest"]), ev, rand_fields(rng))

    def shape(self, line):
        p = self.parse(line)
        cls = set()
        for s in [p["message"] or "", p["target"]] + [f[0] for f in p["fields"]] + [f[2] for f in p["fields"] if isinstance(f[2], str)]:
            for c in s:
                o = ord(c)
                cls.add("q" if c == '"' else "b" if c == "\\" else "c" if o < 32 else "d" if o == 127 else
                        "a" if o < 128 else "2" if o < 0x800 else "3" if o < 0x10000 else "4")
        return " ".join([line.split()[1], "".join(sorted(cls)), ",".join(sorted(f[1] for f in p["fields"])),
                         ",".join(sorted(f[0] for f in p["fields"] if f[0] in CORE)), str(p["message"] is None)])

    def nontrivial(self, line, impl_out):
        p = self.parse(line)
        return bool(p["message"]) or bool(p["fields"])

    def monitor(self, line, out):
        p = self.parse(line)
        flat = line.split()[1] == "flat"
        if out == "PANIC":
            return [("panic", "format_event panicked")]
        if out == "ERR":
            return [("error", "format_event returned Err")]
        try:
            raw = bytes.fromhex(out)
        except ValueError:
            return [("bad-output", out[:80])]
        hits = []
        if not raw.endswith(b"\n") or raw.count(b"\n") != 1 or b"\r" in raw:
            hits.append(("not-one-line", "record is not exactly one newline-terminated line: %r" % raw[:120]))
        try:
            obj = json.loads(raw.decode("utf-8"), parse_constant=_no_const, object_pairs_hook=_pairs)
        except _Dup as e:
            return hits + [("invalid-json", "duplicate key %r" % (e.args[0],))]
        except (ValueError, UnicodeDecodeError) as e:
            return hits + [("invalid-json", "%s: %r" % (e, raw[:120]))]
        if not isinstance(obj, dict):
            return hits + [("invalid-json", "not an object")]
        present = {"timestamp": rfc3339_millis(p["ms"]), "level": p["level"], "target": p["target"], "name": p["name"]}
        for k in ("message", "span_id", "parent_id", "thread_id", "thread_name"):
            if p[k] is not None:
                present[k] = p[k]
        fnames = [f[0] for f in p["fields"]]
        for k, v in present.items():
            if not same(v, obj.get(k)):
                hits.append(("roundtrip-message" if k == "message" else "roundtrip-core",
                             "%s: wrote %r, read %r" % (k, v, obj.get(k))))
        for k in CORE:
            if k not in present and k in obj and not (flat and k in fnames):
                hits.append(("roundtrip-message" if k == "message" else "roundtrip-core", "absent %s read as %r" % (k, obj[k])))
        if flat:
            where = obj
            extra = set(obj) - set(present) - set(fnames)
        else:
            where = obj.get("fields", {} if not p["fields"] else None)
            extra = set(obj) - set(present) - {"fields"}
            if not p["fields"] and "fields" in obj:
                extra.add("fields")
            if not isinstance(where, dict):
                hits.append(("roundtrip-field", "nested fields object missing: %r" % (where,)))
                where = {}
            extra |= {"fields." + k for k in set(where) - set(fnames)}
        if extra:
            hits.append(("roundtrip-field", "keys nobody wrote: %r" % sorted(extra)))
        for k, kind, v in p["fields"]:
            got = where.get(k, "<absent>")
            if same(v, got):
                continue
            if flat and k in present:
                hits.append(("flatten-collision", "custom field %r=%r is lost: the record holds the core value %r" % (k, v, got)))
            else:
                hits.append(("roundtrip-field", "field %r: wrote %r, read %r" % (k, v, got)))
        return hits


class PatternEngine(EncEngine):
    name = "pattern"
    model_file = "Log/Pattern.v"
    nhdr = 3

    def n_cases(self, tier):
        return 1500 if tier == "quick" else 40000

    def case(self, pat, ms, ev, fops, force_nopanic=False):
        """derives the mode and the date table from the pattern"""
        dops, full, seen = [], not force_nopanic, set()
        for m in PATTERN_RE.finditer(pat):
            if m.group("converter") == "d" and m.group("options") is not None:
                o = m.group("options")
                if o not in DATE_FMTS:
                    full = False
                elif o not in seen:
                    seen.add(o)
                    dops.append(["d", s_tok(o), s_tok(strftime(ms, o)), "-"])
        return " ".join(["pattern", "full" if full else "nopanic", s_tok(pat)] + ev + [x for o in dops + fops for x in o])

    def fixed_event(self, msg="hello é"):
        ms = 1698330605123
        return ms, ["INFO", str(ms), s_tok(rfc3339_millis(ms)), s_tok("my::target"), s_tok("n"), s_tok(msg), "-", "-", "-", s_tok("main")]

    def corpus(self):
        out = []
        ms, ev = self.fixed_event()
        fl = FLOATS[3]
        fops = [["f", s_tok("a"), "I", "-5"], ["f", s_tok("message"), "S", s_tok("dup")],
                ["f", s_tok("z"), "F", "%016x/%s/%s" % (fl[0], s_tok(fl[1]), s_tok(fl[2]))]]
        for pat in MALFORMED + ["[%d] %p %t - %m%n", "[%d{%Y-%m-%d %H:%M}] %p - %m", "[%5p] %-8t [%-6T] %m", "100%% %p",
                                "%X", "%X{a}|%X{nope}|%X{z}", "%3m|%-3m|%2m|%0m", "%5n|x", "%m%n%n", "%20d|%-30d{%H%M}|",
                                "%65535m", "%65536m", "%-65536m", "%-2147483648m", "%2147483648m", "%65536n", "%70000q"]:
            out.append(self.case(pat, ms, ev, fops))
        for d in DATE_JUNK:
            out.append(self.case("a %d{" + d + "} b %m", ms, ev, []))
        # every ordered pair of special characters as the message, padded and not
        for a in SPECIALS:
            for b in SPECIALS:
                ms2, ev2 = self.fixed_event(a + b)
                out.append(self.case("<%m|%4m|%-6m>", ms2, ev2, []))
        ms3, ev3 = self.fixed_event(None)
        out.append(self.case("[%m] %5m %X", ms3, ev3, []))
        return out

    def gen_pattern(self, rng):
        if rng.chance(1, 6):
            return "".join(rng.pick(MALFORMED + ["x", " ", "%m"]) for _ in range(1 + rng.below(4)))
        parts = []
        for _ in range(rng.pick([1, 2, 3, 5, 8])):
            k = rng.weighted([("lit", 35), ("spec", 50), ("pct", 5), ("bad", 10)])
            if k == "lit":
                parts.append("".join(rng.pick(list("ab [](){}-:|%0159 \n\t") + ["é", "€", "\U0001F600"]) for _ in range(1 + rng.below(5))))
            elif k == "pct":
                parts.append("%%")
            elif k == "bad":
                parts.append(rng.pick(MALFORMED))
            else:
                pad = ""
                if rng.chance(1, 2):
                    pad = rng.weighted([(rng.pick(PADS), 90), (rng.pick(BIG_PADS), 4), (rng.pick(OVERFLOW_PADS), 6)])
                c = rng.pick(CONVERTERS + ["m", "m", "X", "d"]) if rng.chance(9, 10) else rng.pick(list("qzAZbc"))
                opts = ""
                if c == "d" and rng.chance(1, 2):
                    opts = "{" + (rng.pick(DATE_FMTS) if rng.chance(5, 6) else rng.pick(DATE_JUNK)) + "}"
                elif c == "X" and rng.chance(2, 3):
                    opts = "{" + rng.pick([n for n in FIELD_NAMES if n and "}" not in n]) + "}"
                elif rng.chance(1, 10):
                    opts = rng.pick(["{x}", "{}", "{", "{a b}", "{%Y}"])
                parts.append("%" + pad + c + opts)
        return "".join(parts)

    def gen(self, rng, tier):
        ms, ev = rand_event(rng, msg=(False if rng.chance(1, 12) else rand_str(rng, 40)))
        if rng.chance(1, 4):
            # padding widths placed around the content's size in characters AND in bytes (they differ
            # for non-ASCII text): at, just below/above, and between the two
            content = "".join(rng.pick(["é", "ñ", "€", "\U0001F600", "a", "b", "Ж"]) for _ in range(1 + rng.below(8)))
            ms, ev = rand_event(rng, msg=content)
            n, b = len(content), len(content.encode("utf-8"))
            w = max(1, rng.pick([n - 1, n, n + 1, (n + b) // 2, b - 1, b, b + 1, b + 3]))
            pat = rng.pick(["", "[", "x "]) + "%" + rng.pick(["", "-"]) + str(w) + "m" + rng.pick(["", "]", " %p"])
            return self.case(pat, ms, ev, rand_fields(rng, 2))
        return self.case(self.gen_pattern(rng), ms, ev, rand_fields(rng, 4))

    def shape(self, line):
        t = line.split()
        pat = un_tok(t[2])
        items = []
        for m in PATTERN_RE.finditer(pat):
            if m.group("escaped"):
                items.append("%%")
            else:
                pd = m.group("padding")
                items.append(("" if pd is None else ("-" if pd.startswith("-") else "+")) + m.group("converter") + ("{}" if m.group("options") else ""))
        return t[1] + " " + " ".join(items) + (" lit" if PATTERN_RE.sub("", pat) else "")

    def nontrivial(self, line, impl_out):
        return "%" in un_tok(line.split()[2])

    def monitor(self, line, out):
        t = line.split()
        pat = un_tok(t[2])
        p = self.parse(line)
        specs = [m for m in PATTERN_RE.finditer(pat) if not m.group("escaped")]
        if out == "PANIC":
            big = [m.group("padding") for m in specs if m.group("padding") and m.group("converter") != "n"
                   and -2 ** 31 <= int(m.group("padding")) < 2 ** 31 and abs(int(m.group("padding"))) > 65535]
            if big:
                return [("pad-width-panic", "pattern %r: padding %s exceeds 65535 and format_event panicked" % (pat, big[0]))]
            return [("panic", "pattern %r panicked" % pat)]
        if out == "ERR":
            return [("error", "format_event returned Err")]
        if out == "OK":
            return []
        try:
            raw = bytes.fromhex(out)
        except ValueError:
            return [("bad-output", out[:80])]
        hits = []
        if not raw.endswith(b"\n"):
            hits.append(("no-newline", "record does not end with a newline: %r" % raw[-40:]))
        msg = (p["message"] or "").encode("utf-8")
        if any(m.group("converter") == "m" for m in specs) and msg not in raw:
            hits.append(("message-not-verbatim", "pattern %r: message %r is not in the output %r" % (pat, msg, raw[:160])))
        return hits
