"""E-CHANOPS-topic D1 engine: fibre::spmc::topic (sync + async handles) through its public API.

Case line:  <fx> <s|a> <cap> op*
  fx   = four 0/1 digits selecting the model's pre-/post-fix behaviour (fix04 fix05 fix07 fix14); the
         harness ignores it.  MODEL_FIXES must describe the code under /repo: "0000" = current tree.
  ops  = pub S T V | cls S S2 | xs S | ds S | cvs S | ics S | sub R T | uns R T | clr R R2 | xr R | dr R
         | cvr R | try R | rto R | mk F R | poll F W | df F | pn R W | icr R | emp R | cap R
"""
import os
from .flow import Engine

# which of the proposed patches are applied to the code under test (lead flips these together with the patch)
MODEL_FIXES = os.environ.get("VERIF_TOPIC_FIXES", "1111")

ARITY = {"pub": 4, "cls": 3, "xs": 2, "ds": 2, "cvs": 2, "ics": 2, "sub": 3, "uns": 3, "clr": 3, "xr": 2,
         "dr": 2, "cvr": 2, "try": 2, "rto": 2, "mk": 3, "poll": 3, "df": 2, "pn": 3, "icr": 2, "emp": 2,
         "cap": 2}
TOPICS = [0, 1, 2]
WAKERS = [0, 1, 2]
CAPS = [1, 1, 2, 2, 4, 0]
NOTYET = ("empty", "timeout", "pending")


def split_case(line):
    t = line.split()
    hdr, ops, i = t[:3], [], 3
    while i < len(t):
        k = ARITY[t[i]]
        ops.append(t[i:i + k])
        i += k
    return hdr, ops


def split_out(out):
    """-> list of (result tokens, woken waker ids)"""
    res = []
    for grp in (out.split(";") if out.strip() else []):
        toks = grp.split()
        ws = [int(x[1:]) for x in toks if x[0] == "w" and x[1:].isdigit()]
        rs = [x for x in toks if not (x[0] == "w" and x[1:].isdigit())]
        res.append((rs, ws))
    return res


class Monitor:
    """Property clauses judged from the implementation's outputs only (own bookkeeping: reference
    subscription sets, ideal bounded mailboxes, handle liveness).  Mirrors coq/Chan/TopicSpec.v for the
    C08 clauses and refines them into narrow ids."""

    def __init__(self, line, out):
        self.hdr, self.ops = split_case(line)
        self.outs = split_out(out)
        self.cap = int(self.hdr[2])
        kind = self.hdr[1]
        self.tx = {0: {"live": True, "closed": False, "kind": kind}}
        self.rx = {0: self.new_rx(kind, [], self.cap)}
        self.futs = {}
        self.hits = []
        self.pubs = {}          # (t, v) -> number of accepted publishes
        self.step = 0
        self.sender_closes = 0  # sender handles closed or dropped so far
        self.zombie_pubs = set()
        self.gf = {}            # live future id -> {"rx", "pend": waker or None, "woken", "over"}
        self.conv_after_close = False   # some receiver handle was converted after close() returned Ok on it (F-07)
        self.async_drop_closed = False  # some async receiver handle was dropped after close() returned Ok on it
        for x in self.tx.values():
            x["self_closed"] = False

    def open_rx(self):
        return sorted(k for k, x in self.rx.items() if x["live"] and not x["closed"])

    def dd(self):
        """histories in which the receiver count is known to be decremented twice for one handle"""
        return self.conv_after_close or self.async_drop_closed

    def new_rx(self, kind, subs, cap):
        return {"live": True, "closed": False, "kind": kind, "subs": list(subs), "q": [], "cap": cap,
                "got": [], "sawdisc": False, "reach": False, "unsub_pubs": set(), "closed_pubs": set(),
                "born_dead": False}

    def hit(self, clause, detail):
        self.hits.append((clause, "op#%d %s: %s" % (self.step, " ".join(self.ops[self.step]), detail)))

    def any_open(self):
        return any(x["live"] and not x["closed"] for x in self.tx.values())

    def sender_gone(self):
        if not self.any_open():
            for x in self.rx.values():
                if x["live"] and x["subs"]:
                    x["reach"] = True

    def recv(self, r, rs):
        x = self.rx.get(r)
        if x is None or not x["live"]:
            return
        if x["closed"] and (rs[0] in NOTYET or (rs[0] in ("val", "ready", "some") and len(rs) == 3)):
            self.hit("C04:closed-rx-accepts", "receive on receiver handle %d returned %s after close() had returned Ok on it" % (r, " ".join(rs)))
        if rs[0] in ("val", "ready", "some") and len(rs) == 3:
            m = (int(rs[1]), int(rs[2]))
            if x["sawdisc"]:
                self.hit("C04:value-after-disc-live-sender" if x.get("disc_live") else
                         "C04:value-after-disc-clone-of-closed" if m in self.zombie_pubs else "C04:value-after-disc",
                         "receiver %d obtained %r after it had observed Disconnected" % (r, m))
            if x["q"] and x["q"][0] == m:
                x["q"].pop(0)
                x["got"].append(m)
                return
            if m in x["closed_pubs"]:
                self.hit("C08:closed-rx-still-receives",
                         "receiver %d was closed (hence unsubscribed) when %r was published, yet it received it" % (r, m))
            elif x["closed"]:
                # the exception class of C08_routing_except_F14: any routing anomaly on a handle that was closed
                # (its mailbox is polluted by / was filled with messages delivered through the stale registration)
                self.hit("C08:closed-rx-still-receives",
                         "receiver %d (closed earlier, stale dispatcher registration) obtained %r, reference mailbox holds %r" % (r, m, x["q"]))
            elif m in x["got"] and self.pubs.get(m, 0) <= x["got"].count(m):
                self.hit("C08:dup", "receiver %d obtained %r twice" % (r, m))
            elif m in x["q"]:
                self.hit("C08:order", "receiver %d obtained %r before %r" % (r, m, x["q"][0]))
            elif m in x["unsub_pubs"]:
                self.hit("C08:unsubscribed-topic", "receiver %d obtained %r published while it was not subscribed to topic %d" % (r, m, m[0]))
            elif m not in self.pubs:
                self.hit("C08:phantom", "receiver %d obtained %r which was never published" % (r, m))
            else:
                self.hit("C08:routing", "receiver %d obtained %r, reference mailbox holds %r" % (r, m, x["q"]))
            x["got"].append(m)
            if m in x["q"]:
                x["q"].remove(m)
        elif rs[0] in NOTYET:
            if x["q"]:
                self.hit("C08:closed-rx-still-receives" if x["closed"] else "C08:lost",
                         "receiver %d reports %s but %r was published to it and fitted its mailbox" % (r, rs[0], x["q"]))
            elif not x["closed"] and not self.any_open():
                if x["reach"]:
                    self.hit("C08:no-disc", "receiver %d reports %s: all senders gone, mailbox drained, and it was subscribed when the last sender went" % (r, rs[0]))
                else:
                    self.hit("C08:no-disc-unsubscribed", "receiver %d reports %s although every sender handle is gone and its mailbox is drained" % (r, rs[0]))
        elif rs[0] in ("disc", "none") or rs == ["ready", "disc"]:
            if x["closed"]:
                return
            x["sawdisc"] = True
            if self.any_open() and self.sender_closes:
                x["disc_live"] = True
            if x["q"]:
                self.hit("C08:disc-not-drained", "receiver %d observed Disconnected with %r still owed" % (r, x["q"]))
            elif self.any_open():
                opn = sorted(k for k, t in self.tx.items() if t["live"] and not t["closed"])
                if self.sender_closes:
                    self.hit("C08:disc-with-live-sender", "receiver %d observed Disconnected after %d sender handle(s) were closed/dropped, while sender handle(s) %r are open" % (r, self.sender_closes, opn))
                else:
                    self.hit("C08:disc-no-sender-closed", "receiver %d observed Disconnected although no sender handle was ever closed or dropped (open: %r)" % (r, opn))

    def c06_after(self):
        """after each op: a pending, un-woken future whose reference mailbox holds a message"""
        for f, e in sorted(self.gf.items()):
            x = self.rx.get(e["rx"])
            if e["pend"] is not None and not e["woken"] and x and x["live"] and x["q"] and not x["closed"]:
                self.hit("C06:missed-wake-overwritten" if e["over"] else "C06:missed-wake",
                         "future %d (receiver %d) returned Pending with waker %d, was not woken since, and %r is in its mailbox" % (
                             f, e["rx"], e["pend"], x["q"][0]))

    def run(self):
        self._run()
        return self.hits

    def _run(self):
        for i, (op, (rs, ws)) in enumerate(zip(self.ops, self.outs)):
            self.step = i
            if not rs:
                break
            for e in self.gf.values():
                if e["pend"] is not None and e["pend"] in ws:
                    e["woken"] = True
            if self._one(op, rs, ws) == "stop":
                break
            self.c06_after()

    def _one(self, op, rs, ws):
        if True:
            if rs[0] in ("PANIC", "HANG"):
                self.hit("C08:" + rs[0].lower(), "operation did not return normally")
                return "stop"
            k, a = op[0], [int(v) for v in op[1:]]
            if rs[0] in ("nohandle", "badid", "noapi", "busy"):
                return None
            if k == "pub" and rs[0] in ("ok", "closed"):
                t = self.tx[a[0]]
                if rs[0] == "ok" and t["self_closed"]:
                    self.hit("C04:closed-handle-accepts", "send on sender handle %d returned Ok after close() had returned Ok on it" % a[0])
                if rs[0] == "ok" and not self.open_rx():
                    self.hit("C04:send-after-last-rx-double-dec" if self.dd() else "C04:send-after-last-rx",
                             "send returned Ok although every receiver handle is closed or dropped")
                if rs[0] == "closed" and not t["self_closed"] and not t["closed"] and self.open_rx():
                    self.hit("C04:closed-with-live-rx-double-dec" if self.dd() else "C04:closed-with-live-rx",
                             "send on open sender handle %d returned Closed while receiver handle(s) %r are open" % (a[0], self.open_rx()))
            if k == "pub" and rs[0] == "ok":
                m = (a[1], a[2])
                if self.tx[a[0]]["closed"] and not self.tx[a[0]]["self_closed"]:
                    self.zombie_pubs.add(m)     # sent through a clone of a closed sender handle
                self.pubs[m] = self.pubs.get(m, 0) + 1
                for x in self.rx.values():
                    if not x["live"]:
                        continue
                    if a[1] in x["subs"]:
                        if len(x["q"]) < x["cap"]:
                            x["q"].append(m)
                    elif x["closed"]:
                        x["closed_pubs"].add(m)
                    else:
                        x["unsub_pubs"].add(m)
            elif k == "cls" and rs[0] == "ok":
                self.tx[a[1]] = {"live": True, "closed": self.tx[a[0]]["closed"], "kind": "s", "self_closed": False}
            elif k == "xs" and rs[0] == "ok":
                if self.tx[a[0]]["self_closed"]:
                    self.hit("C04:double-close", "second close() on sender handle %d returned Ok" % a[0])
                self.tx[a[0]]["self_closed"] = True
                self.tx[a[0]]["closed"] = True
                self.sender_closes += 1
                self.sender_gone()
            elif k == "ds" and rs[0] == "ok":
                was = self.tx[a[0]]["live"] and not self.tx[a[0]]["closed"]
                self.tx[a[0]]["live"] = False
                self.sender_closes += 1
                if was:
                    self.sender_gone()
            elif k == "sub" and rs[0] == "ok":
                if a[1] not in self.rx[a[0]]["subs"]:
                    self.rx[a[0]]["subs"].append(a[1])
            elif k == "uns" and rs[0] == "ok":
                if a[1] in self.rx[a[0]]["subs"]:
                    self.rx[a[0]]["subs"].remove(a[1])
            elif k == "clr" and rs[0] == "ok":
                p = self.rx[a[0]]
                self.rx[a[1]] = self.new_rx(p["kind"], p["subs"], p["cap"])
            elif k == "xr" and rs[0] == "ok":
                if self.rx[a[0]]["closed"]:
                    if self.rx[a[0]].get("conv_closed"):
                        self.conv_after_close = True
                    self.hit("C04:double-close-after-conv" if self.rx[a[0]].get("conv_closed") else "C04:double-close",
                             "second close() on receiver handle %d returned Ok" % a[0])
                self.rx[a[0]]["closed"] = True
                self.rx[a[0]]["subs"] = []
            elif k == "dr" and rs[0] == "ok":
                x = self.rx[a[0]]
                if x["closed"] and x["kind"] == "a":
                    self.async_drop_closed = True
                if x["closed"] and x.get("conv_closed"):
                    self.conv_after_close = True
                x["live"] = False
                x["subs"] = []
            elif k == "cvr" and rs[0] == "ok":
                x = self.rx[a[0]]
                x["kind"] = "a" if x["kind"] == "s" else "s"
                if x["closed"]:
                    x["conv_closed"] = True
            elif k == "cvs" and rs[0] == "ok":
                x = self.tx[a[0]]
                x["kind"] = "a" if x["kind"] == "s" else "s"
            elif k == "mk" and rs[0] == "ok":
                self.futs[a[0]] = a[1]
                self.gf[a[0]] = {"rx": a[1], "pend": None, "woken": False, "over": False}
            elif k == "df" and rs[0] == "ok":
                self.futs.pop(a[0], None)
                self.gf.pop(a[0], None)
            elif k in ("try", "rto", "pn"):
                self.recv(a[0], rs)
            elif k == "poll":
                if a[0] in self.futs:
                    self.recv(self.futs[a[0]], rs)
                    e = self.gf.get(a[0])
                    if e is not None:
                        if rs[0] == "pending":
                            for f2, e2 in self.gf.items():
                                if f2 != a[0] and e2["rx"] == e["rx"] and e2["pend"] is not None and not e2["woken"]:
                                    e2["over"] = True
                            e["pend"], e["woken"], e["over"] = a[1], False, False
                        else:
                            e["pend"] = None
        return None


class TopicEngine(Engine):
    name = "topic"
    exe = "topic"
    model_file = "Chan/TopicOps.v"

    def __init__(self, fixes=None):
        self.fixes = fixes or MODEL_FIXES

    def n_cases(self, tier):
        return 1500 if tier == "quick" else 60000

    def corpus(self):
        f = self.fixes
        return [f + " " + c for c in CORPUS]

    def split(self, line):
        return split_case(line)

    # ---------------------------------------------------------------- generator
    def gen(self, rng, tier):
        kind = rng.pick(["s", "a"])
        cap = rng.pick(CAPS)
        n = rng.pick([2, 4, 6, 10, 16, 25, 40, 60])
        tx = {0: kind}          # live sender id -> kind
        rx = {0: kind}          # live receiver id -> kind
        subs = {0: set()}       # generator's idea of the subscription sets (only to bias topic choice)
        tx_used, rx_used = {0}, {0}
        futs = {}               # live future id -> receiver id
        nextv = [0]
        ops = []
        max_rx = rng.pick([1, 2, 3, 3])
        max_tx = rng.pick([1, 2, 3, 3])
        style = rng.below(10)   # 0-5 traffic-heavy, 6-7 lifecycle-heavy, 8-9 burst fill
        stray = 25 if style < 6 else 10     # 1/stray of the handle arguments are random (possibly invalid) ids

        def any_tx():
            return rng.pick(sorted(tx)) if tx and not rng.chance(1, stray) else rng.below(5)

        def any_rx():
            return rng.pick(sorted(rx)) if rx and not rng.chance(1, stray) else rng.below(5)

        def topic():
            live = sorted(set().union(*[subs.get(r, set()) for r in rx])) if rx else []
            return rng.pick(live) if live and rng.chance(3, 4) else rng.pick(TOPICS)

        def emit(op):
            ops.append(op)
            k = op[0]
            a = [int(x) for x in op[1:]]
            if k == "cls" and a[0] in tx and a[1] not in tx_used and tx[a[0]] == "s":
                tx[a[1]] = "s"
                tx_used.add(a[1])
            elif k == "ds":
                tx.pop(a[0], None)
            elif k == "cvs" and a[0] in tx:
                tx[a[0]] = "a" if tx[a[0]] == "s" else "s"
            elif k == "clr" and a[0] in rx and a[1] not in rx_used:
                rx[a[1]] = rx[a[0]]
                subs[a[1]] = set(subs.get(a[0], set()))
                rx_used.add(a[1])
            elif k == "dr" and a[0] in rx and a[0] not in futs.values():
                rx.pop(a[0])
            elif k == "cvr" and a[0] in rx and a[0] not in futs.values():
                rx[a[0]] = "a" if rx[a[0]] == "s" else "s"
            elif k == "mk" and a[1] in rx and rx[a[1]] == "a" and a[0] not in futs:
                futs[a[0]] = a[1]
            elif k == "df":
                futs.pop(a[0], None)
            elif k == "sub" and a[0] in rx:
                subs.setdefault(a[0], set()).add(a[1])
            elif k == "uns" and a[0] in rx:
                subs.setdefault(a[0], set()).discard(a[1])
            elif k == "xr" and a[0] in rx:
                subs[a[0]] = set()

        TRAFFIC = [("pub", 34), ("sub", 8), ("uns", 4), ("try", 18), ("rto", 5), ("mk", 4), ("poll", 10), ("df", 1),
                   ("pn", 4), ("cls", 2), ("xs", 1), ("ds", 1), ("cvs", 1), ("clr", 2), ("xr", 1), ("dr", 1),
                   ("cvr", 1), ("ics", 1), ("icr", 1), ("emp", 1), ("cap", 1)]
        LIFE = [("pub", 22), ("sub", 10), ("uns", 5), ("try", 12), ("rto", 4), ("mk", 4), ("poll", 7), ("df", 2),
                ("pn", 3), ("cls", 4), ("xs", 3), ("ds", 3), ("cvs", 2), ("clr", 4), ("xr", 3), ("dr", 3), ("cvr", 3),
                ("ics", 1), ("icr", 1), ("emp", 1), ("cap", 1)]

        def one():
            k = rng.weighted(TRAFFIC if style < 6 or style >= 8 else LIFE)
            if style < 6:
                # keep the channel alive most of the time: do not retire the last open handle of a side
                if k in ("xs", "ds") and len(tx) <= 1 and not rng.chance(1, 8):
                    k = "pub"
                if k in ("xr", "dr") and len(rx) <= 1 and not rng.chance(1, 8):
                    k = "try"
            if k == "pub":
                nextv[0] += 1
                emit(["pub", str(any_tx()), str(topic()), str(nextv[0])])
            elif k == "sub":
                emit([k, str(any_rx()), str(rng.pick(TOPICS))])
            elif k == "uns":
                emit([k, str(any_rx()), str(topic())])
            elif k == "cls":
                if len(tx) >= max_tx and not rng.chance(1, 6):
                    return
                emit(["cls", str(any_tx()), str(rng.below(5))])
            elif k == "clr":
                if len(rx) >= max_rx and not rng.chance(1, 6):
                    return
                emit(["clr", str(any_rx()), str(rng.below(5))])
            elif k in ("xs", "ds", "cvs", "ics"):
                emit([k, str(any_tx())])
            elif k in ("xr", "dr", "cvr", "try", "rto", "icr", "emp", "cap"):
                emit([k, str(any_rx())])
            elif k == "mk":
                emit(["mk", str(rng.below(4)), str(any_rx())])
            elif k == "poll":
                f = rng.pick(sorted(futs)) if futs and not rng.chance(1, 10) else rng.below(4)
                emit(["poll", str(f), str(rng.pick(WAKERS))])
            elif k == "df":
                f = rng.pick(sorted(futs)) if futs and not rng.chance(1, 10) else rng.below(4)
                emit(["df", str(f)])
            elif k == "pn":
                emit(["pn", str(any_rx()), str(rng.pick(WAKERS))])

        # most cases start with a few subscriptions so that publishes are actually routed
        if style < 6 or rng.chance(1, 2):
            for _ in range(rng.pick([1, 1, 2, 3])):
                emit(["sub", "0", str(rng.pick(TOPICS))])
        if style >= 8:
            # fill mailboxes: a burst of publishes on one subscribed topic
            t = rng.pick(TOPICS)
            emit(["sub", "0", str(t)])
            for _ in range(rng.pick([1, 2, 3, 5, 6])):
                nextv[0] += 1
                emit(["pub", "0", str(t), str(nextv[0])])
        for _ in range(n):
            one()
        if style >= 4:
            # lifecycle tail: closes/drops of the sender handles in a random order, then every
            # receive form / observer on every receiver handle
            hs = sorted(tx)
            while hs:
                h = hs.pop(rng.below(len(hs)))
                emit([rng.pick(["xs", "ds", "ds"]), str(h)])
                if rng.chance(1, 3):
                    one()
            for r in sorted(rx):
                if rng.chance(1, 4):
                    emit([rng.pick(["xr", "cvr"]), str(r)])
                for _ in range(rng.pick([1, 2, 3])):
                    k = rng.pick(["try", "try", "rto", "pn"])
                    emit([k, str(r)] + ([str(rng.pick(WAKERS))] if k == "pn" else []))
                emit(["icr", str(r)])
            for f in sorted(futs):
                emit(["poll", str(f), str(rng.pick(WAKERS))])
        return " ".join([self.fixes, kind, str(cap)] + [t for op in ops for t in op])

    def nontrivial(self, line, impl_out):
        ops = self.split(line)[1]
        return len(ops) >= 3 and any(o[0] == "pub" for o in ops)

    def monitor(self, line, out):
        return Monitor(line, out).run()


CORPUS = [
    # DESIGN §11 item 15 repros (F-04, F-05, F-14)
    "s 4 sub 0 1 cls 0 1 pub 0 1 7 ds 1 try 0 try 0 pub 0 1 8 try 0",
    "s 4 ds 0 try 0 try 0",
    "s 4 clr 0 1 sub 0 1 sub 1 1 xr 0 pub 0 1 7 try 0 try 1",
    # async close + drop: receiver_count decremented twice
    "a 2 clr 0 1 sub 1 0 xr 0 dr 0 pub 0 0 1 try 1 ics 0",
    # conversion resets `closed`
    "s 2 clr 0 1 xr 0 cvr 0 xr 0 pub 0 0 1 ics 0",
    # full mailbox drops the newest
    "s 1 sub 0 0 pub 0 0 1 pub 0 0 2 try 0 try 0 pub 0 0 3 try 0",
    "a 2 sub 0 0 sub 0 1 pub 0 0 1 pub 0 1 2 pub 0 0 3 mk 0 0 poll 0 0 poll 0 0 poll 0 0 pub 0 1 4 poll 0 1",
    # two futures on one receiver: single waiter slot
    "a 2 sub 0 0 mk 0 0 mk 1 0 poll 0 0 poll 1 1 pub 0 0 1 pub 0 0 2 poll 1 1 poll 0 0",
    # subscription churn, clone inherits subscriptions
    "s 2 sub 0 0 sub 0 1 clr 0 1 uns 0 0 pub 0 0 1 pub 0 1 2 try 0 try 0 try 1 try 1 try 1",
    # dead clone after all senders are gone
    "s 2 sub 0 0 ds 0 clr 0 1 try 1 try 0 xr 1 rto 1 cap 1",
    # closed sender clone
    "s 2 sub 0 0 xs 0 cls 0 1 pub 1 0 1 try 0 try 0",
]

ENGINE = TopicEngine()

_INFO = {"name": "E-CHANOPS-topic",
         "path": "coq/Chan/TopicOps.v (model), coq/Chan/TopicSpec.v (reference), coq/Proofs/Topic*.v, coq/Props/C08.v, "
                 "ocaml/eng_topic.ml, harness/seqdrv/src/bin/topic.rs, vlib/engines_topic.py",
         "kind": "K2 op-level model of fibre::spmc::topic (sync+async handles; one API call / poll / future drop = one step) "
                 "with pre-/post-fix switches; theorems for all histories against an executable reference; D1 tie"}

_ASSUME = [
    "topic: K2 model, sequential histories only (one API call = one atomic step); interleavings of send's snapshot-then-deliver with subscribe/unsubscribe/close (DESIGN C08_sections, K3') are NOT covered",
    "topic: papaya HashMap / left_right subscriber lists / HashSet are modelled as association lists; hash iteration order is unobservable (per-op wake sets are compared sorted)",
    "topic: receiver_count (AtomicUsize, wrapping fetch_sub) is modelled in Z; fewer than 2^64 handle operations",
    "topic: blocking TopicReceiver::recv() is not executed (same mailbox code as recv_timeout, which is tied with a zero timeout); Weak/Arc lifetimes are modelled by handle liveness",
    "topic: model fix switches = %s (0000 = current /repo; flip together with the patches in docs/topic.md)" % MODEL_FIXES,
]

_W = MODEL_FIXES
PROPS = {
    "C08": {
        "engines": [ENGINE],
        "witness": {
            "F-04": (ENGINE, _W + " s 4 sub 0 1 cls 0 1 pub 0 1 7 ds 1 try 0 try 0", "C08:disc-with-live-sender"),
            "F-05": (ENGINE, _W + " s 4 ds 0 try 0", "C08:no-disc-unsubscribed"),
            "F-14": (ENGINE, _W + " s 4 clr 0 1 sub 0 1 xr 0 pub 0 1 7 try 0", "C08:closed-rx-still-receives"),
        },
        "assumptions": _ASSUME,
        "covers": "topic (sync+async): routing exactness, full-mailbox-only omission, dropped counter, publish non-blocking, "
                  "Disconnected iff all sender handles gone and drained -- full statement proved for the patched model, "
                  "refuted on the faithful model by F-04/F-05/F-14 with the exact exception classes proved",
        "engine_info": _INFO,
    },
    "C06": {
        "engines": [ENGINE],
        "witness": {
            "F-T1": (ENGINE, _W + " a 2 sub 0 0 mk 0 0 mk 1 0 poll 0 0 poll 1 1 pub 0 0 1 pub 0 0 2 poll 1 1", "C06:missed-wake-overwritten"),
        },
        "assumptions": _ASSUME,
        "covers": "topic RecvFuture (async receivers): every pending future whose registration was not overwritten by another "
                  "future of the same receiver is woken when its poll becomes Ready; dropping a future is harmless -- all "
                  "create/poll/drop histories; the single waiter slot loses the earlier of two pending futures (F-T1, refuted)",
        "engine_info": _INFO,
    },
    "C04": {
        "engines": [ENGINE],
        "witness": {
            "F-04-topic-vad": (ENGINE, _W + " s 2 sub 0 1 cls 0 1 ds 1 try 0 pub 0 1 8 try 0", "C04:value-after-disc-live-sender"),
            "F-04-topic-reopen": (ENGINE, _W + " s 2 sub 0 1 xs 0 cls 0 1 try 0 pub 1 1 8 try 0", "C04:value-after-disc-clone-of-closed"),
            "F-07-topic-dclose": (ENGINE, _W + " s 2 clr 0 1 xr 0 cvr 0 xr 0", "C04:double-close-after-conv"),
            "F-07-topic-live": (ENGINE, _W + " a 2 clr 0 1 xr 0 dr 0 pub 0 0 1", "C04:closed-with-live-rx-double-dec"),
            "F-07-topic-last": (ENGINE, _W + " a 2 xr 0 dr 0 pub 0 0 1", "C04:send-after-last-rx-double-dec"),
            "F-03-topic": (ENGINE, _W + " s 2 xr 0 try 0", "C04:closed-rx-accepts"),
        },
        "assumptions": _ASSUME,
        "covers": "topic (sync+async): value-after-Disconnected, send fails iff no open receiver handle, close idempotence, "
                  "closed sender handle rejects -- proved for the patched model (F-04, F-07), refuted on the faithful model "
                  "with exception classes; closed receiver handle accepts receives (F-03) refuted, no patch",
        "engine_info": _INFO,
    },
}
