"""E-CHANOPS-spsc D1 engine: fibre::spsc bounded channel (sync + async handles, futures, Stream,
conversions) against the K2 model coq/Chan/SpscOps.v.

case:   <cap> <s|a> <cfg> <op>*     (cfg: two digits fix_f03 fix_conv, read by the model driver only)
ops:    sender   ts sd | tsb N sb N tsbm N sbm N | cs os vs ds | fs fsb N fsbm N ps W xs
        receiver tr rc rt | trb M trbm M rb M rbm M | cr or vr dr | fr frb M frbm M pr W xr nx W
output: one group per op + 4 implicit teardown groups (xs xr ds dr), joined by " ; ":
        <result> [w:<wakers woken>] [d:<payload ids dropped by library code>]
"""
import re
from .flow import Engine

# The model variant the real code is compared with: "00" = /repo as it is today;
# after the two proposed fixes (docs/spsc.md) are applied to /repo, set this to "11".
CFG = "11"

ARITY = {"ts": 0, "sd": 0, "tsb": 1, "sb": 1, "tsbm": 1, "sbm": 1, "cs": 0, "os": 0, "vs": 0, "ds": 0,
         "fs": 0, "fsb": 1, "fsbm": 1, "ps": 1, "xs": 0,
         "tr": 0, "rc": 0, "rt": 0, "trb": 1, "trbm": 1, "rb": 1, "rbm": 1, "cr": 0, "or": 0, "vr": 0, "dr": 0,
         "fr": 0, "frb": 1, "frbm": 1, "pr": 1, "xr": 0, "nx": 1}
SENDER_OPS = {"ts", "sd", "tsb", "sb", "tsbm", "sbm", "cs", "os", "vs", "ds", "fs", "fsb", "fsbm"}
RECV_OPS = {"tr", "rc", "rt", "trb", "trbm", "rb", "rbm", "cr", "or", "vr", "dr", "fr", "frb", "frbm", "nx"}
ALLOC1 = {"ts", "sd", "fs"}
ALLOCN = {"tsb", "sb", "tsbm", "sbm", "fsb", "fsbm"}
CAPS = [1, 2, 3, 4, 5, 7, 8]
TEARDOWN = [["xs"], ["xr"], ["ds"], ["dr"]]


class Mirror:
    """length-level bookkeeping used ONLY to steer the generator (which blocking forms are safe,
    which ops are interesting).  It is not an oracle: the model and the monitor judge."""

    def __init__(self, cap, kind, cfg):
        self.cap, self.len = cap, 0
        self.sk = self.rk = kind
        self.sl = self.rl = True          # handle alive
        self.sc = self.rc_ = False        # own closed flag
        self.cdrop = self.pdrop = False
        self.scount = 1
        self.sf = None                    # [kind, remaining]
        self.rf = None                    # [kind, max]
        self.f03, self.fconv = cfg[0] == "1", cfg[1] == "1"

    def free(self):
        return self.cap - self.len

    def s_ok(self):
        return self.sl and self.sf is None

    def r_ok(self):
        return self.rl and self.rf is None

    def safe(self, t, a):
        """would this op return without blocking?"""
        if t in SENDER_OPS and not self.s_ok():
            return True
        if t in RECV_OPS and not self.r_ok():
            return True
        if t == "sd":
            return self.sk != "s" or self.sc or self.cdrop or self.len < self.cap
        if t == "sb":
            return self.sk != "s" or self.cdrop or a <= self.free() or (self.f03 and self.sc)
        if t == "sbm":
            return self.sk != "s" or a == 0 or self.sc or self.cdrop or a <= self.free()
        if t == "rc":
            return self.rk != "s" or self.rc_ or self.len > 0 or self.scount == 0
        if t in ("rb", "rbm"):
            return self.rk != "s" or a == 0 or self.rc_ or self.len > 0 or self.scount == 0
        return True

    def close_s(self):
        self.pdrop = True
        self.scount -= 1

    def apply(self, t, a):
        if t in SENDER_OPS and not self.s_ok():
            return
        if t in RECV_OPS and not self.r_ok():
            return
        sync_only = {"sd", "sb", "sbm", "rc", "rt", "rb", "rbm"}
        async_only = {"fs", "fsb", "fsbm", "fr", "frb", "frbm", "nx"}
        k = self.sk if t in SENDER_OPS else self.rk
        if (t in sync_only and k != "s") or (t in async_only and k != "a"):
            return
        blocked = self.sc or self.cdrop
        if t in ("ts", "sd"):
            if not blocked and self.len < self.cap:
                self.len += 1
        elif t in ("tsb", "tsbm", "sbm"):
            if not blocked:
                self.len += min(a, self.free())
        elif t == "sb":
            if not (self.cdrop or (self.f03 and self.sc)):
                self.len += min(a, self.free())
        elif t == "cs":
            if not self.sc:
                self.sc = True
                self.close_s()
        elif t == "vs":
            self.sk = "a" if self.sk == "s" else "s"
            if not self.fconv:
                self.sc = False
        elif t == "ds":
            if not self.sc:
                self.close_s()
            self.sl = False
            if not self.rl:
                self.len = 0
        elif t in ("fs", "fsb", "fsbm"):
            self.sf = [t, 1 if t == "fs" else a]
        elif t == "ps":
            if self.sf is None or not self.sl:
                return
            if self.sf[1] == 0 or blocked:
                self.sf = None
                return
            kk = min(self.sf[1], self.free())
            self.len += kk
            self.sf[1] -= kk
            if self.sf[1] == 0:
                self.sf = None
        elif t == "xs":
            self.sf = None
        elif t in ("tr", "rc", "rt", "nx"):
            if not self.rc_ and self.len > 0:
                self.len -= 1
        elif t in ("trb", "trbm", "rb", "rbm"):
            if not self.rc_ and a > 0:
                self.len -= min(a, self.len)
        elif t == "cr":
            self.rc_ = True
            self.cdrop = True
        elif t == "vr":
            self.rk = "a" if self.rk == "s" else "s"
            if not self.fconv:
                self.rc_ = False
        elif t == "dr":
            self.cdrop = True
            self.rl = False
            if not self.sl:
                self.len = 0
        elif t in ("fr", "frb", "frbm"):
            self.rf = [t, 1 if t == "fr" else a]
        elif t == "pr":
            if self.rf is None or not self.rl:
                return
            if self.rf[0] != "fr" and self.rf[1] == 0:
                self.rf = None
            elif self.rc_:
                self.rf = None
            elif self.len > 0:
                self.len -= min(self.rf[1], self.len)
                self.rf = None
            elif self.scount == 0 or (self.rf[0] != "fr" and self.pdrop):
                self.rf = None
        elif t == "xr":
            self.rf = None


def parse_group(g):
    """'<result tokens> [w:1,2] [d:3]' -> (result str, [wakes], [drops])"""
    toks = g.split()
    w, d, r = [], [], []
    for t in toks:
        if t.startswith("w:"):
            w = [int(x) for x in t[2:].split(",") if x]
        elif t.startswith("d:"):
            d = [int(x) for x in t[2:].split(",") if x]
        else:
            r.append(t)
    return " ".join(r), w, d


def idlist(s):
    s = s.strip()
    if not (s.startswith("[") and s.endswith("]")):
        return None
    return [int(x) for x in s[1:-1].split(",") if x]


class SpscEngine(Engine):
    model_file = "Chan/SpscOps.v"
    exe = "spsc"
    name = "spsc"

    def n_cases(self, tier):
        return 1000 if tier == "quick" else 60000

    # ------------------------------------------------------------------ cases
    def corpus(self):
        c = CFG
        return [
            "2 s %s cs sb 2 tr tr tr" % c,                                  # F-03-spsc
            "2 s %s cs vs ts tr cs ds tr" % c,                              # F-07-spsc (sender)
            "2 s %s ts cr vr tr cr" % c,                                    # F-07-spsc (receiver)
            "2 a %s nx 1 fr pr 2 xr ts nx 1" % c,                           # superseded Stream waker
            "3 s %s ts ts ts ts tr ts tr tr tr tr ts tr os or" % c,          # wrap on a non-power-of-two ring
            "1 a %s fs ps 0 fs ps 1 tr ps 1 tr tr" % c,
            "2 a %s fsb 5 ps 0 trb 1 ps 0 trb 9 ps 0 trb 9" % c,
            "2 a %s fsbm 3 ps 0 xs trbm 5" % c,
            "2 a %s fr pr 0 ts pr 0 fr pr 1 ds pr 1" % c,
            "2 a %s frb 3 pr 0 tsb 2 pr 0 frbm 2 pr 1 cs pr 1" % c,
            "2 s %s ts ts ds tr dr" % c,
            "2 s %s ts ts dr ts sd tsb 2 sb 2 tsbm 2 sbm 2 ds" % c,
            "2 s %s cs ts sd tsb 2 tsbm 2 sbm 2 sb 0 tsb 0 cs os" % c,
            "2 a %s cs ts tsb 2 tsbm 2 fs ps 0 fsb 2 ps 0 fsbm 2 ps 0 cs" % c,
            "2 s %s ts cr tr rc rt trb 2 trbm 2 rb 2 rbm 2 trb 0 cr or" % c,
            "2 a %s ts cr tr trb 2 fr pr 0 frb 2 pr 0 frbm 2 pr 0 nx 0 cr" % c,
            "1 a %s fs ps 0 fs ps 0 dr ps 0" % c,
            "1 a %s ts fs ps 2 cr ps 2" % c,
            "3 a %s nx 0 ts nx 0 nx 0 vr tr vr nx 1 ds nx 1" % c,
        ]

    def gen(self, rng, tier):
        cap = rng.pick(CAPS)
        kind = rng.pick(["s", "a"])
        m = Mirror(cap, kind, CFG)
        ops = []

        def emit(t, a=None):
            if not m.safe(t, a or 0):
                return False
            ops.append([t] if ARITY[t] == 0 else [t, str(a)])
            m.apply(t, a or 0)
            return True

        def num():
            return rng.pick([0, 1, 1, 2, 2, 3, cap, cap, cap + 1, max(cap - 1, 1), 2 * cap + 1])

        style = rng.weighted([("mix", 50), ("closed-forms", 20), ("futures", 20), ("stream", 10)])
        n = rng.pick([3, 5, 8, 12, 20, 30, 45, 60])

        def random_op():
            w = rng.below(4)
            cands = [("ts", 12), ("tr", 12), ("tsb", 5), ("trb", 5), ("tsbm", 3), ("trbm", 3),
                     ("os", 2), ("or", 2), ("vs", 2), ("vr", 2), ("cs", 1), ("cr", 1), ("ds", 1), ("dr", 1)]
            if m.sk == "s":
                cands += [("sd", 6), ("sb", 4), ("sbm", 3)]
            else:
                cands += [("fs", 5), ("fsb", 4), ("fsbm", 3)]
            if m.rk == "s":
                cands += [("rc", 6), ("rt", 3), ("rb", 3), ("rbm", 3)]
            else:
                cands += [("fr", 5), ("frb", 3), ("frbm", 3), ("nx", 4)]
            if m.sf is not None:
                cands += [("ps", 14), ("xs", 3)]
            if m.rf is not None:
                cands += [("pr", 14), ("xr", 3)]
            if rng.chance(1, 12):   # malformed stream: wrong flavour, missing future, gone handle
                cands = [(t, 1) for t in ARITY]
            t = rng.weighted(cands)
            a = w if t in ("ps", "pr", "nx") else (num() if ARITY[t] else None)
            emit(t, a)

        if style == "closed-forms":
            for _ in range(rng.below(6)):
                random_op()
            side = rng.pick(["s", "r"])
            how = rng.pick(["close", "close", "close+conv", "peer-drop", "peer-close", "close+conv+conv"])
            if side == "s":
                pre = {"close": ["cs"], "close+conv": ["cs", "vs"], "close+conv+conv": ["cs", "vs", "vs"],
                       "peer-drop": ["dr"], "peer-close": ["cr"]}[how]
                forms = ["ts", "sd", "tsb", "sb", "tsbm", "sbm", "fs", "fsb", "fsbm", "cs", "os", "tsb0", "sb0"]
            else:
                pre = {"close": ["cr"], "close+conv": ["cr", "vr"], "close+conv+conv": ["cr", "vr", "vr"],
                       "peer-drop": ["ds"], "peer-close": ["cs"]}[how]
                forms = ["tr", "rc", "rt", "trb", "trbm", "rb", "rbm", "fr", "frb", "frbm", "nx", "cr", "or", "trb0"]
            for t in pre:
                emit(t)
            for _ in range(len(forms)):           # a seeded shuffle
                i, j = rng.below(len(forms)), rng.below(len(forms))
                forms[i], forms[j] = forms[j], forms[i]
            for f in forms:
                if f.endswith("0"):
                    emit(f[:-1], 0)
                elif f in ("fs", "fsb", "fsbm", "fr", "frb", "frbm"):
                    if emit(f, rng.pick([1, 2, cap]) if ARITY[f] else None):
                        p = "ps" if f[1] == "s" else "pr"
                        emit(p, rng.below(4))
                        if rng.chance(1, 2):
                            emit(p, rng.below(4))
                        emit("xs" if p == "ps" else "xr")
                elif f == "nx":
                    emit(f, rng.below(4))
                else:
                    emit(f, rng.pick([1, 2, cap]) if ARITY[f] else None)
                if rng.chance(1, 4):
                    emit(rng.pick(["tr", "ts", "or", "os", "trb", "tsb"]), 2)
            for _ in range(rng.below(8)):
                random_op()
        elif style == "futures" or style == "stream":
            if m.sk == "s" and rng.chance(3, 4):
                emit("vs")
            if m.rk == "s" and rng.chance(3, 4):
                emit("vr")
            for _ in range(n):
                r = rng.below(100)
                if style == "stream" and r < 25:
                    emit("nx", rng.below(3))
                elif r < 45 and (m.sf is not None or m.rf is not None):
                    if m.sf is not None and (m.rf is None or rng.chance(1, 2)):
                        emit("ps", rng.below(3))
                    else:
                        emit("pr", rng.below(3))
                elif r < 60:
                    emit(rng.pick(["fs", "fsb", "fsbm", "fr", "frb", "frbm"]), num())
                elif r < 70:
                    emit(rng.pick(["xs", "xr"]))
                else:
                    random_op()
        else:
            for _ in range(n):
                random_op()
        # explicit teardown in a random order for about half of the cases (the rest use the implicit one)
        if rng.chance(1, 2):
            td = ["xs", "xr", "ds", "dr", "cs", "cr"]
            for _ in range(6):
                i, j = rng.below(6), rng.below(6)
                td[i], td[j] = td[j], td[i]
            for t in td[:rng.below(7)]:
                emit(t)
        return " ".join([str(cap), kind, CFG] + [x for op in ops for x in op])

    def split(self, line):
        t = line.split()
        hdr, ops, i = t[:3], [], 3
        while i < len(t):
            k = ARITY.get(t[i], 0)
            ops.append(t[i:i + 1 + k])
            i += 1 + k
        return hdr, ops

    def canon(self, out):
        gs = [g.strip() for g in out.split(";")]
        res = []
        for g in gs:
            if g.startswith("HANG") or g.startswith("WOULDBLOCK"):
                res.append("BLOCK")
                break
            res.append(g)
        return " ; ".join(res)

    def nontrivial(self, line, out):
        return len(self.split(line)[1]) >= 3

    # ---------------------------------------------------------------- monitor
    def monitor(self, line, out):
        """C01/C02/C03/C04/C06/C09 clauses judged from the implementation's outputs only."""
        hdr, ops = self.split(line)
        cap = int(hdr[0])
        groups = [g.strip() for g in out.split(";")] if out.strip() else []
        allops = ops + TEARDOWN
        hits = []

        def hit(clause, detail):
            if not any(c == clause for c, _ in hits):
                hits.append((clause, detail))

        nxt = 0
        fate = {}            # id -> 'held' | 'acc' | 'recv' | 'ret' | 'drop'
        acc = []             # accepted, not yet received, in order
        maybe = []           # ids inside a pending batch future that may already be in the ring
        got_any_disc = False
        s_closed = r_closed = False     # close() returned ok on this endpoint (sticky across conversions)
        s_gone = r_gone = False
        s_kind = r_kind = hdr[1]
        taint_s = taint_r = False       # a closed handle was converted (F-07-spsc)
        f03 = False                     # sync send_batch accepted on a closed handle (F-03-spsc)
        sfut = None          # dict(kind, ids, pend waker or None, woken)
        rfut = None
        stream = None        # dict(w, woken, superseded)
        ended = False
        ever_w = set()       # wakers ever registered by a Pending poll (stale registrations may still be woken)

        def c04(kind, detail, side):
            if f03 and kind in ("value-after-disc", "closed-handle-accepts"):
                hit("C04:send_batch-ignores-closed", detail)
            elif (taint_s and side in "sb") or (taint_r and side in "rb"):
                hit("C04:conversion-forgets-closed", kind + ": " + detail)
            else:
                hit("C04:" + kind, detail)

        def accept(ids_):
            for x in ids_:
                fate[x] = "acc"
                acc.append(x)

        def give_back(ids_, expect, what):
            if ids_ != expect:
                hit("C01:failed-op-effect", "%s handed back %r, expected %r" % (what, ids_, expect))
            for x in expect:
                fate[x] = "ret"

        def receive(vals, what):
            nonlocal maybe
            for v in vals:
                st = fate.get(v)
                if st is None:
                    hit("C01:phantom", "%s returned id %d that was never sent" % (what, v))
                    continue
                if st == "recv":
                    hit("C01:dup", "%s returned id %d a second time" % (what, v))
                    continue
                if st in ("ret", "drop"):
                    hit("C01:failed-op-effect", "%s returned id %d whose send failed / that was already dropped" % (what, v))
                    continue
                if acc:
                    if acc[0] != v:
                        hit("C02:order", "%s returned %d, the oldest undelivered accepted id is %d" % (what, v, acc[0]))
                        if v in acc:
                            acc.remove(v)
                        elif v in maybe:
                            maybe.remove(v)
                    else:
                        acc.pop(0)
                elif maybe:
                    if maybe[0] != v:
                        hit("C02:order", "%s returned %d out of batch order (expected %d)" % (what, v, maybe[0]))
                        if v in maybe:
                            maybe.remove(v)
                    else:
                        maybe.pop(0)
                else:
                    hit("C01:phantom", "%s returned id %d that was not in the channel" % (what, v))
                fate[v] = "recv"
            if vals and got_any_disc:
                c04("value-after-disc", "%s returned %r after a receive had reported Disconnected" % (what, vals), "b")
            if vals and r_closed:
                c04("closed-handle-accepts", "%s returned %r on a receiver whose close() had returned Ok" % (what, vals), "r")

        def senders_gone():
            return s_closed or s_gone

        def enable_sender():
            # space appeared / receiver left: a pending send-side future must have been woken
            if sfut and sfut["pend"] is not None and not sfut["woken"]:
                hit("C06:missed-wake", "sender future pending with waker %d became able to complete without a wake" % sfut["pend"])

        def enable_receiver():
            if rfut and rfut["pend"] is not None and not rfut["woken"]:
                hit("C06:missed-wake", "receive future pending with waker %d became able to complete without a wake" % rfut["pend"])
            if stream and not stream["woken"]:
                if stream["superseded"]:
                    hit("C06:stream-waker-superseded",
                        "Stream poll_next pending with waker %d not woken (a later recv future on the same receiver replaced and then cleared the registration)" % stream["w"])
                else:
                    hit("C06:missed-wake", "Stream poll_next pending with waker %d became able to complete without a wake" % stream["w"])

        for idx, op in enumerate(allops):
            if idx >= len(groups):
                break
            t = op[0]
            a = int(op[1]) if len(op) > 1 else 0
            res, wakes, drops = parse_group(groups[idx])
            what = "%s#%d" % (" ".join(op), idx)
            if res.startswith("PANIC"):
                hit("panic", what + " panicked")
                ended = True
                break
            if res.startswith("HANG") or res.startswith("WOULDBLOCK") or res == "BLOCK":
                ended = True
                break
            if "mismatch" in res or "err-with-values" in res or "dropped-future-left-values" in res or res.startswith("BAD"):
                hit("C01:failed-op-effect", "%s -> %s" % (what, res))
            rt = res.split()
            r0 = rt[0] if rt else ""
            gated = r0 in ("gone", "busy", "na", "nofut")
            # ---- id allocation mirrors the drivers
            mine = []
            if not gated:
                if t in ALLOC1:
                    mine = [nxt]
                elif t in ALLOCN:
                    mine = list(range(nxt, nxt + a))
            nxt += len(mine)
            for x in mine:
                fate[x] = "held"
            # ---- wakes
            for w in wakes:
                ok = False
                if sfut and sfut["pend"] == w:
                    sfut["woken"] = True
                    ok = True
                if rfut and rfut["pend"] == w:
                    rfut["woken"] = True
                    ok = True
                if stream and stream["w"] == w:
                    stream["woken"] = True
                    ok = True
                if not ok and w not in ever_w:
                    hit("C06:wake-unknown-waker", "%s woke waker %d which no pending future registered" % (what, w))
            # ---- drops performed by library code
            for x in drops:
                st = fate.get(x)
                if st is None:
                    hit("C09:double-drop", "%s dropped unknown id %d" % (what, x))
                elif st in ("drop", "recv", "ret"):
                    hit("C09:double-drop", "%s dropped id %d whose fate was already '%s'" % (what, x, st))
                else:
                    if x in acc:
                        acc.remove(x)
                    if x in maybe:
                        maybe.remove(x)
                fate[x] = "drop"
            if gated:
                if t in SENDER_OPS and r0 == "gone" and not s_gone:
                    hit("C04:closed-handle-accepts", what + " answered gone on a live handle")
                continue
            qlen = len(acc)      # exact whenever no batch future is pending
            # ================= sender forms
            if t in ("ts", "sd", "tsb", "sb", "tsbm", "sbm"):
                rx_left = r_closed or r_gone
                accepted_now = []
                if t == "ts":
                    if r0 == "ok":
                        accepted_now = mine
                    elif r0 in ("full", "closed", "sent"):
                        give_back([int(rt[1])], mine, what)
                    else:
                        hit("C01:failed-op-effect", what + " -> " + res)
                    must_ok = qlen < cap and not s_closed and not rx_left
                    if (r0 == "ok") != must_ok and not maybe:
                        if r0 == "ok" and s_closed:
                            pass    # reported below as closed-handle-accepts
                        elif r0 == "ok" and rx_left:
                            pass    # reported below as send-after-last-rx
                        elif taint_s or taint_r:
                            pass    # consequences of F-07-spsc are judged by the C04 clauses
                        else:
                            hit("C03:try-send-wrong", "%s -> %s with len=%d cap=%d closed=%s receiver-left=%s" % (what, res, qlen, cap, s_closed, rx_left))
                    if r0 == "full" and qlen < cap and not maybe:
                        hit("C03:try-send-wrong", "%s reported Full with len=%d < cap=%d" % (what, qlen, cap))
                elif t == "sd":
                    if r0 == "ok":
                        accepted_now = mine
                    elif r0 == "closed":
                        if drops != mine:
                            hit("C09:leak", "%s returned Closed but its value was not dropped (drops=%r)" % (what, drops))
                    else:
                        hit("C01:failed-op-effect", what + " -> " + res)
                elif t in ("tsb", "sb"):
                    if r0 == "ok":
                        k = int(rt[1])
                        if k != len(mine):
                            hit("C01:failed-op-effect", "%s reported Ok(%d) for %d items" % (what, k, len(mine)))
                        accepted_now = mine
                    elif r0 in ("tberr", "berr"):
                        k = int(rt[1])
                        uns = idlist(rt[2])
                        accepted_now = mine[:k]
                        give_back(uns, mine[k:], what)
                        if r0 == "tberr" and rt[3] == "full" and qlen + k < cap and not maybe:
                            hit("C03:try-send-wrong", "%s reported Full with room left (len=%d cap=%d)" % (what, qlen + k, cap))
                    else:
                        hit("C01:failed-op-effect", what + " -> " + res)
                else:   # tsbm sbm
                    if r0 == "mok":
                        k = int(rt[1])
                        rest = idlist(rt[2])
                        accepted_now = mine[:k]
                        give_back(rest, mine[k:], what)
                    elif r0 == "mclosed":
                        give_back(idlist(rt[1]), mine, what)
                    else:
                        hit("C01:failed-op-effect", what + " -> " + res)
                if accepted_now:
                    if rx_left:
                        c04("send-after-last-rx", "%s accepted %r after the receiver was closed/dropped" % (what, accepted_now), "b")
                    if s_closed:
                        if t == "sb" and not taint_s:
                            f03 = True
                        c04("closed-handle-accepts", "%s accepted %r on a sender whose close() had returned Ok" % (what, accepted_now), "s")
                    if qlen + len(accepted_now) > cap and not maybe:
                        hit("C03:len-over-cap", "%s: %d values buffered, capacity %d" % (what, qlen + len(accepted_now), cap))
                    accept(accepted_now)
                    enable_receiver()
                elif mine and (s_closed or rx_left) and r0 not in ("closed", "tberr", "berr", "mclosed"):
                    c04("closed-handle-accepts", "%s -> %s on a closed/disconnected sender" % (what, res), "s")
            elif t == "cs":
                if r0 == "ok":
                    if s_closed:
                        c04("double-close", what + " returned Ok on an already closed sender", "s")
                    s_closed = True
                    enable_receiver()
                elif r0 == "closeerr":
                    if not s_closed:
                        c04("double-close", what + " returned CloseError on a sender that was never closed", "s")
            elif t == "cr":
                if r0 == "ok":
                    if r_closed:
                        c04("double-close", what + " returned Ok on an already closed receiver", "r")
                    r_closed = True
                    enable_sender()
                elif r0 == "closeerr":
                    if not r_closed:
                        c04("double-close", what + " returned CloseError on a receiver that was never closed", "r")
            elif t in ("os", "or"):
                if r0 == "obs":
                    ln, e, f, c, k = int(rt[1]), rt[2] == "1", rt[3] == "1", rt[4] == "1", int(rt[5])
                    if ln > k or k != cap:
                        hit("C03:len-over-cap", "%s: len()=%d capacity()=%d (requested %d)" % (what, ln, k, cap))
                    if not maybe and ln != len(acc):
                        hit("C03:len-over-cap", "%s: len()=%d but %d values are buffered" % (what, ln, len(acc)))
                    if e != (ln == 0) or f != (ln >= k):
                        hit("C03:len-over-cap", "%s: is_empty/is_full inconsistent with len: %s" % (what, res))
            elif t == "vs":
                s_kind = "a" if s_kind == "s" else "s"
                if s_closed:
                    taint_s = True
            elif t == "vr":
                r_kind = "a" if r_kind == "s" else "s"
                if r_closed:
                    taint_r = True
                stream = None
            elif t == "ds":
                was = s_closed
                s_gone = True
                if not was:
                    enable_receiver()
            elif t == "dr":
                was = r_closed
                r_gone = True
                stream = None
                if not was:
                    enable_sender()
            elif t in ("fs", "fsb", "fsbm"):
                sfut = {"kind": t, "ids": mine, "pend": None, "woken": False}
            elif t == "ps":
                if sfut is None:
                    hit("C06:cancel-loses", what + " polled a future the driver does not know")
                    continue
                k, held = sfut["kind"], sfut["ids"]
                rx_left = r_closed or r_gone
                if r0 == "pending":
                    sfut["pend"], sfut["woken"] = a, False
                    ever_w.add(a)
                    if k != "fs":
                        maybe = [x for x in held if fate.get(x) == "held"]
                else:
                    done_acc = []
                    if k == "fs":
                        if r0 == "ok":
                            done_acc = held
                        elif r0 == "closed":
                            if drops != held:
                                hit("C09:leak", "%s resolved Closed but its value was not dropped" % what)
                        else:
                            hit("C01:failed-op-effect", what + " -> " + res)
                    elif k == "fsb":
                        if r0 == "ok":
                            if int(rt[1]) != len(held):
                                hit("C01:failed-op-effect", "%s resolved Ok(%s) for %d items" % (what, rt[1], len(held)))
                            done_acc = held
                        elif r0 == "berr":
                            kk = int(rt[1])
                            done_acc = held[:kk]
                            give_back(idlist(rt[2]), held[kk:], what)
                        else:
                            hit("C01:failed-op-effect", what + " -> " + res)
                    else:
                        if r0 == "mok":
                            kk = int(rt[1])
                            rest = idlist(rt[2])
                            done_acc = held[:kk]
                            give_back(rest, held[kk:], what)
                        elif r0 == "mclosed":
                            rest = idlist(rt[1])
                            done_acc = held[:len(held) - len(rest)]
                            give_back(rest, held[len(held) - len(rest):], what)
                        else:
                            hit("C01:failed-op-effect", what + " -> " + res)
                    # ids that were possibly accepted earlier are now known
                    newly = [x for x in done_acc if fate.get(x) == "held"]
                    if newly and (s_closed or rx_left):
                        # accepted before the close? only ids pushed by THIS poll count; be conservative:
                        if not maybe:
                            c04("closed-handle-accepts" if s_closed else "send-after-last-rx",
                                "%s accepted %r on a closed/disconnected sender" % (what, newly), "s")
                    for x in newly:
                        fate[x] = "acc"
                        acc.append(x)
                    acc.sort()
                    maybe = []
                    if len(acc) > cap:
                        hit("C03:len-over-cap", "%s: %d values buffered, capacity %d" % (what, len(acc), cap))
                    sfut = None
                    if newly:
                        enable_receiver()
            elif t == "xs":
                if sfut is not None:
                    k, held = sfut["kind"], sfut["ids"]
                    if k == "fsbm":
                        rest = idlist(rt[1]) if r0 == "rest" else []
                        kk = len(held) - len(rest)
                        give_back(rest, held[kk:], what)
                    # whatever the future still held and was neither dropped nor handed back went into the ring
                    newly = [x for x in held if fate.get(x) == "held"]
                    for x in newly:
                        fate[x] = "acc"
                        acc.append(x)
                    acc.sort()
                    maybe = []
                    sfut = None
                    if newly:
                        enable_receiver()
            # ================= receiver forms
            elif t in ("tr", "rc", "rt", "trb", "trbm", "rb", "rbm", "pr", "nx"):
                if t == "pr" and rfut is None:
                    continue
                vals = []
                if r0 == "v":
                    vals = [int(rt[1])]
                elif r0 == "vs":
                    vals = idlist(rt[1])
                if vals:
                    receive(vals, what)
                    enable_sender()
                    mx = 1 if t in ("tr", "rc", "rt", "nx") or (t == "pr" and rfut["kind"] == "fr") else (a if t != "pr" else rfut["max"])
                    if len(vals) > mx:
                        hit("C01:failed-op-effect", "%s returned %d values, max %d" % (what, len(vals), mx))
                elif r0 in ("disc", "none"):
                    if not r_closed and (acc or maybe):
                        if not senders_gone():
                            c04("disc-before-drain", "%s reported Disconnected while a sender is alive" % what, "s")
                        else:
                            c04("disc-before-drain", "%s reported Disconnected with %r still buffered" % (what, acc + maybe), "s")
                    elif not r_closed and not senders_gone():
                        c04("disc-before-drain", "%s reported Disconnected while a sender is alive" % what, "s")
                    got_any_disc = True
                elif r0 in ("empty", "timeout", "pending"):
                    zero = t in ("trb", "trbm", "rb", "rbm") and a == 0
                    if r_closed and not zero:
                        c04("closed-handle-accepts", "%s -> %s on a receiver whose close() had returned Ok" % (what, res), "r")
                    elif senders_gone() and not acc and not maybe and not zero:
                        c04("disc-missing", "%s -> %s although every sender is closed/dropped and the channel is drained" % (what, res), "s")
                    elif acc and not maybe and not zero and not r_closed:
                        hit("C01:lost", "%s -> %s although %r are buffered" % (what, res, acc))
                if t == "pr":
                    if r0 == "pending":
                        rfut["pend"], rfut["woken"] = a, False
                        ever_w.add(a)
                        if stream:
                            stream["superseded"] = True
                    else:
                        rfut = None
                if t == "nx":
                    if r0 == "pending":
                        stream = {"w": a, "woken": False, "superseded": False}
                        ever_w.add(a)
                    else:
                        stream = None
            elif t in ("fr", "frb", "frbm"):
                rfut = {"kind": t, "max": a, "pend": None, "woken": False}
            elif t == "xr":
                rfut = None
        # ---- end of case: every id has exactly one fate once both handles are gone
        if not ended and len(groups) >= len(allops):
            for x in range(nxt):
                st = fate.get(x)
                if st in ("held", "acc"):
                    hit("C09:leak", "id %d (%s) was neither received, handed back nor dropped after all handles and futures were gone" % (x, st))
        return hits


ENG = SpscEngine()

_INFO = {"name": "E-CHANOPS-spsc",
         "path": "coq/Chan/SpscOps.v, coq/Proofs/SpscOpsProofs.v, coq/Props/C0x_spsc.v, ocaml/eng_spsc.ml, harness/seqdrv/src/bin/spsc.rs, vlib/engines_spsc.py",
         "kind": "K2 op-level model of the bounded SPSC channel (sync+async handles, futures, Stream, conversions); "
                 "theorems for all op/poll/drop histories by invariant; D1 differential tie + property monitors"}
_ASSUME = [
    "spsc K2: one API call / poll / drop is one atomic step (sequential histories); the schedule quantifier is the K3 ring engine's",
    "spsc K2: Ring (cached indices, power-of-two physical buffer, logical cap) abstracted to a list; tied by D1 on caps {1,2,3,4,5,7,8} with wrap-around",
    "spsc K2: sender_count/receiver_count modelled on Z (usize wrap of 0-1 is 'non-zero' in both); fewer than 2^64 ops",
    "spsc K2: blocking sync forms are modelled only where they return without parking (otherwise WOULDBLOCK, never executed on the real code); recv_timeout only with a zero timeout",
    "spsc K2: a future is dropped as soon as it resolves; while a future borrows a handle no other op touches the handle (borrow rules)",
]
_W_F03 = (ENG, "2 s %s cs sb 2 tr tr tr" % CFG, "C04:send_batch-ignores-closed")
_W_F07 = (ENG, "2 s %s cs vs ts tr cs ds tr" % CFG, "C04:conversion-forgets-closed")
_W_STREAM = (ENG, "2 a %s nx 1 fr pr 2 xr ts nx 1" % CFG, "C06:stream-waker-superseded")

PROPS = {
    "C01": {"engines": [ENG], "witness": {}, "assumptions": _ASSUME, "engine_info": _INFO,
            "covers": "spsc bounded (K2, all sync/async/batch/_mut/timed forms + conversions): conservation of ids, received NoDup and subset of accepted, failed ops have no effect and hand back their input"},
    "C02": {"engines": [ENG], "witness": {}, "assumptions": _ASSUME, "engine_info": _INFO,
            "covers": "spsc bounded (K2): accepted = received ++ buffered ++ drained for every history (FIFO refinement, batches keep order)"},
    "C03": {"engines": [ENG], "witness": {}, "assumptions": _ASSUME, "engine_info": _INFO,
            "covers": "spsc bounded (K2): len <= logical capacity always; try_send Ok iff len < cap and not closed/disconnected; observers exact"},
    "C04": {"engines": [ENG], "witness": {"F-03-spsc": _W_F03, "F-07-spsc": _W_F07}, "assumptions": _ASSUME, "engine_info": _INFO,
            "covers": "spsc bounded (K2): drain-then-Disconnected, no value after Disconnected, Closed hands the value back, closed handle rejects every form, close idempotent - full for the post-fix model, refuted on the code as it is by F-03-spsc (send_batch ignores closed) and F-07-spsc (to_sync/to_async forget closed) with _except_ theorems"},
    "C06": {"engines": [ENG], "witness": {"F-33-spsc": _W_STREAM}, "assumptions": _ASSUME, "engine_info": _INFO,
            "covers": "spsc bounded futures + Stream (K2): a pending poll is woken when it becomes able to complete, no registration outlives its future, future drops preserve conservation/order; strict per-poll form refuted for a Stream poll superseded by a recv future (F-33-spsc)"},
    "C09": {"engines": [ENG], "witness": {}, "assumptions": _ASSUME, "engine_info": _INFO,
            "covers": "spsc bounded (K2): after any teardown order every id is exactly one of received / handed back / dropped; drop log of the real payloads compared op by op"},
}
