"""E-CHANOPS-rv: D1 engines for fibre's rendezvous (capacity 0) channels
(spsc/mpsc/mpmc ::rendezvous over internal/rendezvous.rs).

Case line:   <spsc|mpsc|mpmc> <s|a> <fixmask> op*
  ops:       ts H V | s H V | tr H | r H | rt H | cl H | dh H | cn H H2 | cv H | ob H
             | ms F H V | mr F H | p F W | df F
Output line: per op "<result>[ w<waker>]*[ d<payload>]*" joined by " ; "

Three pieces live here:
  Sim      a faithful, cheap re-implementation of what the code does, used ONLY by the generator to
           keep cases mostly valid and to issue blocking calls only where they complete;
  Ref      the property monitor: an independent reference of what the properties C01-C04, C06, C09
           require, judged on the implementation's outputs alone (never on the model);
  RvEngine the flow.Engine subclass (one per flavour).
"""
import copy
import os
import re
from .flow import Engine

# Which of the proposed fixes the code under /repo currently has.  The model is run with the same
# switches (fix_conv, fix_fut, fix_clone in coq/Chan/Rendezvous.v).  Flip after applying a patch
# from docs/rv.md.
FIX_CONV = True     # F-07: to_sync/to_async carry the closed flag
FIX_FUT = True      # F-35: futures test the handle's closed flag
FIX_CLONE = True    # F-34: clone of a closed handle is closed
# (for trying a patched scratch copy together with VERIF_REPO: VERIF_RV_FIXMASK=111)
_m = os.environ.get("VERIF_RV_FIXMASK")
if _m and re.fullmatch(r"[01]{3}", _m):
    FIX_CONV, FIX_FUT, FIX_CLONE = (ch == "1" for ch in _m)
FIXMASK = "".join("1" if b else "0" for b in (FIX_CONV, FIX_FUT, FIX_CLONE))

ARITY = {"ts": 3, "s": 3, "tr": 2, "r": 2, "rt": 2, "cl": 2, "dh": 2, "cn": 3, "cv": 2, "ob": 2,
         "ms": 4, "mr": 3, "p": 3, "df": 2}
FLAV = {"spsc": (False, False, False), "mpsc": (False, True, False), "mpmc": (True, True, True)}


def split_ops(toks):
    ops, i = [], 0
    while i < len(toks):
        k = ARITY.get(toks[i])
        if k is None:
            raise ValueError("bad op token %r" % toks[i])
        ops.append(toks[i:i + k])
        i += k
    return ops


# ----------------------------------------------------------------------------------------------
# Sim: what the code does (generator bookkeeping only)
class Sim:
    def __init__(self, fl, is_async, mask=FIXMASK):
        self.multi, self.txc, self.rxc = FLAV[fl]
        self.fix_conv, self.fix_fut, self.fix_clone = (c == "1" for c in mask)
        self.hs = {0: ["T", is_async, False], 1: ["R", is_async, False]}
        self.fs = {}     # f -> dict(side, h, cell, st, reg)
        self.sq, self.rq = [], []
        self.sc = self.rc = 1

    def borrowed(self, h):
        return any(f["h"] == h for f in self.fs.values())

    def _drop_side(self, side):
        if side == "T":
            if self.sc == 0:
                return "PANIC"
            self.sc -= 1
            if self.sc == 0:
                for f in self.rq:
                    self.fs[f]["st"] = "DISC"
                self.rq = []
        else:
            if self.rc == 0:
                return "PANIC"
            self.rc -= 1
            if self.rc == 0:
                for f in self.sq:
                    self.fs[f]["st"] = "DISC"
                self.sq = []
        return "ok"

    def _send(self, v, blocking):
        if self.rc == 0:
            return "closed"
        if self.rq:
            g = self.rq.pop(0)
            self.fs[g]["cell"] = v
            self.fs[g]["st"] = "DONE"
            return "ok"
        return "block" if blocking else "full"

    def _take(self):
        g = self.sq.pop(0)
        v = self.fs[g]["cell"]
        self.fs[g]["cell"] = None
        self.fs[g]["st"] = "DONE"
        return v

    def _recv(self, kind):
        if self.sq:
            self._take()
            return "val"
        if self.sc == 0:
            return "disc"
        if kind == "tr":
            return "empty"
        if kind == "r":
            return "block"
        if not self.multi:
            self.rq = []
        return "timeout"

    def step(self, op):
        k = op[0]
        a = [int(x) for x in op[1:]]
        hs, fs = self.hs, self.fs
        if k in ("ts", "s"):
            h = hs.get(a[0])
            if not h or h[0] != "T" or (k == "s" and h[1]):
                return "na"
            if h[2]:
                return "closed"
            return self._send(a[1], k == "s")
        if k in ("tr", "r", "rt"):
            h = hs.get(a[0])
            if not h or h[0] != "R" or (k != "tr" and h[1]):
                return "na"
            if h[2]:
                return "disc"
            return self._recv(k)
        if k == "cl":
            h = hs.get(a[0])
            if not h:
                return "na"
            if h[2]:
                return "closeerr"
            h[2] = True
            return self._drop_side(h[0])
        if k == "dh":
            h = hs.get(a[0])
            if not h or self.borrowed(a[0]):
                return "na"
            r = "none"
            if not h[2]:
                h[2] = True
                if self._drop_side(h[0]) == "PANIC":
                    r = "PANIC"
            del hs[a[0]]
            return r
        if k == "cn":
            h = hs.get(a[0])
            if not h or a[1] in hs or not (self.txc if h[0] == "T" else self.rxc):
                return "na"
            if self.fix_clone and h[2]:
                hs[a[1]] = [h[0], h[1], True]
                return "none"
            hs[a[1]] = [h[0], h[1], False]
            if h[0] == "T":
                self.sc += 1
            else:
                self.rc += 1
            return "none"
        if k == "cv":
            h = hs.get(a[0])
            if not h or self.borrowed(a[0]):
                return "na"
            h[1] = not h[1]
            if not self.fix_conv:
                h[2] = False
            return "none"
        if k == "ob":
            return "obs" if a[0] in hs else "na"
        if k in ("ms", "mr"):
            h = hs.get(a[1])
            if not h or h[0] != ("T" if k == "ms" else "R") or not h[1] or a[0] in fs:
                return "na"
            fs[a[0]] = {"side": h[0], "h": a[1], "cell": a[2] if k == "ms" else None, "st": "WAITING", "reg": False}
            return "none"
        if k == "p":
            f = fs.get(a[0])
            if not f:
                return "na"
            if f["side"] == "T":
                if not f["reg"]:
                    if f["cell"] is None:
                        return "rok"
                    if self.fix_fut and hs[f["h"]][2]:
                        return "rclosed"
                    if self.rc == 0:
                        return "rclosed"
                    if self.rq:
                        g = self.rq.pop(0)
                        fs[g]["cell"] = f["cell"]
                        fs[g]["st"] = "DONE"
                        f["cell"] = None
                        return "rok"
                    f["st"], f["reg"] = "WAITING", True
                    self.sq.append(a[0])
                    return "pending"
                if f["st"] == "WAITING":
                    if a[0] in self.sq:
                        return "pending"
                    f["reg"] = False
                    return "rclosed"
                f["reg"] = False
                return "rok" if f["st"] == "DONE" else "rclosed"
            else:
                if f["reg"]:
                    if f["st"] == "WAITING":
                        if a[0] in self.rq:
                            return "pending"
                        f["reg"] = False
                        return "rdisc"
                    f["reg"] = False
                    if f["st"] == "DONE":
                        f["cell"] = None
                        return "rval"
                    return "rdisc"
                if self.fix_fut and hs[f["h"]][2]:
                    return "rdisc"
                if self.sq:
                    self._take()
                    return "rval"
                if self.sc == 0:
                    return "rdisc"
                f["st"], f["reg"] = "WAITING", True
                if self.multi:
                    self.rq.append(a[0])
                else:
                    self.rq = [a[0]]
                return "pending"
        if k == "df":
            f = fs.get(a[0])
            if not f:
                return "na"
            if f["reg"] and f["st"] == "WAITING":
                q = self.sq if f["side"] == "T" else self.rq
                if a[0] in q:
                    q.remove(a[0])
            del fs[a[0]]
            return "none"
        return "na"


# ----------------------------------------------------------------------------------------------
# Ref: the property monitor.  It replays the case against what the properties require
# (DESIGN.md sec. 8, C01-C04, C06, C09 specialised to capacity 0) and classifies the FIRST deviation
# of the implementation's output into a clause id.  Bookkeeping is its own: open handle sets (closed
# is sticky through conversions and inherited by clones), FIFO queues of parked senders/receivers,
# per-payload location, last waker per parked future.
#
# Shapes of the known findings are recognised syntactically ("taints"), so that a deviation that is a
# consequence of one of them gets that finding's narrow clause id and everything else stays reportable:
#   F07  a handle that is already closed is converted (to_sync/to_async)        -> counts drift
#   F34  a handle that is already closed is cloned                              -> channel revived
#   F35  an unregistered future is polled on a handle that is already closed
#   F33  a second receive is outstanding on a single-slot (spsc/mpsc) store
class Deviation(Exception):
    def __init__(self, clauses, detail):
        Exception.__init__(self, detail)
        self.clauses, self.detail = clauses, detail


PROPS_OF_LIVENESS = ("C04",)


class Ref:
    def __init__(self, fl, is_async):
        self.fl = fl
        self.multi, self.txc, self.rxc = FLAV[fl]
        self.hs = {0: {"side": "T", "async": is_async, "closed": False},
                   1: {"side": "R", "async": is_async, "closed": False}}
        self.fs = {}
        self.psq, self.prq = [], []         # parked send / recv futures, FIFO
        self.loc = {}                       # payload -> ("slot", f) | ("dest", f) | "back" | "recv" | "dropped"
        self.acked = set()
        self.taint = []
        self.saw_disc = set()               # receiver handles / futures' handles that observed Disconnected
        self.hits = []                      # non-fatal deviations so far

    # -- helpers
    def open(self, side):
        return sum(1 for h in self.hs.values() if h["side"] == side and not h["closed"])

    def t(self, name):
        # a repaired finding's shape is harmless: it no longer explains later deviations
        if {"F07": FIX_CONV, "F34": FIX_CLONE, "F35": FIX_FUT}.get(name, False):
            return
        if name not in self.taint:
            self.taint.append(name)

    def liveness(self, generic, detail):
        """a deviation that depends on who is connected / registered: if the shape of a known finding
        occurred earlier in this case, the deviation is attributed to it (first shape wins)"""
        if self.taint:
            name = self.taint[0]
            cl = ["C04:%s" % name] + (["C06:F33"] if name == "F33" else [])
            return Deviation(cl, detail + " (after shape %s)" % name)
        return Deviation([generic] if isinstance(generic, str) else list(generic), detail)

    def closed_dev(self, h, detail):
        """an operation on a handle the reference holds closed did not fail"""
        if h.get("mark"):
            return Deviation(["C04:%s" % h["mark"]], detail + " (handle %s)" % {"F07": "converted after close", "F34": "cloned from a closed handle"}[h["mark"]])
        return Deviation(["C04:closed-handle-accepts"], detail)

    def intro(self, v, where):
        if v in self.loc:
            # the generator never reuses payload ids; a reused id makes per-id accounting meaningless
            raise Deviation(["bad-case"], "payload id %d reused" % v)
        self.loc[v] = where

    def note(self, dev):
        """a deviation after which the bookkeeping can go on (missing wake, payload destroyed or leaked)"""
        self.hits.append(dev)

    def expect_wakes(self, need, wakes, what):
        got = list(wakes)
        for w in need:
            if w in got:
                got.remove(w)
            else:
                self.note(self.liveness("C06:missed-wake", "%s: waker %d not woken (wakes=%r)" % (what, w, wakes)))

    def expect_drops(self, need, drops, opname, recv_future=False):
        for d in drops:
            if d not in need:
                where = self.loc.get(d)
                if where in ("back", "recv", "dropped"):
                    self.note(Deviation(["C09:double-drop"], "%s destroyed payload %d which is already %s" % (opname, d, where)))
                elif recv_future:
                    self.note(Deviation(["C06:F31", "C01:F31"], "%s destroyed payload %d that a sender had already handed off (send acknowledged: %s); it is never received" % (opname, d, d in self.acked)))
                else:
                    self.note(Deviation(["C01:lost", "C09:unexpected-drop"], "%s destroyed payload %d (location %r)" % (opname, d, where)))
        for d in need:
            if d not in drops:
                self.note(Deviation(["C09:leak"], "%s should have destroyed payload %d" % (opname, d)))
        for d in drops:
            self.loc[d] = "dropped"

    def disconnect_receivers(self):
        ws = [self.fs[f]["w"] for f in self.prq]
        for f in self.prq:
            self.fs[f]["phase"] = "disc"
        self.prq = []
        return ws

    def disconnect_senders(self):
        ws = [self.fs[f]["w"] for f in self.psq]
        for f in self.psq:
            self.fs[f]["phase"] = "disc"
        self.psq = []
        return ws

    def handoff_to_parked_receiver(self, v):
        g = self.prq.pop(0)
        self.fs[g]["phase"] = "filled"
        self.fs[g]["cell"] = v
        self.loc[v] = ("dest", g)
        return self.fs[g]["w"]

    def take_from_parked_sender(self):
        g = self.psq.pop(0)
        v = self.fs[g]["cell"]
        self.fs[g]["cell"] = None
        self.fs[g]["phase"] = "taken"
        return v, self.fs[g]["w"]

    def close_side(self, side):
        """an open handle of `side` was just closed/dropped; returns the wakes that must happen"""
        if self.open(side) == 0:
            return self.disconnect_receivers() if side == "T" else self.disconnect_senders()
        return []

    def second_receive(self):
        if not self.multi and self.prq:
            self.t("F33")

    # -- one op
    def step(self, op, res, wakes, drops):
        k = op[0]
        a = [int(x) for x in op[1:]]
        hs, fs = self.hs, self.fs
        rtok = res.split()
        r0 = rtok[0] if rtok else ""
        if r0 == "PANIC":
            if k in ("cl", "dh") and ("F07" in self.taint or "F34" in self.taint):
                raise self.liveness("panic", "%s panicked (count underflow)" % " ".join(op))
            raise Deviation(["panic"], "%s panicked" % " ".join(op))

        def want(exp, clause, detail=None):
            if res != exp:
                d = detail or ("%s: expected `%s`, implementation answered `%s`" % (" ".join(op), exp, res))
                if isinstance(clause, Deviation):
                    raise clause
                raise Deviation([clause], d)

        def na():
            want("na", "bad-output")
            self.expect_drops([], drops, " ".join(op))

        if k in ("ts", "s"):
            h = hs.get(a[0])
            if not h or h["side"] != "T" or (k == "s" and h["async"]):
                return na()
            v = a[1]
            opn = " ".join(op)
            self.intro(v, "hand")
            if r0 in ("full", "closedv") and rtok[1:] != [str(v)]:
                raise Deviation(["C01:failed-op-effect"], "%s handed back `%s` instead of its own payload" % (opn, res))
            closed_tok = "closedv" if k == "ts" else "closed"
            full_tok = "full" if k == "ts" else "block"
            if h["closed"]:
                if r0 != closed_tok:
                    raise self.closed_dev(h, "%s on a handle whose close() returned Ok answered `%s`" % (opn, res))
                exp = closed_tok
            elif self.open("R") == 0:
                if r0 != closed_tok:
                    raise self.liveness("C04:send-after-last-rx", "%s answered `%s` although no receiver handle is open" % (opn, res))
                exp = closed_tok
            elif self.prq:
                if r0 != "ok":
                    if r0 == closed_tok:
                        raise self.liveness("C04:closed-with-live-rx", "%s answered `%s` although a receiver handle is open" % (opn, res))
                    raise self.liveness("C03:try-send-wrong", "%s answered `%s` although a receive is parked" % (opn, res))
                exp = "ok"
            else:
                if r0 != full_tok:
                    if r0 == closed_tok:
                        raise self.liveness("C04:closed-with-live-rx", "%s answered `%s` although a receiver handle is open" % (opn, res))
                    raise self.liveness("C03:try-send-wrong", "%s answered `%s` although no receive is parked" % (opn, res))
                exp = full_tok
            if exp == "ok":
                w = self.handoff_to_parked_receiver(v)
                self.acked.add(v)
                self.expect_wakes([w], wakes, opn)
                self.expect_drops([], drops, opn)
            elif exp in ("full", "closedv", "block"):
                self.loc[v] = "back"
                self.expect_drops([], drops, opn)
            else:   # blocking send failed: SendError carries no value, the payload is destroyed by the call
                self.expect_drops([v], drops, opn)
            return

        if k in ("tr", "r", "rt"):
            h = hs.get(a[0])
            if not h or h["side"] != "R" or (k != "tr" and h["async"]):
                return na()
            if h["closed"]:
                if res != "disc":
                    raise self.closed_dev(h, "%s on a handle whose close() returned Ok answered `%s`" % (" ".join(op), res))
                self.expect_drops([], drops, " ".join(op))
                return
            if k == "rt":
                self.second_receive()
            if self.psq:
                v, w = self.take_from_parked_sender()
                if r0 == "val" and rtok[1:] != [str(v)]:
                    raise self.liveness("C02:order", "%s returned %s, the oldest parked send carries %d" % (" ".join(op), res, v))
                if res != "val %d" % v:
                    raise self.liveness("C04:disc-with-pending-send", "%s: expected `val %d`, implementation answered `%s`" % (" ".join(op), v, res))
                if a[0] in self.saw_disc:
                    raise self.liveness("C04:value-after-disc", "%s returned a value after this handle saw Disconnected" % " ".join(op))
                self.loc[v] = "recv"
                self.expect_wakes([w], wakes, " ".join(op))
            else:
                if r0 == "val":
                    v = int(rtok[1])
                    where = self.loc.get(v)
                    if where == "recv":
                        raise Deviation(["C01:dup"], "%s returned payload %d a second time" % (" ".join(op), v))
                    if where is None:
                        raise Deviation(["C01:phantom"], "%s returned payload %d that was never sent" % (" ".join(op), v))
                    raise self.liveness("C03:recv-without-sender", "%s returned %d although no send is pending (location %r)" % (" ".join(op), v, where))
                if self.open("T") == 0:
                    if res != "disc":
                        raise self.liveness("C04:no-disc-without-senders", "%s: expected `disc`, got `%s`" % (" ".join(op), res))
                    self.saw_disc.add(a[0])
                else:
                    exp = {"tr": "empty", "r": "block", "rt": "timeout"}[k]
                    if res != exp:
                        if r0 == "disc":
                            raise self.liveness("C04:disc-with-live-sender", "%s answered `disc` while a sender handle is open" % " ".join(op))
                        raise Deviation(["bad-output"], "%s: expected `%s`, got `%s`" % (" ".join(op), exp, res))
            self.expect_drops([], drops, " ".join(op))
            return

        if k == "cl":
            h = hs.get(a[0])
            if not h:
                return na()
            if h["closed"]:
                if res != "closeerr":
                    d = self.closed_dev(h, "%s: close of a handle whose close() already returned Ok answered `%s`" % (" ".join(op), res))
                    if d.clauses == ["C04:closed-handle-accepts"]:
                        d.clauses = ["C04:double-close"]
                    raise d
                self.expect_drops([], drops, " ".join(op))
                return
            want("ok", "C04:close-failed")
            h["closed"] = True
            need = self.close_side(h["side"])
            if wakes and not need:
                raise self.liveness("C04:clone-close-affects-other", "%s woke %r although another %s handle is open" % (" ".join(op), wakes, h["side"]))
            self.expect_wakes(need, wakes, " ".join(op))
            self.expect_drops([], drops, " ".join(op))
            return

        if k == "dh":
            h = hs.get(a[0])
            if not h or any(f["h"] == a[0] for f in fs.values()):
                return na()
            want("none", "bad-output")
            was_open = not h["closed"]
            del hs[a[0]]
            need = self.close_side(h["side"]) if was_open else []
            if wakes and not need:
                raise self.liveness("C04:clone-close-affects-other", "%s woke %r although %s" % (" ".join(op), wakes, "the handle was already closed" if not was_open else "another handle of its side is open"))
            self.expect_wakes(need, wakes, " ".join(op))
            self.expect_drops([], drops, " ".join(op))
            return

        if k == "cn":
            h = hs.get(a[0])
            if not h or a[1] in hs or not (self.txc if h["side"] == "T" else self.rxc):
                return na()
            want("none", "bad-output")
            hs[a[1]] = {"side": h["side"], "async": h["async"], "closed": h["closed"]}
            if h["closed"]:
                self.t("F34")
                hs[a[1]]["mark"] = "F34"
            self.expect_wakes([], wakes, " ".join(op))
            self.expect_drops([], drops, " ".join(op))
            return

        if k == "cv":
            h = hs.get(a[0])
            if not h or any(f["h"] == a[0] for f in fs.values()):
                return na()
            want("none", "bad-output")
            if h["closed"]:
                self.t("F07")
                h.setdefault("mark", "F07")
            h["async"] = not h["async"]
            self.expect_drops([], drops, " ".join(op))
            return

        if k == "ob":
            h = hs.get(a[0])
            if not h:
                return na()
            other = "R" if h["side"] == "T" else "T"
            if len(rtok) != 6 or rtok[0] != "obs":
                raise Deviation(["bad-output"], res)
            if rtok[2:] != ["0", "1", "1", "0"]:
                raise Deviation(["C03:len-cap"], "%s reports len/is_empty/is_full/capacity = %s (capacity 0 channel never buffers)" % (" ".join(op), " ".join(rtok[2:])))
            exp = "1" if self.open(other) == 0 else "0"
            if rtok[1] != exp:
                raise self.liveness("C04:is-closed-wrong", "%s: is_closed=%s but %d open %s handle(s)" % (" ".join(op), rtok[1], self.open(other), other))
            return

        if k in ("ms", "mr"):
            h = hs.get(a[1])
            if not h or h["side"] != ("T" if k == "ms" else "R") or not h["async"] or a[0] in fs:
                return na()
            want("none", "bad-output")
            fs[a[0]] = {"side": h["side"], "h": a[1], "cell": None, "phase": "new", "w": None, "v": None}
            if k == "ms":
                self.intro(a[2], ("slot", a[0]))
                fs[a[0]]["cell"] = a[2]
                fs[a[0]]["v"] = a[2]
            self.expect_drops([], drops, " ".join(op))
            return

        if k == "p":
            f = fs.get(a[0])
            if not f:
                return na()
            w = a[1]
            h = hs[f["h"]]
            opn = " ".join(op)
            if f["side"] == "T":
                ph = f["phase"]
                if ph == "sent":
                    want("rok", "C06:repoll")
                elif ph == "taken":
                    want("rok", "C06:missed-completion")
                    self.acked.add(f["v"])
                    f["phase"] = "sent"
                elif ph == "disc":
                    if res != "rclosed":
                        raise self.liveness("C04:no-closed-after-last-rx", "%s: expected `rclosed`, got `%s`" % (opn, res))
                    f["phase"] = "new"
                elif ph == "parked":
                    if res != "pending":
                        raise self.liveness("C06:parked-send-resolved", "%s: expected `pending`, got `%s`" % (opn, res))
                    f["w"] = w
                else:  # new: a fresh attempt with payload f["cell"]
                    v = f["cell"]
                    if h["closed"]:
                        if res != "rclosed":
                            if h.get("mark"):
                                raise self.closed_dev(h, "%s: a send future on a closed handle answered `%s`" % (opn, res))
                            raise Deviation(["C04:F35"], "%s: a send future on a handle whose close() returned Ok answered `%s` instead of Closed" % (opn, res))
                    elif self.open("R") == 0:
                        if res != "rclosed":
                            raise self.liveness("C04:send-after-last-rx", "%s: expected `rclosed`, got `%s`" % (opn, res))
                    elif self.prq:
                        if res != "rok":
                            raise self.liveness("C03:send-not-paired", "%s: expected `rok` (a receive is parked), got `%s`" % (opn, res))
                        wk = self.handoff_to_parked_receiver(v)
                        f["cell"] = None
                        f["phase"] = "sent"
                        self.acked.add(v)
                        self.expect_wakes([wk], wakes, opn)
                    else:
                        if res != "pending":
                            if r0 == "rok":
                                raise self.liveness("C03:send-without-receiver", "%s completed although no receive is pending" % opn)
                            raise self.liveness("C04:closed-with-live-rx", "%s: expected `pending`, got `%s`" % (opn, res))
                        f["phase"] = "parked"
                        f["w"] = w
                        self.psq.append(a[0])
            else:
                ph = f["phase"]
                if ph == "filled":
                    v = f["cell"]
                    if r0 == "rval" and rtok[1:] != [str(v)]:
                        raise self.liveness("C02:order", "%s returned %s, it was handed %d" % (opn, res, v))
                    if res != "rval %d" % v:
                        raise self.liveness("C01:lost", "%s: expected `rval %d`, got `%s`" % (opn, v, res))
                    self.loc[v] = "recv"
                    f["cell"] = None
                    f["phase"] = "new"
                elif ph == "disc":
                    if res != "rdisc":
                        raise self.liveness("C04:no-disc-without-senders", "%s: expected `rdisc`, got `%s`" % (opn, res))
                    self.saw_disc.add(f["h"])
                    f["phase"] = "new"
                elif ph == "parked":
                    if res != "pending":
                        raise self.liveness("C06:parked-recv-resolved", "%s: a parked receive answered `%s` although nothing was handed to it and a sender handle is open" % (opn, res))
                    f["w"] = w
                else:  # new
                    if h["closed"]:
                        if res != "rdisc":
                            if h.get("mark"):
                                raise self.closed_dev(h, "%s: a receive future on a closed handle answered `%s`" % (opn, res))
                            raise Deviation(["C04:F35"], "%s: a receive future on a handle whose close() returned Ok answered `%s` instead of Disconnected" % (opn, res))
                    elif self.psq:
                        v, wk = self.take_from_parked_sender()
                        if r0 == "rval" and rtok[1:] != [str(v)]:
                            raise self.liveness("C02:order", "%s returned %s, the oldest parked send carries %d" % (opn, res, v))
                        if res != "rval %d" % v:
                            raise self.liveness("C04:disc-with-pending-send", "%s: expected `rval %d`, got `%s`" % (opn, v, res))
                        if f["h"] in self.saw_disc:
                            raise self.liveness("C04:value-after-disc", "%s returned a value after this handle saw Disconnected" % opn)
                        self.loc[v] = "recv"
                        self.expect_wakes([wk], wakes, opn)
                    elif r0 == "rval":
                        v = int(rtok[1])
                        where = self.loc.get(v)
                        if where == "recv":
                            raise Deviation(["C01:dup"], "%s returned payload %d a second time" % (opn, v))
                        if where is None:
                            raise Deviation(["C01:phantom"], "%s returned payload %d that was never sent" % (opn, v))
                        raise self.liveness("C03:recv-without-sender", "%s returned %d although no send is pending" % (opn, v))
                    elif self.open("T") == 0:
                        if res != "rdisc":
                            raise self.liveness("C04:no-disc-without-senders", "%s: expected `rdisc`, got `%s`" % (opn, res))
                        self.saw_disc.add(f["h"])
                    else:
                        if res != "pending":
                            raise self.liveness("C04:disc-with-live-sender", "%s: expected `pending`, got `%s`" % (opn, res))
                        self.second_receive()
                        f["phase"] = "parked"
                        f["w"] = w
                        self.prq.append(a[0])
            self.expect_drops([], drops, opn)
            return

        if k == "df":
            f = fs.get(a[0])
            if not f:
                return na()
            want("none", "bad-output")
            opn = " ".join(op)
            if f["side"] == "T":
                need = [f["cell"]] if f["cell"] is not None else []
                if a[0] in self.psq:
                    self.psq.remove(a[0])
                del fs[a[0]]
                self.expect_drops(need, drops, opn)
            else:
                if a[0] in self.prq:
                    self.prq.remove(a[0])
                del fs[a[0]]
                # C06 / C01: dropping a receive future must not lose a value -> nothing may be destroyed here
                self.expect_drops([], drops, opn, recv_future=True)
            self.expect_wakes([], [], opn)
            return
        raise Deviation(["bad-case"], "unknown op %r" % k)

    def finish(self):
        """after the last op: if nothing is alive any more every payload must have ended in exactly one place"""
        if self.hs or self.fs:
            return
        for v, where in sorted(self.loc.items()):
            if where not in ("back", "recv", "dropped"):
                self.note(Deviation(["C09:leak"], "payload %d still %r after every handle and future is gone" % (v, where)))


def parse_out(out):
    """-> list of (result, wakes, drops) per op"""
    items = []
    for part in out.split(" ; ") if out.strip() else []:
        toks = part.split()
        res, wakes, drops = [], [], []
        for t in toks:
            if re.fullmatch(r"w\d+", t):
                wakes.append(int(t[1:]))
            elif re.fullmatch(r"d\d+", t):
                drops.append(int(t[1:]))
            else:
                res.append(t)
        items.append((" ".join(res), wakes, drops))
    return items


class RvEngine(Engine):
    model_file = "Chan/Rendezvous.v"
    exe = "rv"

    def __init__(self, fl):
        self.fl = fl
        self.name = "rv." + fl

    def n_cases(self, tier):
        return 700 if tier == "quick" else 20000

    # -- corpus: the minimal interesting histories (incl. the witnesses of the known findings)
    def corpus(self):
        f, m = self.fl, FIXMASK
        c = ["%s a %s mr 10 1 p 10 0 ts 0 100 p 10 0 df 10 dh 0 dh 1" % (f, m),          # plain handoff
             "%s a %s ms 10 0 100 p 10 0 tr 1 p 10 0 df 10 dh 0 dh 1" % (f, m),         # parked send taken
             "%s a %s mr 10 1 p 10 0 ts 0 100 df 10" % (f, m),                          # F-31
             "%s a %s ms 10 0 100 p 10 0 df 10 tr 1" % (f, m),                          # cancelled send: no ghost delivery
             "%s s %s cl 0 cv 0 dh 0" % (f, m),                                         # F-07 (underflow)
             "%s a %s cl 0 ms 10 0 100 p 10 0 tr 1" % (f, m),                           # F-35 send
             "%s a %s cl 1 mr 10 1 p 10 0 ts 0 100" % (f, m),                           # F-35 recv
             "%s a %s mr 10 1 mr 11 1 p 10 0 p 11 1 p 10 0" % (f, m),                   # F-33 on single-slot flavours
             "%s s %s cv 1 mr 10 1 p 10 0 s 0 100 p 10 0 cv 0 ms 11 0 101 p 11 1 cv 0 ob 0 ob 1" % (f, m),
             "%s a %s ms 10 0 100 ms 11 0 101 p 10 0 p 11 1 cv 1 r 1 r 1 p 10 0 p 11 1" % (f, m),
             "%s s %s ts 0 100 tr 1 rt 1 cl 0 tr 1 rt 1 cl 0 cl 1 ts 0 101 s 0 102" % (f, m),
             "%s a %s mr 10 1 p 10 0 cl 0 p 10 0 ms 11 0 100 p 11 1 cl 1 p 11 1 df 11 df 10" % (f, m)]
        if FLAV[f][1]:
            c += ["%s s %s cn 0 2 cl 0 cv 0 dh 0 tr 1 ts 2 100" % (f, m),               # F-07 (disconnect with live clone)
                  "%s a %s cl 0 tr 1 cn 0 2 ms 10 2 100 p 10 0 tr 1" % (f, m)]          # F-34
        if FLAV[f][2]:
            c += ["%s a %s cn 1 3 mr 10 1 mr 11 3 p 10 0 p 11 1 ts 0 100 ts 0 101 p 11 1 p 10 0" % (f, m)]
        return c

    # -- generator
    def gen(self, rng, tier):
        fl = self.fl
        multi, txc, rxc = FLAV[fl]
        is_async = rng.chance(2, 3)
        sim = Sim(fl, is_async)
        toks = [fl, "a" if is_async else "s", FIXMASK]
        n = rng.pick([2, 4, 6, 8, 12, 16, 24, 32, 48, 60])
        style = rng.weighted([("mixed", 50), ("life", 25), ("async", 25)])
        st = {"v": 100, "f": 10, "h": 2}
        malformed = rng.chance(1, 10)

        def handles(side=None, mode=None):
            return [h for h, d in sorted(sim.hs.items())
                    if (side is None or d[0] == side) and (mode is None or d[1] == mode)]

        shapes = rng.chance(1, 4)     # does this case go looking for the shapes of the known findings?

        def prefer_open(hl):
            if shapes:
                return hl
            return [h for h in hl if not sim.hs[h][2]]

        def anyh(side=None, mode=None):
            hs = handles(side, mode)
            if malformed and rng.chance(1, 6):
                return rng.below(st["h"] + 2)
            if not hs:
                hs = handles(side) or handles() or [0]
            return rng.pick(hs)

        def futs(side=None):
            return [f for f, d in sorted(sim.fs.items()) if side is None or d["side"] == side]

        def newv():
            st["v"] += 1
            return st["v"] - 1

        def emit(op):
            op = [str(x) for x in op]
            r = sim.step(op)
            toks.extend(op)
            return r

        def safe_blocking(kind, h):
            """a blocking call is issued only where it returns at once"""
            probe = copy.deepcopy(sim)
            return probe.step([kind, str(h)] + (["0"] if kind == "s" else [])) != "block"

        weights = {
            "mixed": [("ts", 12), ("s", 6), ("tr", 10), ("r", 6), ("rt", 6), ("ms", 12), ("mr", 12), ("p", 30),
                      ("df", 8), ("cl", 4), ("dh", 3), ("cn", 5), ("cv", 5), ("ob", 3)],
            "life": [("ts", 8), ("s", 4), ("tr", 8), ("r", 4), ("rt", 4), ("ms", 6), ("mr", 6), ("p", 14),
                     ("df", 6), ("cl", 12), ("dh", 10), ("cn", 12), ("cv", 12), ("ob", 8)],
            "async": [("ts", 10), ("tr", 10), ("ms", 16), ("mr", 16), ("p", 40), ("df", 12), ("rt", 3),
                      ("cl", 2), ("cv", 2), ("cn", 3), ("ob", 1)],
        }[style]
        for _ in range(n):
            k = rng.weighted(weights)
            if k == "ts":
                emit(["ts", anyh("T"), newv()])
            elif k == "s":
                h = anyh("T", False)
                if safe_blocking("s", h):
                    emit(["s", h, newv()])
                else:
                    emit(["ts", h, newv()])
            elif k == "tr":
                emit(["tr", anyh("R")])
            elif k == "r":
                h = anyh("R", False)
                emit(["r" if safe_blocking("r", h) else "tr", h])
            elif k == "rt":
                if not multi and sim.rq and not shapes:
                    continue
                emit(["rt", anyh("R", False)])
            elif k in ("ms", "mr"):
                side = "T" if k == "ms" else "R"
                hs = handles(side, True)
                if not hs:
                    # make an async handle of that side first
                    cand = prefer_open([h for h in handles(side, False) if not sim.borrowed(h)])
                    if cand:
                        emit(["cv", rng.pick(cand)])
                    hs = handles(side, True)
                hs = prefer_open(hs)
                if not hs and not shapes:
                    continue
                h = rng.pick(hs) if hs and not (malformed and rng.chance(1, 6)) else anyh(side)
                if k == "mr" and not multi and sim.rq and not shapes:
                    continue      # a second outstanding receive on the single-slot store (F-33)
                f = st["f"]
                st["f"] += 1
                if malformed and rng.chance(1, 8) and sim.fs:
                    f = rng.pick(futs())
                if k == "ms":
                    emit(["ms", f, h, newv()])
                else:
                    emit(["mr", f, h])
                if rng.chance(3, 4):
                    emit(["p", f, f % 7 if rng.chance(3, 4) else rng.below(7)])
            elif k == "p":
                fl_ = futs()
                if not fl_:
                    continue
                if not shapes:
                    ok = [f for f in fl_ if sim.fs[f]["reg"] or not sim.hs[sim.fs[f]["h"]][2]
                          or (sim.fs[f]["side"] == "T" and sim.fs[f]["cell"] is None)]
                    ok = [f for f in ok if multi or sim.fs[f]["side"] == "T" or sim.fs[f]["reg"] or not sim.rq]
                    if not ok:
                        continue
                    fl_ = ok
                f = rng.pick(fl_) if not (malformed and rng.chance(1, 8)) else rng.below(st["f"] + 2)
                emit(["p", f, f % 7 if rng.chance(2, 3) else rng.below(7)])
            elif k == "df":
                fl_ = futs()
                if fl_:
                    f = rng.pick(fl_)
                    d = sim.fs[f]
                    if d["side"] == "R" and d["cell"] is not None and not shapes:
                        emit(["p", f, rng.below(7)])     # take the value first (otherwise: F-31)
                    emit(["df", f])
            elif k == "cl":
                emit(["cl", anyh()])
            elif k == "dh":
                cand = [h for h in handles() if not sim.borrowed(h)]
                if cand and (len(sim.hs) > 2 or rng.chance(1, 3)):
                    emit(["dh", rng.pick(cand) if not malformed else anyh()])
            elif k == "cn":
                side = rng.pick(["T", "R"])
                if (side == "T" and not txc) or (side == "R" and not rxc):
                    if not malformed:
                        side = "T" if txc else None
                if side and len(sim.hs) < 7:
                    h2 = st["h"]
                    st["h"] += 1
                    src = prefer_open(handles(side))
                    if src or shapes or malformed:
                        emit(["cn", rng.pick(src) if src and not malformed else anyh(side), h2])
            elif k == "cv":
                cand = prefer_open([h for h in handles() if not sim.borrowed(h)])
                if cand:
                    emit(["cv", rng.pick(cand) if not malformed else anyh()])
            elif k == "ob":
                emit(["ob", anyh()])
        # teardown in a random order (C09: every payload ends in exactly one place)
        if rng.chance(4, 5):
            fl_ = futs()
            while fl_:
                f = fl_.pop(rng.below(len(fl_)))
                d = sim.fs[f]
                if rng.chance(1, 3) or (d["side"] == "R" and d["cell"] is not None and not shapes):
                    emit(["p", f, rng.below(7)])
                emit(["df", f])
            hl = handles()
            while hl:
                emit(["dh", hl.pop(rng.below(len(hl)))])
        return " ".join(toks)

    def split(self, line):
        t = line.split()
        return t[:3], split_ops(t[3:])

    def join(self, header, ops):
        """used by the shrinkers: a candidate in which a blocking call would park is rewritten to its
        try_ form (the real call would sit in the harness watchdog), so shrinking never waits"""
        try:
            sim = Sim(header[0], header[1] == "a", header[2])
        except Exception:
            return Engine.join(self, header, ops)
        out = []
        for op in ops:
            if op[0] in ("s", "r"):
                probe = copy.deepcopy(sim)
                if probe.step(op) == "block":
                    op = (["ts"] if op[0] == "s" else ["tr"]) + list(op[1:])
            sim.step(op)
            out.append(op)
        return Engine.join(self, header, out)

    def nontrivial(self, line, impl_out):
        return len(self.split(line)[1]) >= 3

    # -- monitor
    def monitor(self, line, out):
        hdr, ops = self.split(line)
        if "DRIVER" in out or "BAD" in out:
            return [("driver", out[:200])]
        items = parse_out(out)
        ref = Ref(hdr[0], hdr[1] == "a")
        fatal = None
        try:
            for op, (res, wakes, drops) in zip(ops, items):
                if res == "block":
                    # never generated; reached only by shrinking.  The call parks on the real code.
                    break
                ref.step(op, res, wakes, drops)
            else:
                if len(items) == len(ops):
                    ref.finish()
        except Deviation as d:
            fatal = d
        out_hits, seen = [], set()
        for d in ref.hits + ([fatal] if fatal else []):
            if d.clauses == ["bad-case"]:
                continue
            for c in d.clauses:
                if c not in seen:
                    seen.add(c)
                    out_hits.append((c, d.detail))
        return out_hits


ENGINES = [RvEngine(f) for f in ("spsc", "mpsc", "mpmc")]
BY = {e.fl: e for e in ENGINES}


# ----------------------------------------------------------------------------------------------
# wiring for vlib/multiprop.py
_INFO = {"name": "E-CHANOPS-rv",
         "path": "coq/Chan/Rendezvous.v, coq/Proofs/Rendezvous*.v, coq/Props/C0x_rv.v, ocaml/eng_rv.ml, "
                 "harness/seqdrv/src/bin/rv.rs, vlib/engines_rv.py",
         "kind": "K2 op-level model of spsc/mpsc/mpmc ::rendezvous (one API call / one poll / one drop of a "
                 "future = one step; create/poll/drop of futures, sync try/blocking/timed forms, clone, close, drop, "
                 "to_sync/to_async, observers); theorems by induction over all histories; D1 differential tie"}
_ASSUME = [
    "rv: sequential (K2) histories only; the cancel-vs-handoff race of finding F-01 needs a K3 model (docs/rv.md)",
    "rv: blocking send/recv are executed only where they return at once; recv_timeout only with a zero timeout",
    "rv: usize counters modelled on N; underflow is the output PANIC (harness profile has overflow-checks on)",
    "rv: futures borrow their handle, so a handle with live futures is never dropped or converted (borrow checker)",
]


def _w(fl, line):
    return "%s %s" % (fl, line.replace("MASK", FIXMASK))


def _witness(prop):
    w = {}
    for fl in ("spsc", "mpsc", "mpmc"):
        e = BY[fl]
        if prop in ("C01", "C06"):
            w["F-31-" + fl] = (e, _w(fl, "a MASK mr 10 1 p 10 0 ts 0 100 df 10"), prop + ":F31")
        if prop in ("C04", "C06") and fl != "mpmc":
            w["F-33-" + fl] = (e, _w(fl, "a MASK mr 10 1 mr 11 1 p 10 0 p 11 1 p 10 0"), prop + ":F33")
        if prop == "C04":
            if not FIX_CONV:
                w["F-07-" + fl] = (e, _w(fl, "s MASK cn 0 2 cl 0 cv 0 dh 0 tr 1") if fl != "spsc"
                                   else _w(fl, "s MASK cl 0 cv 0 dh 0"), "C04:F07")
            if not FIX_FUT:
                w["F-35-" + fl] = (e, _w(fl, "a MASK cl 0 ms 10 0 100 p 10 0 tr 1"), "C04:F35")
            if not FIX_CLONE and fl != "spsc":
                w["F-34-" + fl] = (e, _w(fl, "a MASK cl 0 tr 1 cn 0 2 ts 2 100"), "C04:F34")
    return w


_COVERS = {
    "C01": "rendezvous spsc/mpsc/mpmc (K2, sync+async): conservation multiset equation for all histories, no duplicate/phantom "
           "delivery, failed ops leave the state unchanged and hand back their input; acknowledged sends are delivered except "
           "finding F-31 (refuted/except pair)",
    "C02": "rendezvous (K2): handoffs happen in offer order (no overtaking of parked senders), cancel removes in place",
    "C03": "rendezvous (K2): capacity 0 -- nothing is ever buffered, try_send succeeds iff it pairs with a parked receive, "
           "len/capacity report 0",
    "C04": "rendezvous (K2): counts = open handles, drain-then-Disconnected, Closed hands the value back, clone isolation, close "
           "idempotence for the repaired model; shipped model refuted by F-07/F-34/F-35 (refuted/except pairs)",
    "C06": "rendezvous (K2): no missed wake for all create/poll/drop histories, no dangling registration after a drop; "
           "dropping a completed receive future loses its value (F-31), single-slot store overwrite (F-33)",
    "C09": "rendezvous (K2): every payload in exactly one of handed-back/received/destroyed/in-a-future at every point; all "
           "resolved after any teardown order",
}

PROPS = {p: {"engines": ENGINES, "witness": _witness(p), "assumptions": _ASSUME, "covers": _COVERS[p],
             "engine_info": _INFO}
         for p in ("C01", "C02", "C03", "C04", "C06", "C09")}
