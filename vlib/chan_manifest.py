"""Lead-owned manifest texts for the multi-engine channel properties."""
_T = "Coq theorems over executable models (K2: all op/poll/drop histories by induction; K3: all schedules by invariant) + correspondence of the extracted models against the real channels (D1 op sequences; D2 scheduler-controlled atomic traces where available)"
_N = "Trusted: Coq kernel, extraction + OCaml drivers, harness/generators/scheduler. K2 models quantify over sequential histories only; the schedule quantifier is covered only for the engines named in `covers` as K3. SC memory model in K3 engines; usize wrap never reached."


def _m(text, ref):
    return {"manifest": {"engine": "E-CHANOPS", "technique": _T, "text": text, "design_ref": ref, "note": _N}}


BASE = {
    "C01": _m("Exactly-once delivery and no-effect of failed operations, proved per channel family on its model for all histories.", "DESIGN.md §8 C01"),
    "C02": _m("Per-producer FIFO: each family's model is proved to refine the FIFO spec for all sequential histories; K3 engines prove ticket/index order under all schedules.", "DESIGN.md §8 C02"),
    "C03": _m("Capacity never exceeded and try_send exactness, proved as invariants for all histories.", "DESIGN.md §8 C03"),
    "C04": _m("Disconnect protocol (drain then Disconnected; Closed hands the value back; clone isolation; close idempotence) proved over handle-lifecycle histories.", "DESIGN.md §8 C04"),
    "C05": _m("No lost wakeup (safety form): no reachable quiescent state has a parked thread whose wait condition holds; partial: fair-scheduling 'eventually' not proved.", "DESIGN.md §8 C05"),
    "C06": _m("Async wake-up and cancellation: pending futures are woken when enabled, dropping a future is harmless, for all create/poll/drop histories.", "DESIGN.md §8 C06"),
    "C07": _m("Broadcast SPMC: every receiver gets exactly the sent sequence from its creation point, backpressure by slowest receiver.", "DESIGN.md §8 C07"),
    "C08": _m("Topic pub/sub routing by subscription; only full mailboxes drop; disconnect semantics.", "DESIGN.md §8 C08"),
    "C09": _m("Every payload dropped exactly once: location accounting over all histories and teardown orders.", "DESIGN.md §8 C09"),
    "C10": _m("Hybrid locks: mutual exclusion and wake-owed invariants for all schedules.", "DESIGN.md §8 C10"),
}
