"""K3 ticket engine: atomic-step, all-interleavings model of the bounded MPSC ticket protocol
(mpsc::bounded_v3; coq/Chan/TicketK3.v, theorems in coq/Proofs/TicketK3*.v, pinned in
coq/Props/C0x_k3ticket.v) and its tie to the real code:

  D2  pass 1: harness/sched/src/bin/k3ticket.rs (a front end over `scen`, flavour mpscb) runs a
      generated scenario program on the REAL channel under the deterministic scheduler and prints
      the atomic event trace plus the API results; pass 2 (flow's `model_input` hook): the extracted
      model (`modelrun_k3ticket`, ocaml/eng_k3ticket.ml over Conc.replay) must accept that trace
      event by event -- same variable, operation, Ordering, values read/written -- and reproduce
      the API results.  The chunk size / table size / publish cadence handed to the model are
      computed here from the constants in the CURRENT shared.rs / mod.rs; the model driver checks
      them against the Coq definitions `real_cc / real_n / real_kk`.
      `S` cases are monitor-only schedule searches (scen's FAIL lines = concrete violations,
      incl. the C03 occupancy monitor).
  D3  `K` cases: for every modelled Rust function, the ordered facade operations
      (variable, op, Ordering) extracted here from the CURRENT source text, versus the table the
      model driver derives from the Coq step function."""
import os
import re

from . import common as C
from .flow import Engine
from .engines_k3spsc import _strip, _fn_bodies, _paren_end, ORD, OPK

CAPS = [1, 2, 3, 4, 5, 8, 16, 64, 70]
DIR = "channels/src/mpsc/bounded_v3/"

# ---------------------------------------------------------------------------------- source constants
_const_cache = {}


def source_params(cap):
    """(chunk_cap, n, K) of mpsc::bounded(cap), computed from the constants in the current source;
    (0, 0, 0) if the source no longer has the expected shape (the model driver then reports it)"""
    if "v" not in _const_cache:
        try:
            sh = _strip(open(os.path.join(C.REPO, DIR, "shared.rs")).read())
            md = _strip(open(os.path.join(C.REPO, DIR, "mod.rs")).read())

            def const(name, src):
                m = re.search(r"const\s+%s\s*:\s*usize\s*=\s*(?:if\s+MODEL_CHECK\s*\{\s*\d+\s*\}\s*else\s*\{\s*(\d+)\s*\}|(\d+))\s*;" % name, src)
                return int(m.group(1) or m.group(2))
            slack = const("SLACK", sh)
            floor = const("CHUNK_FLOOR_SYNC", sh)
            flush = const("CACHE_FLUSH_CHUNK", sh)
            hi = int(re.search(r"let\s+chunk_cap\s*=\s*cap\.next_power_of_two\(\)\.clamp\(chunk_floor,\s*(\d+)\)", sh).group(1))
            spare = int(re.search(r"let\s+n\s*=\s*\(cap\s*\+\s*SLACK\)\.div_ceil\(chunk_cap\)\s*\+\s*(\d+)\s*;", sh).group(1))
            if not re.search(r"let\s+cap\s*=\s*cap\.max\(1\)\s*;", sh) or \
               not re.search(r"let\s+publish_chunk\s*=\s*publish_chunk\.clamp\(1,\s*cap\)\s*;", sh) or \
               not re.search(r"Shared::new\(capacity,\s*capacity\.min\(CACHE_FLUSH_CHUNK\),\s*CHUNK_FLOOR_SYNC\)", md):
                raise ValueError("constructor shape")
            _const_cache["v"] = (slack, floor, flush, hi, spare)
        except Exception:
            _const_cache["v"] = None
    v = _const_cache["v"]
    if v is None:
        return 0, 0, 0
    slack, floor, flush, hi, spare = v
    c = max(cap, 1)
    p = 1
    while p < c:
        p *= 2
    cc = min(max(p, floor), hi)
    n = (c + slack + cc - 1) // cc + spare
    k = max(1, min(min(c, flush), c))
    return cc, n, k


# ---------------------------------------------------------------------------------- D3 extractor
CALLS = ("window_open_cold|window_open|credit_ok_cold|credit_ok|try_send_now_cold|try_send_now|write_slot|ensure_resident|"
         "claim_run_cold|claim_run|resolve_run|try_send_run_batch|try_recv_run|try_recv_batch_mut|deq_run|"
         "notify_receiver|notify_senders|deq_once|publish_progress|flush_progress|drain_straggler|senders_alive|"
         "receivers_alive|drop_sender|drop_receiver|wake_all_receivers|wake_all_senders|close|wake")
TOKEN_RE = re.compile(
    r"(?P<atom>(?P<var>\w+)\s*\)?\s*\.\s*(?P<op>load|store|swap|fetch_sub|fetch_add|compare_exchange_weak|compare_exchange)\s*\()"
    r"|(?P<lock>(?P<lvar>\w+)\s*\.\s*lock\s*\(\s*\))"
    r"|(?P<fence>\bfence\s*\(\s*Ordering::(?P<ford>\w+)\s*\))"
    r"|(?P<spin>hint::spin_loop\s*\(\s*\))"
    r"|(?P<unpark>\.\s*unpark\s*\(\s*\))"
    r"|(?P<park>sync_util::park_thread\s*\(\s*\))"
    r"|(?P<call>(?<![\w])(?<!fn )(?P<cname>" + CALLS + r")\s*\()")

# modelled functions: id -> (file relative to /repo, impl type, fn name)
FUNCS = [
    ("shared.rs::Shared::credit_ok", "shared.rs", "Shared", "credit_ok"),
    ("shared.rs::Shared::window_open", "shared.rs", "Shared", "window_open"),
    ("shared.rs::Shared::credit_ok_cold", "shared.rs", "Shared", "credit_ok_cold"),
    ("shared.rs::Shared::window_open_cold", "shared.rs", "Shared", "window_open_cold"),
    ("shared.rs::Shared::try_send_now", "shared.rs", "Shared", "try_send_now"),
    ("shared.rs::Shared::try_send_now_cold", "shared.rs", "Shared", "try_send_now_cold"),
    ("shared.rs::Shared::claim_run", "shared.rs", "Shared", "claim_run"),
    ("shared.rs::Shared::claim_run_cold", "shared.rs", "Shared", "claim_run_cold"),
    ("shared.rs::Shared::resolve_run", "shared.rs", "Shared", "resolve_run"),
    ("shared.rs::Shared::ensure_resident", "shared.rs", "Shared", "ensure_resident"),
    ("shared.rs::Shared::write_slot", "shared.rs", "Shared", "write_slot"),
    ("shared.rs::Shared::notify_receiver", "shared.rs", "Shared", "notify_receiver"),
    ("shared.rs::Shared::deq_once", "shared.rs", "Shared", "deq_once"),
    ("shared.rs::Shared::deq_run", "shared.rs", "Shared", "deq_run"),
    ("shared.rs::Shared::publish_progress", "shared.rs", "Shared", "publish_progress"),
    ("shared.rs::Shared::notify_senders", "shared.rs", "Shared", "notify_senders"),
    ("shared.rs::Shared::flush_progress", "shared.rs", "Shared", "flush_progress"),
    ("shared.rs::Shared::drain_straggler", "shared.rs", "Shared", "drain_straggler"),
    ("shared.rs::Shared::senders_alive", "shared.rs", "Shared", "senders_alive"),
    ("shared.rs::Shared::receivers_alive", "shared.rs", "Shared", "receivers_alive"),
    ("shared.rs::Shared::drop_sender", "shared.rs", "Shared", "drop_sender"),
    ("shared.rs::Shared::drop_receiver", "shared.rs", "Shared", "drop_receiver"),
    ("shared.rs::Shared::wake_all_receivers", "shared.rs", "Shared", "wake_all_receivers"),
    ("shared.rs::Shared::wake_all_senders", "shared.rs", "Shared", "wake_all_senders"),
    ("producer.rs::Sender::try_send", "producer.rs", "Sender", "try_send"),
    ("producer.rs::Sender::try_send_batch", "producer.rs", "Sender", "try_send_batch"),
    ("producer.rs::try_send_run_batch", "producer.rs", None, "try_send_run_batch"),
    ("producer.rs::Sender::close", "producer.rs", "Sender", "close"),
    ("producer.rs::Sender::drop", "producer.rs", "Sender", "drop"),
    ("consumer.rs::Receiver::try_recv", "consumer.rs", "Receiver", "try_recv"),
    ("consumer.rs::Receiver::try_recv_batch", "consumer.rs", "Receiver", "try_recv_batch"),
    ("consumer.rs::Receiver::try_recv_batch_mut", "consumer.rs", "Receiver", "try_recv_batch_mut"),
    ("consumer.rs::try_recv_run", "consumer.rs", None, "try_recv_run"),
    ("consumer.rs::Receiver::close", "consumer.rs", "Receiver", "close"),
    ("consumer.rs::Receiver::drop", "consumer.rs", "Receiver", "drop"),
]


def _rows(body):
    rows = []
    for m in TOKEN_RE.finditer(body):
        if m.group("atom"):
            par = m.end() - 1
            args = body[par:_paren_end(body, par) + 1]
            oms = re.findall(r"Ordering::(\w+)", args)
            o = "/".join(ORD.get(x, x) for x in oms) if oms else "?"
            rows.append("%s.%s.%s" % (m.group("var"), OPK[m.group("op")], o))
        elif m.group("lock"):
            rows.append("%s.lock.-" % m.group("lvar"))
        elif m.group("fence"):
            rows.append("-.fence.%s" % ORD.get(m.group("ford"), m.group("ford")))
        elif m.group("spin"):
            rows.append("-.spin.-")
        elif m.group("unpark"):
            rows.append("-.unpark.-")
        elif m.group("park"):
            rows.append("-.park.-")
        elif m.group("call"):
            rows.append("call." + m.group("cname"))
    return rows


_src_cache = {}


def source_skeleton():
    """-> [(function id, [rows])] extracted from the current source text under C.REPO"""
    out = []
    for fid, rel, ty, fn in FUNCS:
        path = os.path.join(C.REPO, DIR, rel)
        if path not in _src_cache:
            try:
                _src_cache[path] = _fn_bodies(_strip(open(path).read()))
            except OSError:
                _src_cache[path] = None
        bodies = _src_cache[path]
        if bodies is None:
            out.append((fid, ["<missing-file>"]))
        elif (ty, fn) not in bodies:
            out.append((fid, ["<missing-fn>"]))
        else:
            out.append((fid, _rows(bodies[(ty, fn)]) or ["<no-facade-ops>"]))
    return out


# ---------------------------------------------------------------------------------- the engine
def _hdr(cap, seed, pol, wide=False):
    cc, n, k = source_params(cap)
    return "T %d %d %s %d %d %d%s" % (cap, seed, pol, cc, n, k, " wide" if wide else "")


class K3TicketEngine(Engine):
    name = "k3ticket"
    crate = "sched"
    exe = "k3ticket"
    per_shard = 6
    model_file = "Chan/TicketK3.v"

    def n_cases(self, tier):
        return 110 if tier == "quick" else 6000

    # ---- generation: T = one traced schedule (replayed by the model), S = monitor-only search
    def corpus(self):
        ks = ["K %s %s" % (fid, " ".join(rows)) for fid, rows in source_skeleton()]
        fixed = [
            _hdr(1, 11, "pct") + " | P: ts ts ts | P: ts ts | C: tr tr tr tr",          # SKIP tombstones, Full
            _hdr(2, 12, "rand") + " | P: ts*4 | P: ts*3 | C: tr*6",
            _hdr(3, 13, "pct") + " | C: tr tr | P: ts*5 | P: ts*2 | P: ts",             # consumer first in the thread list
            _hdr(2, 14, "rand") + " | P: ts*6 | C: tr",                                 # receiver drops first: Closed
            _hdr(5, 15, "pct") + " | P: ts | C: tr*4",                                  # senders gone: straggler drain, Disconnected
            _hdr(70, 16, "rand") + " | P: ts*9 | P: ts*9 | C: tr*20",                   # cap > CACHE_FLUSH_CHUNK: K = 64
            # batches: claim_run / resolve_run (runs cut by slack, by K, by overshoot), deq_run
            _hdr(2, 31, "pct") + " | P: tsb3 ts tsb2 | P: tsb4 tsb1 | C: trb2 tr trb5 trb3",
            _hdr(4, 32, "rand") + " | P: tsb9 | P: tsb3 tsb3 | P: ts tsb2 | C: trb3 trb8 tr trb8",
            _hdr(70, 33, "pct", True) + " | P: tsb150 tsb10 | P: tsb90 | C: trb64 trb100 trb100",   # runs capped by K = 64
            _hdr(3, 34, "rand") + " | P: tsb5 | C: trb4",                               # receiver drops mid-batch: Closed for the unsent tail
            # chunk boundaries and chunk-table laps (chunk_cap 128, 3 entries): > 768 tickets
            _hdr(2, 17, "rand", True) + " | P: ts*999 | P: ts*999 | C: tr*999 tr*999",
            _hdr(64, 18, "rand", True) + " | P: ts*900 | C: tr*999 tr*500 | P: ts*900",
            _hdr(200, 19, "rand", True) + " | P: tsb7*130 | P: tsb3*300 | C: trb5*300 trb64*40",    # runs across chunk boundaries
            "S 1 21 40 | P: ts ts ts | P: ts ts | C: tr tr tr tr tr",
            "S 2 22 40 | P: ts*4 | P: ts*4 | P: ts*2 | C: tr*8",
            "S 2 23 60 | P: tsb2 tsb2 | P: tsb2 tsb2 | P: tsb3 | C: trb3 tr trb2",     # racing claims: the overshoot must be tombstoned
            "S 3 24 60 | P: tsb4 ts | P: tsb3 tsb3 | C: trb2 trb4",
        ]
        return ks + fixed

    def gen(self, rng, tier):
        cap = rng.pick(CAPS)
        npr = 1 + rng.below(4)
        budget = 99            # payload ids are (producer + 1) * 100 + seq: at most 99 items per producer

        def pops():
            ops, left = [], budget
            for _ in range(rng.below(7)):
                if rng.chance(2, 5):
                    k = min(left, 1 + rng.below(2 * cap + 3))
                    if k >= 1:
                        ops.append("tsb%d" % k)
                        left -= k
                elif left >= 1:
                    ops.append("ts")
                    left -= 1
            return ops
        threads = ["P: " + " ".join(pops()) for _ in range(npr)]
        cops = [rng.weighted([("tr", 3), ("trb%d" % (1 + rng.below(cap + 4)), 2)]) for _ in range(rng.below(11))]
        threads.insert(rng.below(len(threads) + 1), "C: " + " ".join(cops))
        seed = 1 + rng.below(1 << 30)
        if rng.chance(1, 8):
            return "S %d %d %d | %s" % (cap, seed, 10 if tier == "quick" else 60, " | ".join(threads))
        if tier != "quick" and rng.chance(1, 40):
            return _hdr(cap, seed, rng.pick(["pct", "rand"]), True) + " | P: ts*%d tsb%d*%d | C: tr*%d trb%d*%d | P: ts*%d" % (
                100 + rng.below(200), 1 + rng.below(9), 60, 300 + rng.below(300), 1 + rng.below(70), 40, 100 + rng.below(300))
        return _hdr(cap, seed, rng.weighted([("pct", 3), ("rand", 2)])) + " | " + " | ".join(threads)

    # ---- two-pass plumbing
    def model_input(self, line, impl_out):
        kind = line.split(None, 1)[0]
        if kind == "T":
            _STATS["cas_events"] += impl_out.count(",cas,shared.id#")
            _STATS["retire_events"] += impl_out.count(",store,shared.consumer_retired#")
            _STATS["spin_events"] += impl_out.count(",spin,")
            _STATS["skip_stores"] += len(re.findall(r",store,shared\.state#\d+,Rel,-,2,", impl_out))
            return impl_out.split(" ;; ", 1)[1] if " ;; " in impl_out else "0 0 0 0 100 RES T"
        if kind == "S":
            return "S"
        return line

    def canon(self, out):
        if " ;; " in out:            # implementation side of a T case: verdict ;; model case
            return out.split(" ;; ", 1)[0]
        if out.startswith("search ok"):
            return "search ok"
        return out

    # ---- shrinking: ops are the thread programs (tagged with the thread index); the header keeps
    # kind/cap/seed/policy/params and the thread kinds
    def split(self, line):
        if line.startswith("K "):
            return [line], []
        parts = [p.strip() for p in line.split("|")]
        kinds, ops = [], []
        for i, p in enumerate(parts[1:]):
            toks = p.split()
            kinds.append(toks[0][0])
            for t in toks[1:]:
                ops.append(["%d:%s" % (i, t)])
        return [parts[0], "".join(kinds)], ops

    def join(self, header, ops):
        if header[0].startswith("K "):
            return header[0]
        kinds = header[1]
        per = [[] for _ in kinds]
        for o in ops:
            i, t = o[0].split(":", 1)
            per[int(i)].append(t)
        return header[0] + " | " + " | ".join("%s: %s" % (k, " ".join(per[i])) for i, k in enumerate(kinds))

    def shape(self, line):
        h, ops = self.split(line)
        t = h[0].split()
        return " ".join(t[:2]) + "|" + (h[1] if len(h) > 1 else "") + "|" + " ".join(o[0] for o in ops)

    def nontrivial(self, line, out):
        return line[0] in "TS" and len(self.split(line)[1]) >= 2

    # ---- property monitors: scen's judgement of the real run (clause ids already prefixed)
    def monitor(self, line, out):
        kind = line.split(None, 1)[0]
        if kind == "T" and out.startswith("ok "):
            _STATS["traces"] += 1
            _STATS["schedules"] += 1
            _STATS["events"] += int(out.split()[1])
        elif kind == "S" and out.startswith("search ok"):
            _STATS["schedules"] += int(line.split()[3])
        elif kind == "K":
            _STATS["skeleton_functions"] += 1
        if out.startswith("FAIL "):
            return [(out.split()[1], out[5:400])]
        if out.startswith("DRIVER"):
            return [("C05:harness", out[:300])]
        return []


ENGINE = K3TicketEngine()


# ---------------------------------------------------------------------------------- finding F-ticket-lap
# 13 producers pass claim_run's window check on an empty cap-64 channel before any of them claims
# (round-robin prefix rr6 = closed, receivers_alive x2, run_cap, g_tail, progress), then each claims
# 64 tickets: tickets of chunk 3 and of chunk 6 (both table entry 0) are owned at the same time.
_LAP_PRODUCERS = " | ".join(["P: tsb64"] * 13)
LAP_WITNESS = "S 64 5 12 rr6 | %s | C: trb64*40" % _LAP_PRODUCERS
LAP_CLAUSE = "C05:table-lap-wedge"


class K3TicketLapEngine(K3TicketEngine):
    """monitor-only search engine for the chunk-table wedge (no model side: the safety model accepts
    these executions; what fails is termination)"""
    name = "k3ticket.lap"
    model_free = True

    def n_cases(self, tier):
        return 0

    def corpus(self):
        # the same race with too few producers to reach two table laps: must terminate
        return ["S 64 5 6 rr6 | %s | C: trb64*12" % " | ".join(["P: tsb64"] * 4)]

    def gen(self, rng, tier):
        return self.corpus()[0]

    def monitor(self, line, out):
        hits = K3TicketEngine.monitor(self, line, out)
        return [(LAP_CLAUSE if c == "C05:step-limit" else c, d) for c, d in hits]


LAP_ENGINE = K3TicketLapEngine()

# evidence keys of the D2/D3 tie (merged into the coverage record just before it is written)
_STATS = {"traces": 0, "events": 0, "schedules": 0, "skeleton_functions": 0,
          "cas_events": 0, "retire_events": 0, "spin_events": 0, "skip_stores": 0}


def _install_evidence_hook():
    from . import flow
    if getattr(flow.Run, "_k3ticket_evidence", False):
        return
    orig = flow.Run.finish

    def finish(self):
        eng = self.cov.get("engines", {}).get(ENGINE.name)
        if eng is not None:
            ok_traces = max(0, _STATS["traces"] - eng.get("mismatches", 0))
            self.cov["traces_validated_against_impl"] = self.cov.get("traces_validated_against_impl", 0) + ok_traces
            eng.update({"traces_replayed_by_model": _STATS["traces"], "events_replayed": _STATS["events"],
                        "schedules_explored": _STATS["schedules"],
                        "skeleton_functions_compared": _STATS["skeleton_functions"],
                        "chunk_reuse_cas_events_in_traces": _STATS["cas_events"],
                        "chunk_retire_events_in_traces": _STATS["retire_events"],
                        "spin_events_in_traces": _STATS["spin_events"], "skip_stores_in_traces": _STATS["skip_stores"]})
            self.cov["events_replayed"] = self.cov.get("events_replayed", 0) + _STATS["events"]
            self.cov["schedules_explored"] = self.cov.get("schedules_explored", 0) + _STATS["schedules"]
        return orig(self)

    flow.Run.finish = finish
    flow.Run._k3ticket_evidence = True


_install_evidence_hook()

_INFO = {"name": "E-TICKET (k3ticket)",
         "path": "coq/Chan/TicketK3.v, coq/Proofs/TicketK3{Base,Frame,Prod,Cons,Safety,Values,ValSteps,Theorems,Examples}.v, "
                 "coq/Props/C0x_k3ticket.v, ocaml/eng_k3ticket.ml, harness/sched/src/bin/k3ticket.rs (+scen.rs), vlib/engines_k3ticket.py",
         "kind": "K3 atomic-step model of mpsc::bounded_v3 (g_tail/progress/drained/consumer_retired, chunk table with id epochs, "
                 "per-slot EMPTY/SET/SKIP, credit-before-claim try_send_now(+_cold), claim_run(+_cold)/resolve_run batches, ensure_resident "
                 "reuse CAS, deq_once/deq_run with reset-on-drain, K-cadenced publish_progress, handle drops); invariants proved for ALL capacities, chunk sizes, "
                 "table sizes, cadences, numbers of producers, programs and schedules; D2 trace refinement of real "
                 "scheduler-controlled executions + D3 source skeleton vs the model's step table"}
_ASSUME = [
    "K3 model semantics is sequentially consistent; the source's Orderings are carried as data and compared by D2 (per event) and D3 (per function row), not given a weak-memory semantics",
    "usize tickets/counters modelled as unbounded N (fewer than 2^64 tickets per channel); `x.wrapping_sub(y) < cap` is modelled exactly below 2^64; `ticket >> log2` / `& mask` are / and mod by chunk_cap (theorems hold for every chunk_cap >= 1 and table size >= 1, the code's values are an instance checked on every trace)",
    "payload cells (UnsafeCell<Option<T>>) are not traced: the model places the write / take as its own interleavable step before the state store / after the state load",
    "the traced backend numbers slot and table-entry atomics by first access: the replay identifies them up to an injective renaming fixed at first occurrence",
    "sync non-blocking API only: try_send, try_send_batch, try_recv, try_recv_batch, Drop; blocking send/recv/send_batch/recv_batch (the park protocol: waiter queues and counts, notify hand-off), recv_timeout, explicit close(), async handles and sync<->async conversion are outside this engine (K2 engine `mpscb` covers them sequentially)",
    "Shared::drop (frees the residue) touches no atomics and is not a model step; the residue is `buffered` in the final state",
]

_LAP_INFO = {"name": "E-TICKET search (k3ticket.lap)", "path": "vlib/engines_k3ticket.py, harness/sched/src/bin/{k3ticket,scen}.rs",
             "kind": "scheduler search with a forced round-robin prefix on the real mpsc::bounded_v3 (no theorem: the K3 ticket model "
                     "proves safety only; this engine carries the replayable witness of finding F-ticket-lap)"}

PROPS = {
    "C05": {"engines": [LAP_ENGINE], "assumptions": _ASSUME[:1], "engine_info": _LAP_INFO,
            "witness": {"F-ticket-lap": (LAP_ENGINE, LAP_WITNESS, LAP_CLAUSE)},
            "covers": "mpsc::bounded_v3 chunk-table reuse: no theorem (safety-only K3 model); known finding F-ticket-lap (table entry advanced past a live ticket wedges the channel) replayed on the real code"},
    "C01": {"engines": [ENGINE], "assumptions": _ASSUME, "engine_info": _INFO,
            "covers": "K3 mpsc::bounded_v3 (try_send, try_send_batch via claim_run/resolve_run, try_recv, try_recv_batch via deq_run), all schedules and producer counts: accepted = received ++ buffered in ticket order, NoDup, Ok items <-> SET tickets, Full/Closed items leave no SET, SKIP carries no payload"},
    "C02": {"engines": [ENGINE], "assumptions": _ASSUME, "engine_info": _INFO,
            "covers": "K3 mpsc::bounded_v3, all schedules: delivery in ticket order; per-producer FIFO (a thread's tickets and op numbers increase together) for accepted and received"},
    "C03": {"engines": [ENGINE], "assumptions": _ASSUME, "engine_info": _INFO,
            "covers": "K3 mpsc::bounded_v3 (single claims and claim_run batches), all schedules: SET-undrained tickets lie in [pos, pos+cap), at most cap payloads buffered; progress, drained <= pos <= g_tail; the cursor never passes an owned ticket"},
    "C09": {"engines": [ENGINE], "assumptions": _ASSUME, "engine_info": _INFO,
            "covers": "K3 mpsc::bounded_v3, all schedules: slot ownership (written only by the ticket owner while EMPTY and resident; exact slot contents), reset-on-drain (a retired chunk is all EMPTY), table entries re-labelled only when retired, no cell overwritten/taken empty"},
}
