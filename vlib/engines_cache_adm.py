"""Engine `cache.adm` — MODEL-FREE: the real fibre_cache::Cache with the eviction policies the Coq model
(coq/Cache/CacheOps.v) does not cover: TinyLfu (the builder default; the only policy that answers
AdmitAndEvict), Arc, Slru, Random.  Same harness binary as engine `cache` (harness/seqdrv/src/bin/cache.rs);
only the implementation runs, the monitor below judges C11 / C13 / C16 clauses from its outputs alone.
It never stands in for a theorem: it is the implementation-side search over the code paths the model
leaves out (perform_shard_maintenance's AdmitAndEvict branch above all).

case:  <pol> <shards> <cap> 0 0 60 1 0 0 <now0> s  op*      (no TTL/TTI: residency == peek visibility)
ops:   i K V C | g K | p K | r K | x K | m | s N | y V
       s N = scan: `c=<current_cost>|k:v,...` for the resident keys among 0..N-1 (peek, no side effect)
The generator puts a scan after every op, so the monitor knows the resident set at every point."""
from .flow import Engine

S = 10 ** 9
SENTINEL = 1000
ARITY = {"i": 4, "g": 2, "p": 2, "r": 2, "x": 2, "m": 1, "s": 2, "y": 2}
POLICIES = ("tinylfu", "arc", "slru", "random")
DRAIN = 16           # COOPERATIVE_MAINTENANCE_DRAIN_LIMIT: events drained per shard per run_maintenance (F-34-drain)


class CacheAdmEngine(Engine):
    model_free = True
    model_file = "(none: implementation-side monitors)"
    exe = "cache"
    name = "cache.adm"

    def __init__(self, pols=POLICIES):
        self.pols = tuple(pols)

    def n_cases(self, tier):
        return 600 if tier == "quick" else 12000

    # ------------------------------------------------------------------ format
    def split(self, line):
        t = line.split()
        hdr, ops, i = t[:11], [], 11
        while i < len(t):
            k = ARITY[t[i]]
            ops.append(t[i:i + k])
            i += k
        return hdr, ops

    def join(self, header, ops):
        """a scan after every non-scan op (also after shrinking), a sync at the end"""
        nk = 1 + max([int(op[1]) for op in ops if op[0] in ("i", "g", "p", "r", "x")] + [0])
        out = []
        for op in ops:
            if op[0] == "s":
                continue
            out.append(op)
            out.append(["s", str(nk)])
        if not any(op[0] == "y" for op in out[-2:]):
            out += [["y", "990000"], ["s", str(nk)]]
        return " ".join(header + [t for op in out for t in op])

    def header(self, pol, shards, cap):
        return [pol, str(shards), str(cap), "0", "0", "60", "1", "0", "0", str(1000 * S), "s"]

    # --------------------------------------------------------------- generator
    def corpus(self):
        out = []
        for pol in self.pols:
            # full cache of hot residents, a burst of cold inserts, ONE maintenance pass
            hot = [["i", str(k), str(100 + k), "1"] for k in range(8)]
            warm = [["g", str(k)] for k in range(8)] * 3
            cold = [["i", str(8 + j), str(200 + j), "1"] for j in range(8)]
            out.append(self.join(self.header(pol, 1, 8), hot + [["m"]] + warm + [["m"]] + cold + [["m"], ["y", "900"]]))
            out.append(self.join(self.header(pol, 2, 10),
                                 hot + [["m"]] + warm + [["m"]] + cold + [["m"], ["r", "1"], ["x", "9"], ["m"], ["y", "901"]]))
        return out

    def gen(self, rng, tier):
        pol = rng.pick(self.pols)
        shards = rng.pick([1, 1, 2])
        cap = rng.pick([8, 8, 10, 16, 30, 100])
        hdr = self.header(pol, shards, cap)
        nhot = rng.pick([3, 4, 6, 8])
        ncold = rng.pick([6, 10, 16])
        nextv = [100]

        def fresh():
            nextv[0] += 1
            return nextv[0]

        ops = []
        costs = [1, 1, 1, 2, 3] if cap < 30 else [1, 2, 5, 10, cap // 4]
        rounds = rng.pick([1, 2, 3])
        for _ in range(rounds):
            # 1. fill with hot residents, drain
            fill = [["i", str(k), str(fresh()), str(rng.pick(costs))] for k in range(nhot)]
            extra = [["i", str(rng.below(nhot)), str(fresh()), str(rng.pick(costs))] for _ in range(rng.below(4))]
            ops += fill + extra
            ops += [["m"]] * (1 + (len(fill) + len(extra)) // (DRAIN * 1))
            # 2. make them hot
            for _ in range(rng.pick([1, 2, 4])):
                for k in range(nhot):
                    if rng.chance(4, 5):
                        ops.append([rng.pick(["g", "g", "p"]), str(k)])
            ops.append(["m"])
            # 3. a burst of cold inserts (<= DRAIN per shard so that ONE pass drains it), then ONE maintenance
            burst = rng.pick([2, 4, 8, 12, DRAIN - 1])
            for _ in range(burst):
                ops.append(["i", str(nhot + rng.below(ncold)), str(fresh()), str(rng.pick(costs))])
            ops.append(["m"])
            # 4. the usual mix
            for _ in range(rng.pick([0, 3, 8])):
                o = rng.weighted([("i", 5), ("g", 4), ("p", 2), ("r", 3), ("x", 2), ("m", 3), ("y", 1)])
                k = str(rng.below(nhot + ncold + 1))
                if o == "i":
                    ops.append(["i", k, str(fresh()), str(rng.pick(costs))])
                elif o == "m":
                    ops.append(["m"])
                elif o == "y":
                    ops.append(["y", str(fresh())])
                else:
                    ops.append([o, k])
            if rng.chance(1, 2):
                ops.append(["y", str(fresh())])
        return self.join(hdr, ops)

    def nontrivial(self, line, impl_out):
        return len(self.split(line)[1]) >= 6

    def shape(self, line):
        hdr, ops = self.split(line)
        return "%s %s %s|%s" % (hdr[0], hdr[1], hdr[2], " ".join(op[0] for op in ops if op[0] != "s"))

    # ------------------------------------------------------------------ monitor
    def monitor(self, line, out):
        hdr, ops = self.split(line)
        outs = [o.strip() for o in out.split(";")] if out.strip() else []
        hits = []
        if len(outs) != len(ops):
            if outs and outs[-1] == "PANIC":
                return [("panic", "op %s panicked" % " ".join(ops[len(outs) - 1]))]
            return [("bad-output", "%d outputs for %d ops" % (len(outs), len(ops)))]
        pol, shards, cap = hdr[0], int(hdr[1]), int(hdr[2])
        owner = {}          # value id -> (key, cost)
        last = {}           # key -> latest written value id, or None after remove
        user_removed = set()      # value ids an explicit remove/invalidate hit
        notified = {}       # value id -> reason
        resident = {}       # key -> value id, from the latest scan
        pending = {}        # shard -> undrained Write events (the monitor's own count)
        overflow = False
        drained_by_last_m = False

        def hit(c, d):
            hits.append((c, d))

        def wrote(k, v, c):
            owner[v] = (k, c)
            last[k] = v
            sh = k % shards
            n = pending.get(sh, 0)
            if n >= 512:
                nonlocal_overflow[0] = True
            else:
                pending[sh] = n + 1

        nonlocal_overflow = [False]

        def check_read(k, v, what):
            o = owner.get(v)
            if o is None or o[0] != k:
                hit("C11:foreign-read", "%s on key %d returned %d, never written to that key" % (what, k, v))
            elif last.get(k) != v:
                hit("C11:stale-read", "%s on key %d returned %d, but the latest write/remove of that key left %r" % (what, k, v, last.get(k)))
            if v in notified:
                hit("C16:notify-phantom", "%s on key %d returned %d after its removal was notified (%s)" % (what, k, v, notified[v]))

        for idx, (op, o) in enumerate(zip(ops, outs)):
            c = op[0]
            try:
                if o == "PANIC":
                    hit("panic", "op %s panicked" % " ".join(op))
                    break
                if c == "i":
                    wrote(int(op[1]), int(op[2]), int(op[3]))
                    drained_by_last_m = False
                elif c in ("g", "p"):
                    if o != "none":
                        check_read(int(op[1]), int(o), "get" if c == "g" else "peek")
                elif c in ("r", "x"):
                    k = int(op[1])
                    if c == "r" and o != "none":
                        check_read(k, int(o), "remove")
                        user_removed.add(int(o))
                    elif c == "x" and o == "true":
                        if resident.get(k) is not None:
                            user_removed.add(resident[k])
                    last[k] = None
                elif c == "m":
                    left = 0
                    for sh in list(pending):
                        pending[sh] = max(0, pending[sh] - DRAIN)
                        left += pending[sh]
                    drained_by_last_m = (left == 0) and not nonlocal_overflow[0]
                elif c == "y":
                    v = int(op[1])
                    if o.startswith("n-TIMEOUT"):
                        hit("sync-timeout", "the sentinel's notification did not arrive within the bound")
                        o = "n" + o[len("n-TIMEOUT"):]
                    owner[v] = (SENTINEL, 0)
                    user_removed.add(v)
                    sh = SENTINEL % shards
                    pending[sh] = min(512, pending.get(sh, 0) + 1)
                    drained_by_last_m = False
                    body = o[2:-1]
                    for ks, vs, r in ([x.split(":") for x in body.split(",")] if body else []):
                        k, val = int(ks), int(vs)
                        ow = owner.get(val)
                        if ow is None or ow[0] != k:
                            hit("C16:notify-phantom", "notification (%d, %d, %s): that value was never stored under that key" % (k, val, r))
                            continue
                        if val in notified:
                            hit("C16:notify-duplicate", "value %d of key %d notified twice (%s, then %s)" % (val, k, notified[val], r))
                            continue
                        notified[val] = r
                        if r == "I" and val not in user_removed:
                            hit("C16:notify-wrong-reason", "(%d, %d) notified Invalidated but no remove/invalidate hit it" % (k, val))
                        elif r == "E":
                            hit("C16:notify-wrong-reason", "(%d, %d) notified Expired on a cache without TTL/TTI" % (k, val))
                        elif r == "C" and val in user_removed:
                            hit("C16:notify-wrong-reason", "(%d, %d) was removed by remove()/invalidate but notified Capacity" % (k, val))
                elif c == "s":
                    cc_s, _, body = o.partition("|")
                    cc = int(cc_s[2:])
                    resident = {}
                    tot = 0
                    for kv in (body.split(",") if body else []):
                        k, v = (int(x) for x in kv.split(":"))
                        resident[k] = v
                        check_read(k, v, "scan peek")
                        tot += owner.get(v, (k, 0))[1]
                    if cc != tot:
                        hit("C13:cost-drift", "metrics().current_cost = %d but the resident entries cost %d (after op %s)" % (
                            cc, tot, " ".join(ops[idx - 1]) if idx else "-"))
                    prev = ops[idx - 1][0] if idx else ""
                    if prev == "m" and drained_by_last_m and pol in CAPACITY_EXACT and tot > cap:
                        hit("C13:over-capacity", "after a fully draining run_maintenance the resident entries cost %d > capacity %d" % (tot, cap))
            except (ValueError, IndexError, KeyError) as e:
                hit("bad-output", "op %s output %r: %r" % (" ".join(op), o, e))
                break
        seen, res = set(), []
        for cl, d in hits:
            if cl not in seen:
                seen.add(cl)
                res.append((cl, d))
        return res


# policies for which "drained + maintained => within capacity" is judged (see docs/C13.md §cache.adm)
# Arc is excluded: ArcPolicy::on_admit can demote a resident to a ghost list without nominating it
# (known finding F-20-arc-admit, C14), leaving an unevictable resident -- 24 of 400 seed-1 cases.
CAPACITY_EXACT = ("tinylfu", "slru", "random")
