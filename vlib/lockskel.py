"""D3 for the E-LOCK engine: the ordered facade operations of the modelled functions of
channels/src/sync/{mutex,wait_queue,rwlock}.rs, read from the CURRENT source text (regex over the
brace structure, no Rust parser), in the format printed by `modelrun_k3lock --skeleton`.

A row is  `<fn> := <var> <op> <ord> <ordfail> ; ...`  where op is load/store/swap/cas/casw/fetch_or/
fetch_and/fetch_add/fetch_sub/park/unpark/yield_now/spin_loop/call:<fn>.  Deliberately dumb: any
edit of a modelled function's atomic sequence or of an Ordering literal changes its row."""
import os
import re

ORD = {"Relaxed": "Rlx", "Acquire": "Acq", "Release": "Rel", "AcqRel": "AcqRel", "SeqCst": "SeqCst"}
ATOMIC = {"load": "load", "store": "store", "swap": "swap", "compare_exchange": "cas",
          "compare_exchange_weak": "casw", "fetch_or": "fetch_or", "fetch_and": "fetch_and",
          "fetch_add": "fetch_add", "fetch_sub": "fetch_sub"}


def strip_comments(src):
    src = re.sub(r"/\*.*?\*/", "", src, flags=re.S)
    return re.sub(r"//[^\n]*", "", src)


def block_after(src, start):
    """text of the brace block whose '{' is the first one at or after `start`"""
    i = src.index("{", start)
    depth, j = 0, i
    while j < len(src):
        if src[j] == "{":
            depth += 1
        elif src[j] == "}":
            depth -= 1
            if depth == 0:
                return src[i + 1:j]
        j += 1
    raise ValueError("unbalanced braces")


def fn_body(src, impl_re, fn):
    """body of `fn <fn>` (inside the first impl block matching impl_re, if given)"""
    scope = src
    if impl_re:
        m = re.search(impl_re, src)
        if not m:
            return None
        scope = block_after(src, m.start())
    m = re.search(r"\bfn\s+%s\s*(<[^>]*>)?\s*\(" % re.escape(fn), scope)
    if not m:
        return None
    # skip the signature up to the body's opening brace
    return block_after(scope, m.end())


def args_of(text, open_idx):
    depth, j = 0, open_idx
    while j < len(text):
        if text[j] == "(":
            depth += 1
        elif text[j] == ")":
            depth -= 1
            if depth == 0:
                return text[open_idx + 1:j]
        j += 1
    return text[open_idx + 1:]


def var_of(recv):
    if recv.endswith(".locked"):
        return "locked"
    if recv.endswith(".state"):
        return "node.state" if "node" in recv or "cur" in recv else "state"
    return "?" + recv


def ops_of(body, calls, self_name):
    """ordered (pos, row-item) list for one function body"""
    t = re.sub(r"\s+", "", body)
    items = []
    for m in re.finditer(r"([A-Za-z_][\w\.\*\(\)]*?)\.(%s)\(" % "|".join(sorted(ATOMIC, key=len, reverse=True)), t):
        recv, meth = m.group(1), m.group(2)
        if not (recv.endswith(".state") or recv.endswith(".locked")):
            continue
        a = args_of(t, m.end() - 1)
        ords = [ORD.get(o, o) for o in re.findall(r"Ordering::(\w+)", a)]
        while len(ords) < 2:
            ords.append("-")
        items.append((m.start(), "%s %s %s %s" % (var_of(recv), ATOMIC[meth], ords[0], ords[1])))
    for pat, name in calls:
        if name == self_name:
            continue
        for m in re.finditer(pat, t):
            items.append((m.start(), "- %s - -" % name))
    items.sort()
    return [x for _, x in items]


COMMON_CALLS = [
    (r"thread::park\(\)", "park"),
    (r"thread::yield_now\(\)", "yield_now"),
    (r"hint::spin_loop\(\)", "spin_loop"),
    (r"\bt\.unpark\(\)", "unpark"),
    (r"\.waiters\.lock\(\)", "call:WaitList::lock"),
    (r"\.fix_flags\(", "call:fix_flags"),
    (r"\bg\.rearm\(", "call:rearm"),
    (r"\bg\.take_and_mark_woken\(", "call:take_and_mark_woken"),
    (r"\bw\.wake\(\)", "call:Waiter::wake"),
    (r"\.finish_node\(\)", "call:finish_node"),
]

MUTEX_CALLS = COMMON_CALLS + [
    (r"\.try_acquire\(\)", "call:try_acquire"),
    (r"\.lock_slow\(\)", "call:lock_slow"),
    (r"\.wake_next\(\)", "call:wake_next"),
    (r"\.unlock\(\)", "call:unlock"),
]

RW_CALLS = COMMON_CALLS + [
    (r"\.try_acquire_read\(\)", "call:try_acquire_read"),
    (r"\.try_acquire_write\(\)", "call:try_acquire_write"),
    (r"\.read_slow\(\)", "call:read_slow"),
    (r"\.write_slow\(\)", "call:write_slow"),
    (r"\.wake_waiters\(\)", "call:wake_waiters"),
    (r"\.unlock_read\(\)", "call:unlock_read"),
    (r"\.unlock_write\(\)", "call:unlock_write"),
]

# (row name, file, impl regex or None, fn name)
MUTEX_FNS = [
    ("try_acquire", "mutex.rs", None, "try_acquire"),
    ("lock", "mutex.rs", None, "lock"),
    ("lock_slow", "mutex.rs", None, "lock_slow"),
    ("lock_async", "mutex.rs", None, "lock_async"),
    ("try_lock", "mutex.rs", None, "try_lock"),
    ("unlock", "mutex.rs", None, "unlock"),
    ("fix_flags", "mutex.rs", None, "fix_flags"),
    ("wake_next", "mutex.rs", None, "wake_next"),
    ("MutexGuard::drop", "mutex.rs", r"impl<T>\s*Drop\s+for\s+MutexGuard", "drop"),
    ("MutexFuture::poll", "mutex.rs", r"Future\s+for\s+MutexFuture", "poll"),
    ("finish_node", "mutex.rs", r"impl<T>\s*MutexFuture", "finish_node"),
    ("MutexFuture::drop", "mutex.rs", r"impl<T>\s*Drop\s+for\s+MutexFuture", "drop"),
    ("WaitList::lock", "wait_queue.rs", r"impl\s+WaitList", "lock"),
    ("ListGuard::drop", "wait_queue.rs", r"impl\s+Drop\s+for\s+ListGuard", "drop"),
    ("rearm", "wait_queue.rs", None, "rearm"),
    ("take_and_mark_woken", "wait_queue.rs", None, "take_and_mark_woken"),
    ("Waiter::wake", "wait_queue.rs", r"impl\s+Waiter\b", "wake"),
]

RW_FNS = [
    ("try_acquire_read", "rwlock.rs", None, "try_acquire_read"),
    ("try_acquire_write", "rwlock.rs", None, "try_acquire_write"),
    ("read", "rwlock.rs", None, "read"),
    ("read_slow", "rwlock.rs", None, "read_slow"),
    ("read_async", "rwlock.rs", None, "read_async"),
    ("write", "rwlock.rs", None, "write"),
    ("write_slow", "rwlock.rs", None, "write_slow"),
    ("write_async", "rwlock.rs", None, "write_async"),
    ("try_read", "rwlock.rs", None, "try_read"),
    ("try_write", "rwlock.rs", None, "try_write"),
    ("unlock_read", "rwlock.rs", None, "unlock_read"),
    ("unlock_write", "rwlock.rs", None, "unlock_write"),
    ("fix_flags", "rwlock.rs", None, "fix_flags"),
    ("wake_waiters", "rwlock.rs", None, "wake_waiters"),
    ("ReadGuard::drop", "rwlock.rs", r"impl<T>\s*Drop\s+for\s+ReadGuard", "drop"),
    ("WriteGuard::drop", "rwlock.rs", r"impl<T>\s*Drop\s+for\s+WriteGuard", "drop"),
    ("ReadFuture::poll", "rwlock.rs", r"Future\s+for\s+ReadFuture", "poll"),
    ("ReadFuture::finish_node", "rwlock.rs", r"impl<T>\s*ReadFuture", "finish_node"),
    ("ReadFuture::drop", "rwlock.rs", r"impl<T>\s*Drop\s+for\s+ReadFuture", "drop"),
    ("WriteFuture::poll", "rwlock.rs", r"Future\s+for\s+WriteFuture", "poll"),
    ("WriteFuture::finish_node", "rwlock.rs", r"impl<T>\s*WriteFuture", "finish_node"),
    ("WriteFuture::drop", "rwlock.rs", r"impl<T>\s*Drop\s+for\s+WriteFuture", "drop"),
]


def source_rows(repo, prefix, fns, calls):
    rows = {}
    cache = {}
    for name, fname, impl_re, fn in fns:
        path = os.path.join(repo, "channels", "src", "sync", fname)
        if path not in cache:
            try:
                cache[path] = strip_comments(open(path).read())
            except OSError:
                cache[path] = ""
        # test modules come last in these files; cut them off so `fn lock` etc. resolve to the real ones
        src = cache[path].split("#[cfg(test)]")[0]
        body = fn_body(src, impl_re, fn)
        key = prefix + name
        rows[key] = "<function not found>" if body is None else " ; ".join(ops_of(body, calls, "call:" + name))
    return rows


def model_rows(skeleton_line):
    rows = {}
    for part in skeleton_line.split(" || "):
        if " := " in part:
            k, v = part.split(" := ", 1)
            rows[k.strip()] = v.strip()
        elif part.strip().endswith(":="):
            rows[part.strip()[:-2].strip()] = ""
    return rows


def diff(repo, skeleton_line, kinds=("mutex",)):
    """-> (n rows compared, list of mismatch dicts)"""
    model = model_rows(skeleton_line)
    src = {}
    if "mutex" in kinds:
        src.update(source_rows(repo, "mutex.", MUTEX_FNS, MUTEX_CALLS))
    if "rwlock" in kinds:
        src.update(source_rows(repo, "rwlock.", RW_FNS, RW_CALLS))
    bad = []
    for k in sorted(set(src) | set(model)):
        if not any(k.startswith(p + ".") for p in kinds):
            continue
        if src.get(k) != model.get(k):
            bad.append({"function": k, "source": src.get(k, "<not extracted>"), "model": model.get(k, "<no model row>")})
    return len(src), bad


if __name__ == "__main__":
    import sys
    repo = sys.argv[1] if len(sys.argv) > 1 else "/repo"
    for k, v in sorted(source_rows(repo, "mutex.", MUTEX_FNS, MUTEX_CALLS).items()):
        print(k, ":=", v)
    for k, v in sorted(source_rows(repo, "rwlock.", RW_FNS, RW_CALLS).items()):
        print(k, ":=", v)
