"""K3 oneshot engine: atomic-step, all-interleavings model of fibre::oneshot (coq/Chan/OneshotK3.v,
theorems in coq/Proofs/OneshotK3*.v, pinned in coq/Props/C0x_k3oneshot.v) and its tie to the real code:

  D2  pass 1: harness/sched/src/bin/k3oneshot.rs runs a generated scenario program (one receiver
      thread: try_recv / block_on(recv()) / close / drop; N sender clones: send / drop / close+send) on
      the REAL channel under the deterministic scheduler (hooks H1+H2) and prints the atomic event trace
      plus the API results; pass 2 (flow's `model_input` hook): the extracted model
      (`modelrun_k3oneshot`, ocaml/eng_k3oneshot.ml over Conc.replay) must accept that trace event by
      event -- same variable, operation, Ordering, values read/written, lock success -- and reproduce
      the API results.  `S` cases are monitor-only schedule searches.  The scenario runner's monitors
      (MON / FAIL parts) judge the property clauses on the real run; a hit is a concrete schedule.
  D3  `K` cases: for every modelled Rust function, the ordered facade operations
      (variable, op, Ordering) and calls extracted here from the CURRENT source text, versus the table
      the model driver prints from the Coq `skeleton` (built from the constants the step function uses).

CFG is the model switch: bit 0 = F-36-oneshot repaired in /repo, bit 1 = F-37-oneshot repaired."""
import os
import re

from . import common as C
from .flow import Engine
from .engines_k3spsc import _strip, _fn_bodies, _paren_end

# The model describes /repo WITH the repairs docs/fixes/k3oneshot_F-36.diff (bit 0) and
# docs/fixes/k3oneshot_F-37.diff (bit 1): "3".  ("0" = the code before the repairs; the refuted-theorems'
# witnesses in coq/Props are stated for that cfg.  VERIF_K3ONESHOT_CFG overrides, for experiments.)
CFG = os.environ.get("VERIF_K3ONESHOT_CFG", "3")

# ---------------------------------------------------------------------------------- D3 extractor
ORD = {"Relaxed": "Rlx", "Acquire": "Acq", "Release": "Rel", "AcqRel": "AcqRel", "SeqCst": "SeqCst"}
OPK = {"load": "load", "store": "store", "swap": "swap", "fetch_sub": "fsub", "fetch_add": "fadd",
       "compare_exchange": "cas", "compare_exchange_weak": "casw"}
CALLS = "try_recv|poll_recv|send|decrement_senders|increment_senders|mark_receiver_dropped|close_internal|wake|register"
TOKEN_RE = re.compile(
    r"(?P<atom>(?P<var>\w+)\s*\.\s*(?P<op>load|store|swap|fetch_sub|fetch_add|compare_exchange_weak|compare_exchange)\s*\()"
    r"|(?P<lock>(?P<lvar>\w+)\s*\.\s*lock\s*\(\s*\))"
    r"|(?P<call>(?<![\w])(?<!fn )(?P<cname>" + CALLS + r")\s*\()")

CORE = "channels/src/oneshot/core.rs"
MOD = "channels/src/oneshot/mod.rs"
FUNCS = [
    ("core.rs::OneShotShared::send", CORE, "OneShotShared", "send"),
    ("core.rs::OneShotShared::decrement_senders", CORE, "OneShotShared", "decrement_senders"),
    ("core.rs::OneShotShared::mark_receiver_dropped", CORE, "OneShotShared", "mark_receiver_dropped"),
    ("core.rs::OneShotShared::try_recv", CORE, "OneShotShared", "try_recv"),
    ("core.rs::OneShotShared::poll_recv", CORE, "OneShotShared", "poll_recv"),
    ("core.rs::OneShotShared::drop", CORE, "OneShotShared", "drop"),
    ("mod.rs::Sender::send", MOD, "Sender", "send"),
    ("mod.rs::Sender::close", MOD, "Sender", "close"),
    ("mod.rs::Sender::close_internal", MOD, "Sender", "close_internal"),
    ("mod.rs::Sender::drop", MOD, "Sender", "drop"),
    ("mod.rs::Receiver::try_recv", MOD, "Receiver", "try_recv"),
    ("mod.rs::Receiver::close", MOD, "Receiver", "close"),
    ("mod.rs::Receiver::close_internal", MOD, "Receiver", "close_internal"),
    ("mod.rs::Receiver::drop", MOD, "Receiver", "drop"),
    ("mod.rs::ReceiveFuture::poll", MOD, "ReceiveFuture", "poll"),
]


def _rows(body):
    rows = []
    for m in TOKEN_RE.finditer(body):
        if m.group("atom"):
            par = m.end() - 1
            args = body[par:_paren_end(body, par) + 1]
            ords = [ORD.get(o, o) for o in re.findall(r"Ordering::(\w+)", args)]
            op = OPK[m.group("op")]
            if op in ("cas", "casw"):
                o = "/".join((ords + ["?", "?"])[:2])
            else:
                o = ords[0] if ords else "?"
            rows.append("%s.%s.%s" % (m.group("var"), op, o))
        elif m.group("lock"):
            rows.append("%s.lock.-" % m.group("lvar"))
        elif m.group("call"):
            rows.append("call." + m.group("cname"))
    return rows


_src_cache = {}


def source_skeleton():
    """-> [(function id, [rows])] extracted from the current source text under C.REPO"""
    out = []
    for fid, rel, ty, fn in FUNCS:
        path = os.path.join(C.REPO, rel)
        if path not in _src_cache:
            try:
                _src_cache[path] = _fn_bodies(_strip(open(path).read()))
            except OSError:
                _src_cache[path] = None
        bodies = _src_cache[path]
        if bodies is None:
            out.append((fid, ["<missing-file>"]))
        elif (ty, fn) not in bodies:
            out.append((fid, ["<missing-fn>"]))
        else:
            out.append((fid, _rows(bodies[(ty, fn)]) or ["<no-facade-ops>"]))
    return out


# explicit schedules (scheduler pick lists) of the recorded findings; thread 0 = receiver
_CH36 = "0,0," + ",".join(["1"] * 14) + "," + ",".join(["0"] * 12)
W36_C04 = "T %s 3 rand choices=%s | R: tr tr | S: s" % (CFG, _CH36)
W36_C01 = "T %s 3 rand choices=%s | R: rv | S: s" % (CFG, _CH36)


# ---------------------------------------------------------------------------------- the engine
class K3OneshotEngine(Engine):
    name = "k3oneshot"
    crate = "sched"
    exe = "k3oneshot"
    per_shard = 40
    model_file = "Chan/OneshotK3.v"

    def n_cases(self, tier):
        return 420 if tier == "quick" else 20000

    # ---- generation: T = one traced schedule (replayed by the model), S = monitor-only search
    def corpus(self):
        c = CFG
        ks = ["K %s %s %s" % (c, fid, " ".join(rows)) for fid, rows in source_skeleton()]
        fixed = [
            W36_C04, W36_C01,                                   # F-36-oneshot (regression cases once fixed)
            "T %s 11 pct | R: rv | S: s" % c,                   # park, woken by the send
            "T %s 12 pct | R: rv rv | S: s | S: d" % c,         # second recv future: woken by the last sender (F-34)
            "T %s 13 pct | R: rv | S: d | S: d" % c,            # Disconnected: last sender wakes
            "T %s 14 rand | R: tr tr tr | S: s | S: s | S: s" % c,   # three senders race for EMPTY->WRITING
            "T %s 15 rand | R: c | S: s | S: s" % c,            # receiver closes: Closed / backtrack / last-sender cleanup
            "T %s 16 rand | R: | S: s" % c,                     # receiver drops at once
            "T %s 17 rand | R: tr c tr rv c | S: cs | S: s" % c,     # handle-local closed flags
            "T %s 18 pct | R: rv tr rv | S: s | S: s | S: d | S: cs" % c,
            "S %s 21 60 | R: rv rv | S: s | S: d" % c,
            "S %s 22 60 | R: tr rv | S: s | S: s | S: d" % c,
            "S %s 23 60 | R: rv c | S: s | S: s" % c,
        ]
        return ks + fixed

    def gen(self, rng, tier):
        n = rng.weighted([(1, 3), (2, 4), (3, 3), (4, 1)])
        nr = rng.weighted([(0, 1), (1, 3), (2, 4), (3, 3), (4, 1)])
        rops = [rng.weighted([("tr", 4), ("rv", 5), ("c", 1)]) for _ in range(nr)]
        sops = [rng.weighted([("s", 6), ("d", 3), ("cs", 1)]) for _ in range(n)]
        seed = 1 + rng.below(1 << 30)
        thr = "R: %s | %s" % (" ".join(rops), " | ".join("S: " + o for o in sops))
        if rng.chance(1, 8):
            return "S %s %d %d | %s" % (CFG, seed, 12 if tier == "quick" else 60, thr)
        return "T %s %d %s | %s" % (CFG, seed, rng.weighted([("pct", 2), ("rand", 3)]), thr)

    # ---- two-pass plumbing
    def model_input(self, line, impl_out):
        kind = line.split(None, 1)[0]
        if kind == "T":
            if " @@ " not in impl_out:
                return "oneshot %s | R: | S: d || res=?" % CFG
            head, case = impl_out.split(" @@ ", 1)
            _STATS["park_events"] += case.count(" park ")
            _STATS["unpark_events"] += case.count(" unpark ")
            _STATS["failed_lock_events"] += len(re.findall(r" lock \S+ - - a=0 b=0 r=0 ok=0", case))
            mon = head.split(" || ", 1)[1] if " || " in head else ""
            return case + (" || " + mon if mon else "")
        if kind == "S":
            return "S " + self.canon(impl_out)
        if kind == "K":
            t = line.split()
            return "K %s %s" % (t[1], t[2])
        return line

    def canon(self, out):
        if " @@ " in out:            # implementation side of a T case: verdict @@ model case
            return out.split(" @@ ", 1)[0]
        if out.startswith("search ok"):
            return "search ok"
        return out

    # ---- shrinking: ops are the receiver's ops and whole sender threads; the header keeps kind/cfg/seed/policy
    def split(self, line):
        if line.startswith("K "):
            return [line], []
        parts = [p.strip() for p in line.split("|")]
        ops = []
        for p in parts[1:]:
            toks = p.split()
            if not toks:
                continue
            if toks[0] == "R:":
                ops += [["R" + t] for t in toks[1:]]
            else:
                ops.append(["S" + (toks[1] if len(toks) > 1 else "d")])
        return [parts[0]], ops

    def join(self, header, ops):
        if header[0].startswith("K "):
            return header[0]
        r = [o[0][1:] for o in ops if o[0][0] == "R"]
        s = [o[0][1:] for o in ops if o[0][0] == "S"] or ["d"]
        return "%s | R: %s | %s" % (header[0], " ".join(r), " | ".join("S: " + x for x in s))

    def shape(self, line):
        h, ops = self.split(line)
        t = h[0].split()
        return t[0] + "|" + " ".join(o[0] for o in ops)

    def nontrivial(self, line, out):
        return line[0] in "TS" and len(self.split(line)[1]) >= 2

    # ---- property monitors: the scenario runner's judgement of the real run (clause ids prefixed)
    def monitor(self, line, out):
        kind = line.split(None, 1)[0]
        hits = []
        if kind == "T" and out.startswith("ok "):
            _STATS["traces"] += 1
            _STATS["schedules"] += 1
            _STATS["events"] += int(out.split()[1])
            for part in out.split(" || ")[1:]:
                if part.startswith("MON "):
                    hits.append((part.split()[1], part[4:400]))
        elif kind == "S":
            if out.startswith("search ok"):
                _STATS["schedules"] += int(line.split()[3])
            for part in out.split(" || "):
                if part.startswith("FAIL "):
                    hits.append((part.split()[1], part[5:400]))
        elif kind == "K":
            _STATS["skeleton_functions"] += 1
        if out.startswith("DRIVER"):
            hits.append(("C01:harness", out[:300]))
        return hits


ENGINE = K3OneshotEngine()

# evidence keys of the D2/D3 tie (same mechanism as engines_k3spsc: flow.py has no per-engine hook)
_STATS = {"traces": 0, "events": 0, "schedules": 0, "skeleton_functions": 0,
          "park_events": 0, "unpark_events": 0, "failed_lock_events": 0}


def _install_evidence_hook():
    from . import flow
    if getattr(flow.Run, "_k3oneshot_evidence", False):
        return
    orig = flow.Run.finish

    def finish(self):
        eng = self.cov.get("engines", {}).get(ENGINE.name)
        if eng is not None:
            ok_traces = max(0, _STATS["traces"] - eng.get("mismatches", 0))
            self.cov["traces_validated_against_impl"] = self.cov.get("traces_validated_against_impl", 0) + ok_traces
            eng.update({"traces_replayed_by_model": _STATS["traces"], "events_replayed": _STATS["events"],
                        "schedules_explored": _STATS["schedules"],
                        "skeleton_functions_compared": _STATS["skeleton_functions"],
                        "park_events_in_traces": _STATS["park_events"], "unpark_events_in_traces": _STATS["unpark_events"],
                        "failed_lock_events_in_traces": _STATS["failed_lock_events"], "model_cfg": CFG})
            self.cov["events_replayed"] = self.cov.get("events_replayed", 0) + _STATS["events"]
            self.cov["schedules_explored"] = self.cov.get("schedules_explored", 0) + _STATS["schedules"]
        return orig(self)

    flow.Run.finish = finish
    flow.Run._k3oneshot_evidence = True


_install_evidence_hook()

_INFO = {"name": "E-ONESHOT-K3 (k3oneshot)",
         "path": "coq/Chan/OneshotK3.v, coq/Proofs/OneshotK3*.v, coq/Props/C0x_k3oneshot.v, ocaml/eng_k3oneshot.ml, "
                 "harness/sched/src/bin/k3oneshot.rs, vlib/engines_k3oneshot.py",
         "kind": "K3 atomic-step model of fibre::oneshot (state machine EMPTY/WRITING/SENT/TAKEN/CLOSED, value slot under its "
                 "mutex, receiver_dropped, sender_count, AtomicWaker slot, block_on executor, handle drops, Drop for OneShotShared) "
                 "for N sender clones and one receiver; invariants proved for ALL N, programs and schedules; D2 trace refinement "
                 "of real scheduler-controlled executions + D3 source skeleton vs the model's table"}
_ASSUME = [
    "K3 oneshot: model semantics is sequentially consistent; the source's Orderings are carried as data and compared by D2 (per event) and D3 (per function row), not given a weak-memory semantics",
    "K3 oneshot: futures_util::AtomicWaker (untraced) is a linearizable one-slot register: register and wake's take are single atomic steps of their own (placed anywhere between the neighbouring traced events); its internal REGISTERING/WAKING hand-over is not modelled",
    "K3 oneshot: the payload cell is accessed only under the value_slot mutex; its write/take is folded into the successful lock step; a failed lock attempt is a step that changes nothing",
    "K3 oneshot: sender clones are created before the threads start (sender_count = N initially); clone during the run, is_sent/is_closed queries and mem::forget of handles are outside the model; sender_count on nat (fewer than 2^64 clones)",
    "K3 oneshot: the receiver's recv() future is driven by a block_on executor (flag + park/unpark, std one-token semantics); a future polled with some other waker and then abandoned is covered by the K2 engine `oneshot` only",
    "K3 oneshot: the Arc<OneShotShared> reference-count decrement is untraced: its own step after the last event of a handle drop",
]

_COV_FIX = (" (model cfg %s: bit0 = F-36 repair, bit1 = F-37 repair applied to /repo)" % CFG)

PROPS = {
    "C01": {"engines": [ENGINE], "assumptions": _ASSUME, "engine_info": _INFO,
            "witness": {"F-36-oneshot": (ENGINE, W36_C01, "C01:lost-after-disc")},
            "covers": "K3 oneshot, all N / programs / schedules: conservation (received + in hand + dropped by the channel + in the slot = written), the slot is occupied iff the state machine says so, at most one writer, NoDup, a failed send's value never enters the slot; final accounting after teardown; `received before Disconnected` full for the repaired try_recv/poll_recv, refuted on the code as it is (F-36-oneshot)" + _COV_FIX},
    "C03": {"engines": [ENGINE], "assumptions": _ASSUME, "engine_info": _INFO,
            "covers": "K3 oneshot, all schedules: at most one EMPTY->WRITING winner ever commits, at most one send reports Ok, every other racing send gets its value back"},
    "C04": {"engines": [ENGINE], "assumptions": _ASSUME, "engine_info": _INFO,
            "witness": {"F-36-oneshot": (ENGINE, W36_C04, "C04:disc-while-sent")},
            "covers": "K3 oneshot, all schedules: Disconnected on the open receiver handle only after the last sender left; with the repair also only if no value is pending or in flight, and never a value afterwards (refuted on the code as it is: F-36-oneshot, sender sends and leaves between try_recv's state load and its sender_count load); CLOSED only once a side is gone; Closed only after receiver_dropped; closed handles reject" + _COV_FIX},
    "C06": {"engines": [ENGINE], "assumptions": _ASSUME, "engine_info": _INFO,
            "covers": "K3 oneshot recv future under block_on, all schedules: a parked receiver always has a wake-up owed (registration intact and a sender still to take it, or flag/token set) - deadlock freedom for the repaired poll_recv; refuted on the code as it is when the value was already taken and the last sender leaves between poll_recv's sender_count load and the registration (F-37-oneshot, residue of F-34)" + _COV_FIX},
    "C09": {"engines": [ENGINE], "assumptions": _ASSUME, "engine_info": _INFO,
            "covers": "K3 oneshot, all schedules: the written value is consumed exactly once by exactly one of receiver take / receiver close-drop / last sender / Drop for OneShotShared; nothing is left in the slot after teardown; a handed-back value is never dropped by the channel"},
}
