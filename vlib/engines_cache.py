"""E-CACHE D1 engine: fibre_cache::Cache / AsyncCache through the public API (engine exe `cache`).

case line:  <pol> <shards> <cap|0> <ttl_ns|0> <tti_ns|0> <wheel> <listener> <opp> <intro> <now0_ns> <handle s|a> op*
(see ocaml/eng_cache.ml for the op alphabet).  One engine class; the property files C11/C12/C13/C16
instantiate it with `prop=` so that each check judges only its own clauses."""
from .flow import Engine

S = 10 ** 9
SENTINEL = 1000
ARITY = {"i": 4, "t": 5, "g": 2, "f": 2, "p": 2, "e": 4, "ew": 4, "eo": 2, "c": 3, "tc": 3, "cv": 3, "tv": 3,
         "r": 2, "x": 2, "C": 1, "mg": 2, "mi": 2, "mr": 2, "mx": 2, "m": 1, "a": 2, "$": 1, "y": 2}
POLICIES = ("lru", "fifo", "sieve", "clock", "null")


def klist(s):
    return [] if s == "-" else [int(x) for x in s.split(",")]


def items(s):
    return [] if s == "-" else [tuple(int(y) for y in x.split(":")) for x in s.split(",")]


class Hdr:
    def __init__(self, t):
        self.pol, self.shards, self.cap, self.ttl, self.tti, self.wheel = t[0], int(t[1]), int(t[2]), int(t[3]), int(t[4]), int(t[5])
        self.listener, self.opp, self.intro, self.now0, self.handle = t[6] == "1", t[7] == "1", t[8] == "1", int(t[9]), t[10]

    def shard(self, k):
        return k % self.shards


class CacheEngine(Engine):
    model_file = "Cache/CacheOps.v"
    exe = "cache"

    def __init__(self, pol, prop=None):
        self.pol = pol
        self.prop = prop
        self.name = "cache." + pol

    def n_cases(self, tier):
        return 500 if tier == "quick" else 8000

    # ------------------------------------------------------------------ format
    def split(self, line):
        t = line.split()
        hdr, ops, i = t[:11], [], 11
        while i < len(t):
            k = ARITY[t[i]]
            ops.append(t[i:i + k])
            i += k
        return hdr, ops

    def join(self, header, ops):
        return " ".join(header + [t for op in self.normalise(header, ops) for t in op])

    def normalise(self, header, ops):
        """Generator restrictions that keep the implementation deterministic (docs/C11.md §restrictions):
        (1) lru only: the read batch of a shard never holds two distinct keys (its iteration order is a
            random-state HashMap order; for the other policies on_access commutes);
        (2) a sync op before the notification channel (128) could fill, and one at the end of the case."""
        h = Hdr(header)
        out = []
        pending = {}       # shard -> set of keys read since the batch was last drained
        outstanding = 0    # upper bound on undelivered notifications
        nsync = 0

        def flush_all():
            pending.clear()

        for op in ops:
            o = op[0]
            reads = []
            if o in ("g", "f"):
                reads = [int(op[1])]
            elif o == "mg" and h.handle != "a":     # the async multiget bypasses the batcher
                reads = klist(op[1])
            if h.pol == "lru" and reads:
                # distinct keys of one multiget may share a shard: split is not possible, so drain first
                per = {}
                for k in reads:
                    per.setdefault(h.shard(k), set()).add(k)
                bad = any(len(ks | pending.get(sh, set())) > 1 for sh, ks in per.items())
                if bad:
                    out.append(["m"])
                    flush_all()
                    outstanding += 9 * h.shards
                if any(len(ks) > 1 for ks in per.values()):
                    # cannot be made order-free: degrade to single reads
                    for k in reads:
                        if pending.get(h.shard(k), set()) - {k}:
                            out.append(["m"])
                            flush_all()
                            outstanding += 9 * h.shards
                        out.append(["g", str(k)])
                        pending.setdefault(h.shard(k), set()).add(k)
                    continue
                for sh, ks in per.items():
                    pending.setdefault(sh, set()).update(ks)
            if o == "m":
                flush_all()
                outstanding += 9 * h.shards
            elif o in ("i", "t") and h.opp:
                pending.pop(h.shard(int(op[1])), None)
            elif o == "$" and h.intro:
                flush_all()
            elif o in ("r", "x"):
                outstanding += 1
            elif o in ("mr", "mx"):
                outstanding += len(klist(op[1]))
            elif o == "y":
                outstanding = 0
            if outstanding > 100 and o != "y":
                out.append(op)
                out.append(["y", str(900000 + nsync)])
                nsync += 1
                outstanding = 0
                if h.opp:
                    pending.pop(h.shard(SENTINEL), None)
                continue
            out.append(op)
            if o == "y" and h.opp:
                pending.pop(h.shard(SENTINEL), None)
        if not out or out[-1][0] != "y":
            out.append(["y", str(990000)])
        return out

    # --------------------------------------------------------------- generator
    def corpus(self):
        p = self.pol
        base = str(1000 * S)
        T5 = str(5 * S)
        c = [
            # F-16: TTL 5 s, six immediate maintenance passes
            "%s 1 0 %s 0 60 1 0 0 %s s i 1 100 1 g 1 m m m m m m f 1 $ y 900" % (p, T5, base),
            # F-15: expired, not yet collected: entry()/or_insert serve it, get does not
            "%s 2 0 %s 0 60 0 0 0 %s s i 1 100 1 a %s g 1 eo 1 e 1 7 1 cv 1 k tv 1 s8 g 1" % (p, T5, base, T5),
            # boundary instants
            "%s 1 0 %s 0 60 0 0 0 %s s i 1 100 1 a %d g 1 p 1 a 1 g 1 p 1 a 1 g 1" % (p, T5, base, 5 * S - 1),
            # TTI refresh by get, not by peek
            "%s 1 0 0 %s 60 0 0 0 %s s i 1 100 1 a %d p 1 a 2 g 1 i 2 101 1 a %d g 2 a 2 g 2" % (p, T5, base, 5 * S - 1, 5 * S - 1),
            # overwrite, remove, resurrection checks
            "%s 8 0 0 0 60 1 0 0 %s s i 1 100 1 i 1 101 2 g 1 r 1 g 1 x 1 e 1 102 1 e 1 103 1 c 1 s104 g 1 C g 1 $ y 900" % (p, base),
            "%s 2 0 0 0 60 1 0 0 %s s mi 1:100:1,2:101:2,1:102:5 mg 1,2,3 mr 2,3 mg 1,2 mx 1 $ y 900" % (p, base),
        ]
        if p != "null":
            c += [
                # F-28: insert, remove, maintenance applies the stale Write event
                "%s 1 3 0 0 60 1 0 0 %s s i 1 100 5 r 1 m i 2 101 4 m $ g 2 m $ p 2 y 901" % (p, base),
                # F-29 shape: overwrite with a different cost
                "%s 1 10 0 0 60 1 0 0 %s s i 1 100 1 m i 1 101 8 i 2 102 8 m $ p 1 p 2 m $ y 902" % (p, base),
                # capacity eviction, item larger than capacity
                "%s 1 3 0 0 60 1 0 0 %s s i 1 100 1 i 2 101 1 i 3 102 1 i 4 103 1 m $ p 1 p 2 p 3 p 4 i 5 104 4 m $ p 5 y 903" % (p, base),
            ]
        return [self.join(*self.split(x)) for x in c]

    def gen(self, rng, tier):
        pol = self.pol
        shards = rng.pick([1, 2, 8])
        cap = 0 if pol == "null" else rng.pick([0, 3, 3, 10, 10])
        ttl = rng.pick([0, 0, 5 * S, 10 * S])
        tti = rng.pick([0, 0, 0, 5 * S, 10 * S])
        wheel = rng.pick([60, 60, 60, 4, 7])
        listener = rng.pick([0, 1, 1])
        opp = rng.pick([0, 0, 0, 1])
        intro = rng.pick([0, 0, 1])
        handle = "s" if opp else rng.pick(["s", "s", "a"])
        hdr = [pol, str(shards), str(cap), str(ttl), str(tti), str(wheel), str(listener), str(opp), str(intro),
               str(1000 * S), handle]
        nk = rng.pick([2, 3, 5, 8])
        n = rng.pick([3, 6, 10, 20, 40, 80])
        burst = tier != "quick" and rng.chance(1, 40)
        costs = [0, 1, 1, 1, 2, 5, (cap + 1) if cap else 7]
        nextv = [100]
        now = [0]
        deadlines = []
        ops = []

        def fresh():
            nextv[0] += 1
            return nextv[0]

        def key():
            return rng.below(nk)

        def note_deadline(d):
            if d:
                deadlines.append(now[0] + d)

        mode = rng.pick(["mix", "mix", "expiry", "capacity", "notify"])
        W = {"mix": dict(i=18, t=5, g=10, f=5, p=6, e=5, ew=2, eo=3, c=3, tc=1, cv=3, tv=1, r=6, x=3, C=1, mg=3, mi=3, mr=2, mx=1, m=9, a=8, d=5, y=2),
             "expiry": dict(i=14, t=8, g=12, f=4, p=8, e=6, ew=1, eo=5, c=1, tc=0, cv=3, tv=2, r=2, x=1, C=0, mg=3, mi=2, mr=1, mx=0, m=14, a=16, d=2, y=2),
             "capacity": dict(i=30, t=2, g=8, f=2, p=4, e=4, ew=1, eo=1, c=1, tc=0, cv=1, tv=0, r=7, x=2, C=1, mg=2, mi=4, mr=2, mx=1, m=14, a=1, d=8, y=2),
             "notify": dict(i=20, t=4, g=5, f=2, p=3, e=3, ew=0, eo=1, c=1, tc=0, cv=1, tv=0, r=12, x=6, C=1, mg=1, mi=3, mr=5, mx=3, m=12, a=5, d=2, y=8)}[mode]
        pairs = [(("$" if k == "d" else k), w) for k, w in W.items() if w]
        for _ in range(n):
            o = rng.weighted(pairs)
            if o == "i":
                ops.append(["i", str(key()), str(fresh()), str(rng.pick(costs))])
                note_deadline(ttl)
                note_deadline(tti)
            elif o == "t":
                d = rng.pick([0, 1, S // 2, S, 3 * S // 2, 2 * S, 5 * S, 7 * S, 61 * S])
                ops.append(["t", str(key()), str(fresh()), str(rng.pick(costs)), str(d)])
                note_deadline(d)
                note_deadline(tti)
            elif o in ("g", "f", "p", "eo", "r", "x"):
                ops.append([o, str(rng.below(nk + 1))])
                if o in ("g", "f"):
                    note_deadline(tti)
            elif o in ("e", "ew"):
                ops.append([o, str(key()), str(fresh()), str(rng.pick(costs))])
                note_deadline(ttl)
                note_deadline(tti)
            elif o in ("c", "tc", "cv", "tv"):
                f = ("s%d" % fresh()) if rng.chance(3, 4) else "k"
                ops.append([o, str(rng.below(nk + 1)), f])
            elif o == "C":
                ops.append(["C"])
            elif o in ("mg", "mr", "mx"):
                ks = [rng.below(nk + 1) for _ in range(rng.below(4))]
                ops.append([o, ",".join(map(str, ks)) if ks else "-"])
            elif o == "mi":
                its = ["%d:%d:%d" % (key(), fresh(), rng.pick(costs)) for _ in range(rng.below(4))]
                ops.append(["mi", ",".join(its) if its else "-"])
                note_deadline(ttl)
            elif o == "m":
                for _ in range(rng.pick([1, 1, 1, 2, 3, 7])):
                    ops.append(["m"])
            elif o == "a":
                future = [d for d in deadlines if d > now[0]]
                if future and rng.chance(3, 4):
                    d = rng.pick(future) - now[0] + rng.pick([-1, 0, 0, 1])
                    d = max(d, 0)
                else:
                    d = rng.pick([1, S, S, 2 * S, 5 * S - 1, 5 * S, 5 * S + 1, 10 * S, 60 * S])
                now[0] += d
                ops.append(["a", str(d)])
            elif o == "$":
                ops.append(["$"])
            elif o == "y":
                ops.append(["y", str(fresh())])
        if burst:
            k = key()
            at = rng.below(len(ops) + 1)
            b = [["i", str(rng.below(nk)) if rng.chance(1, 2) else str(k), str(fresh()), str(rng.pick([0, 1, 1, 2]))]
                 for _ in range(rng.pick([513, 530, 600, 1100]))]
            ops[at:at] = b
        # final scan: drain, cost, residency of every key by peek
        ops += [["m"], ["m"], ["$"]] + [["p", str(k)] for k in range(nk + 1)] + [["y", str(fresh())]]
        return self.join(hdr, ops)

    def nontrivial(self, line, impl_out):
        return len(self.split(line)[1]) >= 4

    def shape(self, line):
        hdr, ops = self.split(line)
        h = Hdr(hdr)
        return "%s %d %s %s %s|%s" % (h.pol, h.shards, bool(h.cap), bool(h.ttl), bool(h.tti), " ".join(op[0] for op in ops))
