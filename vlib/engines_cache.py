"""E-CACHE D1 engine: fibre_cache::Cache / AsyncCache through the public API (engine exe `cache`).

case line:  <pol> <shards> <cap|0> <ttl_ns|0> <tti_ns|0> <wheel> <listener> <opp> <intro> <now0_ns> <handle s|a> op*
(see ocaml/eng_cache.ml for the op alphabet).  One engine class; the property files C11/C12/C13/C16
instantiate it with `prop=` so that each check judges only its own clauses."""
from .flow import Engine

S = 10 ** 9
SENTINEL = 1000
ARITY = {"i": 4, "t": 5, "g": 2, "f": 2, "p": 2, "e": 4, "ew": 4, "eo": 2, "c": 3, "tc": 3, "cv": 3, "tv": 3,
         "r": 2, "x": 2, "C": 1, "mg": 2, "mi": 2, "mr": 2, "mx": 2, "m": 1, "a": 2, "$": 1, "y": 2}
POLICIES = ("lru", "fifo", "sieve", "clock", "null")


def klist(s):
    return [] if s == "-" else [int(x) for x in s.split(",")]


def items(s):
    return [] if s == "-" else [tuple(int(y) for y in x.split(":")) for x in s.split(",")]


class Hdr:
    def __init__(self, t):
        self.pol, self.shards, self.cap, self.ttl, self.tti, self.wheel = t[0], int(t[1]), int(t[2]), int(t[3]), int(t[4]), int(t[5])
        self.listener, self.opp, self.intro, self.now0, self.handle = t[6] == "1", t[7] == "1", t[8] == "1", int(t[9]), t[10]

    def shard(self, k):
        return k % self.shards


class CacheEngine(Engine):
    model_file = "Cache/CacheOps.v"
    exe = "cache"

    def __init__(self, prop=None, pols=POLICIES):
        self.prop = prop
        self.pols = tuple(pols)
        self.name = "cache"

    def n_cases(self, tier):
        return 2000 if tier == "quick" else 40000

    # ------------------------------------------------------------------ format
    def split(self, line):
        t = line.split()
        hdr, ops, i = t[:11], [], 11
        while i < len(t):
            k = ARITY[t[i]]
            ops.append(t[i:i + k])
            i += k
        return hdr, ops

    def join(self, header, ops):
        return " ".join(header + [t for op in self.normalise(header, ops) for t in op])

    def normalise(self, header, ops):
        """Generator restrictions that keep the implementation deterministic (docs/C11.md §restrictions):
        (1) lru only: the read batch of a shard never holds two distinct keys (its iteration order is a
            random-state HashMap order; for the other policies on_access commutes);
        (2) a sync op before the notification channel (128) could fill, and one at the end of the case."""
        h = Hdr(header)
        out = []
        pending = {}       # shard -> set of keys read since the batch was last drained
        outstanding = 0    # upper bound on undelivered notifications
        nsync = 0

        def flush_all():
            pending.clear()

        for op in ops:
            o = op[0]
            reads = []
            if o in ("g", "f"):
                reads = [int(op[1])]
            elif o == "mg" and h.handle != "a":     # the async multiget bypasses the batcher
                reads = klist(op[1])
            if h.pol == "lru" and reads:
                # distinct keys of one multiget may share a shard: split is not possible, so drain first
                per = {}
                for k in reads:
                    per.setdefault(h.shard(k), set()).add(k)
                bad = any(len(ks | pending.get(sh, set())) > 1 for sh, ks in per.items())
                if bad:
                    out.append(["m"])
                    flush_all()
                    outstanding += 9 * h.shards
                if any(len(ks) > 1 for ks in per.values()):
                    # cannot be made order-free: degrade to single reads
                    for k in reads:
                        if pending.get(h.shard(k), set()) - {k}:
                            out.append(["m"])
                            flush_all()
                            outstanding += 9 * h.shards
                        out.append(["g", str(k)])
                        pending.setdefault(h.shard(k), set()).add(k)
                    continue
                for sh, ks in per.items():
                    pending.setdefault(sh, set()).update(ks)
            if o == "m":
                flush_all()
                outstanding += 9 * h.shards
            elif o in ("i", "t") and h.opp:
                pending.pop(h.shard(int(op[1])), None)
            elif o == "$" and h.intro:
                flush_all()
            elif o in ("r", "x"):
                outstanding += 1
            elif o in ("mr", "mx"):
                outstanding += len(klist(op[1]))
            elif o == "y":
                outstanding = 0
            if outstanding > 100 and o != "y":
                out.append(op)
                out.append(["y", str(900000 + nsync)])
                nsync += 1
                outstanding = 0
                if h.opp:
                    pending.pop(h.shard(SENTINEL), None)
                continue
            out.append(op)
            if o == "y" and h.opp:
                pending.pop(h.shard(SENTINEL), None)
        if not out or out[-1][0] != "y":
            out.append(["y", str(990000)])
        return out

    # --------------------------------------------------------------- generator
    def corpus(self):
        return [x for p in self.pols for x in self.corpus_of(p)]

    def corpus_of(self, p):
        base = str(1000 * S)
        T5 = str(5 * S)
        c = [
            # F-16: TTL 5 s, six immediate maintenance passes
            "%s 1 0 %s 0 60 1 0 0 %s s i 1 100 1 g 1 m m m m m m f 1 $ y 900" % (p, T5, base),
            # F-15: expired, not yet collected: entry()/or_insert serve it, get does not
            "%s 2 0 %s 0 60 0 0 0 %s s i 1 100 1 a %s g 1 eo 1 e 1 7 1 cv 1 k tv 1 s8 g 1" % (p, T5, base, T5),
            # boundary instants
            "%s 1 0 %s 0 60 0 0 0 %s s i 1 100 1 a %d g 1 p 1 a 1 g 1 p 1 a 1 g 1" % (p, T5, base, 5 * S - 1),
            # TTI refresh by get, not by peek
            "%s 1 0 0 %s 60 0 0 0 %s s i 1 100 1 a %d p 1 a 2 g 1 i 2 101 1 a %d g 2 a 2 g 2" % (p, T5, base, 5 * S - 1, 5 * S - 1),
            # overwrite, remove, resurrection checks
            "%s 8 0 0 0 60 1 0 0 %s s i 1 100 1 i 1 101 2 g 1 r 1 g 1 x 1 e 1 102 1 e 1 103 1 c 1 s104 g 1 C g 1 $ y 900" % (p, base),
            "%s 2 0 0 0 60 1 0 0 %s s mi 1:100:1,2:101:2,1:102:5 mg 1,2,3 mr 2,3 mg 1,2 mx 1 $ y 900" % (p, base),
        ]
        if p != "null":
            c += [
                # F-28: insert, remove, maintenance applies the stale Write event
                "%s 1 3 0 0 60 1 0 0 %s s i 1 100 5 r 1 m i 2 101 4 m $ p 1 p 2 g 2 m $ p 1 p 2 y 901" % (p, base),
                "%s 2 3 0 0 60 1 0 0 %s s i 2 102 2 x 2 i 0 104 4 m $ p 0 p 2 y 904" % (p, base),
                # F-29 shape: overwrite with a different cost
                "%s 1 10 0 0 60 1 0 0 %s s i 1 100 1 m i 1 101 8 i 2 102 8 m $ p 1 p 2 m $ y 902" % (p, base),
                # capacity eviction, item larger than capacity
                "%s 1 3 0 0 60 1 0 0 %s s i 1 100 1 i 2 101 1 i 3 102 1 i 4 103 1 m $ p 1 p 2 p 3 p 4 i 5 104 4 m $ p 5 y 903" % (p, base),
            ]
        return [self.join(*self.split(x)) for x in c]

    def gen(self, rng, tier):
        pol = rng.pick(self.pols)
        shards = rng.pick([1, 2, 8])
        cap = 0 if pol == "null" else rng.pick([0, 3, 3, 10, 10])
        ttl = rng.pick([0, 0, 5 * S, 10 * S])
        tti = rng.pick([0, 0, 0, 5 * S, 10 * S])
        wheel = rng.pick([60, 60, 60, 4, 7])
        listener = rng.pick([0, 1, 1])
        opp = rng.pick([0, 0, 0, 1])
        intro = rng.pick([0, 0, 1])
        handle = "s" if opp else rng.pick(["s", "s", "a"])
        hdr = [pol, str(shards), str(cap), str(ttl), str(tti), str(wheel), str(listener), str(opp), str(intro),
               str(1000 * S), handle]
        nk = rng.pick([2, 3, 5, 8])
        n = rng.pick([3, 6, 10, 20, 40, 80])
        burst = tier != "quick" and rng.chance(1, 40)
        costs = [0, 1, 1, 1, 2, 5, (cap + 1) if cap else 7]
        nextv = [100]
        now = [0]
        deadlines = []
        ops = []

        def fresh():
            nextv[0] += 1
            return nextv[0]

        def key():
            return rng.below(nk)

        def note_deadline(d):
            if d:
                deadlines.append(now[0] + d)

        mode = rng.pick(["mix", "mix", "expiry", "capacity", "notify"])
        W = {"mix": dict(i=18, t=5, g=10, f=5, p=6, e=5, ew=2, eo=3, c=3, tc=1, cv=3, tv=1, r=6, x=3, C=1, mg=3, mi=3, mr=2, mx=1, m=9, a=8, d=5, y=2),
             "expiry": dict(i=14, t=8, g=12, f=4, p=8, e=6, ew=1, eo=5, c=1, tc=0, cv=3, tv=2, r=2, x=1, C=0, mg=3, mi=2, mr=1, mx=0, m=14, a=16, d=2, y=2),
             "capacity": dict(i=30, t=2, g=8, f=2, p=4, e=4, ew=1, eo=1, c=1, tc=0, cv=1, tv=0, r=7, x=2, C=1, mg=2, mi=4, mr=2, mx=1, m=14, a=1, d=8, y=2),
             "notify": dict(i=20, t=4, g=5, f=2, p=3, e=3, ew=0, eo=1, c=1, tc=0, cv=1, tv=0, r=12, x=6, C=1, mg=1, mi=3, mr=5, mx=3, m=12, a=5, d=2, y=8)}[mode]
        pairs = [(("$" if k == "d" else k), w) for k, w in W.items() if w]
        for _ in range(n):
            o = rng.weighted(pairs)
            if o == "i":
                ops.append(["i", str(key()), str(fresh()), str(rng.pick(costs))])
                note_deadline(ttl)
                note_deadline(tti)
            elif o == "t":
                d = rng.pick([0, 1, S // 2, S, 3 * S // 2, 2 * S, 5 * S, 7 * S, 61 * S])
                ops.append(["t", str(key()), str(fresh()), str(rng.pick(costs)), str(d)])
                note_deadline(d)
                note_deadline(tti)
            elif o in ("g", "f", "p", "eo", "r", "x"):
                ops.append([o, str(rng.below(nk + 1))])
                if o in ("g", "f"):
                    note_deadline(tti)
            elif o in ("e", "ew"):
                ops.append([o, str(key()), str(fresh()), str(rng.pick(costs))])
                note_deadline(ttl)
                note_deadline(tti)
            elif o in ("c", "tc", "cv", "tv"):
                f = ("s%d" % fresh()) if rng.chance(3, 4) else "k"
                ops.append([o, str(rng.below(nk + 1)), f])
            elif o == "C":
                ops.append(["C"])
            elif o in ("mg", "mr", "mx"):
                ks = [rng.below(nk + 1) for _ in range(rng.below(4))]
                ops.append([o, ",".join(map(str, ks)) if ks else "-"])
            elif o == "mi":
                its = ["%d:%d:%d" % (key(), fresh(), rng.pick(costs)) for _ in range(rng.below(4))]
                ops.append(["mi", ",".join(its) if its else "-"])
                note_deadline(ttl)
            elif o == "m":
                for _ in range(rng.pick([1, 1, 1, 2, 3, 7])):
                    ops.append(["m"])
            elif o == "a":
                future = [d for d in deadlines if d > now[0]]
                if future and rng.chance(3, 4):
                    d = rng.pick(future) - now[0] + rng.pick([-1, 0, 0, 1])
                    d = max(d, 0)
                else:
                    d = rng.pick([1, S, S, 2 * S, 5 * S - 1, 5 * S, 5 * S + 1, 10 * S, 60 * S])
                now[0] += d
                ops.append(["a", str(d)])
            elif o == "$":
                ops.append(["$"])
            elif o == "y":
                ops.append(["y", str(fresh())])
        if burst:
            k = key()
            at = rng.below(len(ops) + 1)
            b = [["i", str(rng.below(nk)) if rng.chance(1, 2) else str(k), str(fresh()), str(rng.pick([0, 1, 1, 2]))]
                 for _ in range(rng.pick([513, 530, 600, 1100]))]
            ops[at:at] = b
        # final scan: drain, cost, residency of every key by peek
        ops += [["m"], ["m"], ["$"]] + [["p", str(k)] for k in range(nk + 1)] + [["y", str(fresh())]]
        return self.join(hdr, ops)

    def nontrivial(self, line, impl_out):
        return len(self.split(line)[1]) >= 4

    def shape(self, line):
        hdr, ops = self.split(line)
        h = Hdr(hdr)
        return "%s %d %s %s %s|%s" % (h.pol, h.shards, bool(h.cap), bool(h.ttl), bool(h.tti), " ".join(op[0] for op in ops))

    # ------------------------------------------------------------------ monitor
    def monitor(self, line, out):
        hits = Monitor(self, line, out).run()
        if self.prop:
            hits = [(c, d) for c, d in hits if CLAUSE_PROP.get(c, "*") in (self.prop, "*")]
        seen, res = set(), []
        for c, d in hits:
            if c not in seen:
                seen.add(c)
                res.append((c, d))
        return res


# clause id -> property it belongs to ("*" = every property: the run itself is broken)
CLAUSE_PROP = {
    "panic": "*", "bad-output": "*", "sync-timeout": "*",
    # C11: per-key register that may forget
    "foreign-value": "C11", "stale-value": "C11", "resurrected-value": "C11", "compute-on-absent": "C11",
    "or-insert-overwrote": "C11",
    # C12: expiry
    "served-expired": "C12", "entry-serves-expired": "C12", "compute-sees-expired": "C12",
    "maintenance-evicts-unexpired": "C12", "unexpired-missing": "C12",
    # C13: capacity and cost accounting
    "cost-drift": "C13", "cost-drift-stale-write-event": "C13", "cost-drift-readmit": "C13",
    "cost-drift-partial-drain": "C13", "cost-drift-dropped-event": "C13",
    "capacity-exceeded": "C13", "capacity-stale-write-event": "C13", "capacity-readmit": "C13",
    "capacity-partial-drain": "C13",
    # C16: listener
    "notify-foreign": "C16", "notify-duplicate": "C16", "notify-stale-value": "C16", "notify-but-readable": "C16",
    "notify-wrong-reason": "C16", "expired-notification-unexpired": "C16",
    "notify-missing-invalidate": "C16", "notify-missing-eviction": "C16",
}

U64 = 1 << 64


class Inc:
    """one incarnation of a key: a write (insert / entry-insert / multi_insert item) and its later in-place computes"""
    __slots__ = ("key", "vid", "ids", "cost", "deadline", "la", "t_write", "maint_since", "user_removed", "gone",
                 "notified", "notified_at_sync", "must_notify", "lost", "pending_write")

    def __init__(self, key, vid, cost, deadline, la, now):
        self.key, self.vid, self.ids, self.cost = key, vid, {vid}, cost
        self.deadline, self.la, self.t_write = deadline, la, now
        self.maint_since = 0
        self.user_removed = False     # an explicit remove/invalidate/multi_remove hit it
        self.gone = False             # overwritten, removed or cleared
        self.notified = None
        self.notified_at_sync = None
        self.must_notify = None       # "invalidate" / "eviction": a notification is owed by the next sync
        self.lost = False             # observed missing
        self.pending_write = True     # its Write event has not been through a maintenance pass yet


class Monitor:
    """Judges the clauses of C11, C12, C13, C16 from the case line and the implementation's outputs alone."""

    def __init__(self, eng, line, out):
        self.eng = eng
        hdr, self.ops = eng.split(line)
        self.h = Hdr(hdr)
        self.outs = [o.strip() for o in out.split(";")] if out.strip() else []
        self.hits = []
        self.now = self.h.now0
        self.reg = {}                 # key -> Inc (latest write) or None
        self.owner = {}               # value id -> Inc
        self.allkeys = set()
        self.nsync = 0
        self.last_m_time = None
        self.pending = {}             # shard -> write events not yet drained (monitor's own count)
        self.dropped = False          # some shard's event buffer overflowed
        self.partial_drain = False    # a maintenance pass left events behind
        self.stale_event = False      # a key was removed while its Write event was pending, then maintenance ran
        self.stale_armed = False
        self.overwrite_cost = False   # a live key was overwritten with a different cost
        self.nm = 0

    def hit(self, clause, detail):
        self.hits.append((clause, detail))

    # ---- expiry arithmetic from the op log
    def expired(self, inc, at=None):
        t = self.now if at is None else at
        if inc.deadline is not None and t >= inc.deadline:
            return True
        if self.h.tti and inc.la is not None and t >= inc.la + self.h.tti:
            return True
        return False

    def has_expiry(self):
        return bool(self.h.ttl or self.h.tti)

    # ---- register updates
    def write(self, k, v, cost, deadline):
        old = self.reg.get(k)
        if old is not None and not old.gone:
            old.gone = True
            if old.cost != cost:
                self.overwrite_cost = True
        inc = Inc(k, v, cost, deadline, self.now if self.h.tti else None, self.now)
        self.reg[k] = inc
        self.owner[v] = inc
        self.allkeys.add(k)
        sh = self.h.shard(k)
        n = self.pending.get(sh, 0)
        if n >= 512:
            self.dropped = True
        else:
            self.pending[sh] = n + 1

    def forget(self, k, by_user):
        inc = self.reg.get(k)
        if inc is not None and not inc.gone:
            inc.gone = True
            if inc.pending_write:
                self.stale_armed = True
        self.reg[k] = None

    def check_value(self, k, v, what):
        """C11: a value v returned for key k must be the register's content"""
        inc = self.owner.get(v)
        cur = self.reg.get(k)
        if inc is None or inc.key != k:
            self.hit("foreign-value", "%s on key %d returned %d, which was never written to that key" % (what, k, v))
            return None
        if cur is not None and cur.vid == v:
            pass
        elif cur is None or cur is not inc:
            if inc.user_removed or (cur is None):
                self.hit("resurrected-value", "%s on key %d returned %d after it was removed/cleared" % (what, k, v))
            else:
                self.hit("stale-value", "%s on key %d returned %d after it was overwritten by %d" % (what, k, v, cur.vid))
        else:
            self.hit("stale-value", "%s on key %d returned %d, but a completed compute had set %d" % (what, k, v, cur.vid))
        if inc.notified is not None and inc.notified_at_sync is not None and inc.notified_at_sync < self.nsync:
            self.hit("notify-but-readable", "%s on key %d returned %d after its removal was notified (%s)" % (what, k, v, inc.notified))
        return inc

    def check_unexpired(self, inc, what, clause):
        if inc is not None and self.expired(inc):
            self.hit(clause, "%s served value %d of key %d at t=%d: written t=%d deadline=%s last_refresh=%s tti=%d" % (
                what, inc.vid, inc.key, self.now, inc.t_write, inc.deadline, inc.la, self.h.tti))

    def check_present(self, k, what):
        """C12 second sentence: an unexpired entry of an unbounded cache is not reported missing"""
        inc = self.reg.get(k)
        if inc is None or inc.gone or inc.lost or self.expired(inc):
            return
        inc.lost = True
        if self.h.listener:
            inc.must_notify = "eviction"
        if self.h.cap == 0:
            if inc.maint_since > 0 and self.has_expiry():
                self.hit("maintenance-evicts-unexpired", "%s: key %d (value %d, written t=%d, deadline=%s, now=%d) is missing after %d maintenance pass(es) on an unbounded cache" % (
                    what, k, inc.vid, inc.t_write, inc.deadline, self.now, inc.maint_since))
            else:
                self.hit("unexpired-missing", "%s: key %d (value %d) is missing on an unbounded cache, unexpired (now=%d deadline=%s)" % (what, k, inc.vid, self.now, inc.deadline))

    def hit_refresh(self, inc):
        if inc is not None and self.h.tti:
            inc.la = self.now

    # ---- main loop
    def run(self):
        ops, outs = self.ops, self.outs
        if len(outs) != len(ops):
            if outs and outs[-1] == "PANIC":
                self.hit("panic", "op %s panicked" % " ".join(ops[len(outs) - 1]))
            else:
                self.hit("bad-output", "%d outputs for %d ops" % (len(outs), len(ops)))
            return self.hits
        for idx, (op, o) in enumerate(zip(ops, outs)):
            try:
                self.one(idx, op, o)
            except (ValueError, IndexError, KeyError) as e:
                self.hit("bad-output", "op %s output %r: %r" % (" ".join(op), o, e))
                break
        return self.hits

    def ttl_deadline(self):
        return self.now + self.h.ttl if self.h.ttl else None

    def one(self, idx, op, o):
        h = self.h
        c = op[0]
        optv = lambda s: None if s == "none" else int(s)
        if c == "i":
            self.write(int(op[1]), int(op[2]), int(op[3]), self.ttl_deadline())
        elif c == "t":
            self.write(int(op[1]), int(op[2]), int(op[3]), self.now + int(op[4]))
        elif c in ("g", "f", "p"):
            k, v = int(op[1]), optv(o)
            what = {"g": "get", "f": "fetch", "p": "peek"}[c]
            if v is None:
                self.check_present(k, what)
            else:
                inc = self.check_value(k, v, what)
                self.check_unexpired(inc, what, "served-expired")
                if c != "p":
                    self.hit_refresh(inc)
        elif c == "mg":
            ks = klist(op[1])
            got = dict(tuple(int(y) for y in x.split(":")) for x in o[1:-1].split(",")) if o != "[]" else {}
            for k, v in got.items():
                if k not in ks:
                    self.hit("foreign-value", "multiget returned key %d which was not requested" % k)
                    continue
                inc = self.check_value(k, v, "multiget")
                self.check_unexpired(inc, "multiget", "served-expired")
                self.hit_refresh(inc)
            for k in ks:
                if k not in got:
                    self.check_present(k, "multiget")
        elif c in ("e", "ew"):
            k, v, cost, x = int(op[1]), int(op[2]), int(op[3]), int(o)
            if x == v:
                cur = self.reg.get(k)
                if cur is not None and not cur.gone and not cur.lost and not self.expired(cur):
                    if h.cap == 0 and not self.has_expiry() and cur.deadline is None:
                        self.hit("or-insert-overwrote", "or_insert on key %d inserted %d although %d was present (nothing can forget here)" % (k, v, cur.vid))
                    else:
                        self.check_present(k, "entry().or_insert")
                self.write(k, v, cost, self.ttl_deadline())
            else:
                inc = self.check_value(k, x, "entry().or_insert")
                self.check_unexpired(inc, "entry().or_insert", "entry-serves-expired")
        elif c == "eo":
            k, v = int(op[1]), optv(o)
            if v is None:
                self.check_present(k, "entry()")
            else:
                inc = self.check_value(k, v, "entry()")
                self.check_unexpired(inc, "entry() Occupied", "entry-serves-expired")
        elif c in ("c", "tc", "cv", "tv"):
            k, f = int(op[1]), op[2]
            if c in ("c", "tc"):
                found, old = (o == "true"), None
                if o not in ("true", "false"):
                    raise ValueError(o)
            else:
                old = optv(o)
                found = old is not None
            if found:
                cur = self.reg.get(k)
                if old is not None:
                    inc = self.check_value(k, old, "compute_val")
                    self.check_unexpired(inc, "compute_val", "compute-sees-expired")
                else:
                    inc = cur
                    if cur is None or cur.gone:
                        self.hit("compute-on-absent", "compute on key %d succeeded although the key was removed/cleared" % k)
                if f != "k" and inc is not None:
                    nv = int(f[1:])
                    inc.vid = nv
                    inc.ids.add(nv)
                    self.owner[nv] = inc
            else:
                self.check_present(k, "compute")
        elif c in ("r", "x"):
            k = int(op[1])
            if c == "r":
                v = optv(o)
                found = v is not None
                if found:
                    inc = self.check_value(k, v, "remove")
                    if inc is not None:
                        inc.user_removed = True
                        if h.listener:
                            inc.must_notify = "invalidate"
            else:
                if o not in ("true", "false"):
                    raise ValueError(o)
                found = o == "true"
                cur = self.reg.get(k)
                if found and cur is not None and not cur.gone:
                    cur.user_removed = True
                    if h.listener:
                        cur.must_notify = "invalidate"
            if not found:
                self.check_present(k, "remove")
            self.forget(k, True)
        elif c in ("mr", "mx"):
            ks = klist(op[1])
            if c == "mr":
                got = [tuple(int(y) for y in x.split(":")) for x in o[1:-1].split(",")] if o != "[]" else []
                for k, v in got:
                    if k not in ks:
                        self.hit("foreign-value", "multi_remove returned key %d which was not requested" % k)
                        continue
                    inc = self.check_value(k, v, "multi_remove")
                    if inc is not None:
                        inc.user_removed = True
                        if h.listener:
                            inc.must_notify = "invalidate"
                gk = set(k for k, _ in got)
                for k in ks:
                    if k not in gk:
                        self.check_present(k, "multi_remove")
            else:
                for k in ks:
                    cur = self.reg.get(k)
                    if cur is not None and not cur.gone:
                        cur.user_removed = True       # if it was resident it was removed by the user
            for k in ks:
                self.forget(k, True)
        elif c == "C":
            for k in list(self.reg):
                self.forget(k, False)
        elif c == "mi":
            for k, v, cost in items(op[1]):
                self.write(k, v, cost, self.ttl_deadline())
        elif c == "m":
            self.maintenance()
        elif c == "a":
            self.now += int(op[1])
        elif c == "$":
            if not o.startswith("c="):
                raise ValueError(o)
            if h.intro:
                self.drain(all_=True)
            self.cost_check(idx, int(o[2:]))
        elif c == "y":
            self.sync(int(op[1]), o)
        if c in ("i", "t") and h.opp:
            self.drain(shard=h.shard(int(op[1])))

    # ---- maintenance bookkeeping (event counts only: what C13's side condition needs)
    def drain(self, shard=None, all_=False):
        shards = list(self.pending) if shard is None else [shard]
        for sh in shards:
            n = self.pending.get(sh, 0)
            left = 0 if all_ else max(0, n - 16)
            if left:
                self.partial_drain = True
            self.pending[sh] = left
        if not any(self.pending.values()):
            for inc in self.owner.values():
                inc.pending_write = False
        if self.stale_armed:
            self.stale_event = True

    def maintenance(self):
        self.nm += 1
        self.last_m_time = self.now
        self.drain()
        for inc in self.owner.values():
            if not inc.gone:
                inc.maint_since += 1

    # ---- C13
    def cost_check(self, idx, cc):
        # residency scan: "$" immediately followed by peeks of every key ever written
        j = idx + 1
        seen = {}
        while j < len(self.ops) and self.ops[j][0] == "p":
            seen[int(self.ops[j][1])] = self.outs[j]
            j += 1
        if not self.allkeys or not (self.allkeys - {SENTINEL}) <= set(seen):
            return
        visible, hidden = 0, 0
        for k in self.allkeys - {SENTINEL}:
            o = seen[k]
            cur = self.reg.get(k)
            if o != "none":
                inc = self.owner.get(int(o))
                if inc is None:
                    return        # C11 reports it
                visible += inc.cost
            elif cur is not None and not cur.gone and self.expired(cur):
                hidden += cur.cost    # expired, possibly still resident
        h = self.h
        shape = ("readmit" if (h.pol == "fifo" and self.overwrite_cost and self.nm) else
                 "dropped-event" if (self.dropped and self.overwrite_cost) else
                 "partial-drain" if (self.partial_drain and self.overwrite_cost) else
                 "stale-write-event" if self.stale_event else None)
        if not (visible <= cc <= visible + hidden):
            self.hit("cost-drift" + ("-" + shape if shape else ""),
                     "metrics().current_cost = %d but the resident entries cost %d%s" % (
                         cc, visible, (" (+ at most %d expired, uncollected)" % hidden) if hidden else ""))
        prev = self.ops[idx - 1][0] if idx else ""
        if h.cap and prev == "m" and not self.dropped and not any(self.pending.values()) and visible > h.cap:
            self.hit("capacity-" + (shape if shape else "exceeded"),
                     "after run_maintenance with every write event drained, resident cost %d > capacity %d" % (visible, h.cap))

    # ---- C16
    def sync(self, v, o):
        h = self.h
        if o.startswith("n-TIMEOUT"):
            self.hit("sync-timeout", "the sentinel's notification did not arrive within the bound")
            o = "n" + o[len("n-TIMEOUT"):]
        if not (o.startswith("n[") and o.endswith("]")):
            raise ValueError(o)
        body = o[2:-1]
        notes = [x.split(":") for x in body.split(",")] if body else []
        # the sentinel's own write/remove
        self.write(SENTINEL, v, 0, self.ttl_deadline())
        sinc = self.reg[SENTINEL]
        sinc.user_removed = True
        self.forget(SENTINEL, True)
        if h.opp:
            self.drain(shard=h.shard(SENTINEL))
        for ks, vs, r in notes:
            k, val = int(ks), int(vs)
            inc = self.owner.get(val)
            if inc is None or inc.key != k:
                self.hit("notify-foreign", "notification (%d, %d, %s): that value was never stored under that key" % (k, val, r))
                continue
            if inc.notified is not None:
                self.hit("notify-duplicate", "value %d of key %d notified twice (%s, then %s)" % (val, k, inc.notified, r))
                continue
            inc.notified, inc.notified_at_sync = r, self.nsync
            if val != inc.vid:
                self.hit("notify-stale-value", "notification (%d, %d, %s) carries a value that a completed compute had replaced by %d" % (k, val, r, inc.vid))
            cur = self.reg.get(k)
            if cur is inc and not inc.gone and not inc.lost:
                # still the register's content: it must not be readable any more (checked on later reads);
                # a removal the reads have not observed yet is fine
                pass
            if r == "I":
                if not inc.user_removed:
                    self.hit("notify-wrong-reason", "(%d, %d) notified Invalidated but no remove/invalidate hit it" % (k, val))
            elif inc.user_removed and inc.must_notify == "invalidate":
                self.hit("notify-wrong-reason", "(%d, %d) was removed by remove()/invalidate but notified %s" % (k, val, r))
            elif r == "E":
                if (not self.has_expiry() and inc.deadline is None) or inc.maint_since == 0 or self.last_m_time is None:
                    self.hit("notify-wrong-reason", "(%d, %d) notified Expired without expiry cleanup having run on it" % (k, val))
                elif not self.expired(inc, self.last_m_time):
                    self.hit("expired-notification-unexpired", "(%d, %d) notified Expired, but at the last maintenance (t=%d) it was unexpired (deadline=%s, last_refresh=%s)" % (
                        k, val, self.last_m_time, inc.deadline, inc.la))
            elif r == "C":
                if h.cap == 0 or inc.maint_since == 0:
                    self.hit("notify-wrong-reason", "(%d, %d) notified Capacity on %s" % (k, val, "an unbounded cache" if h.cap == 0 else "an entry no maintenance pass has seen"))
            inc.must_notify = None
        if h.listener:
            for inc in self.owner.values():
                if inc.must_notify and inc.notified is None:
                    self.hit("notify-missing-" + inc.must_notify,
                             "value %d of key %d was removed (%s) but no notification was delivered by the next sync" % (
                                 inc.vid, inc.key, "remove/invalidate" if inc.must_notify == "invalidate" else "found missing while unexpired"))
                    inc.must_notify = None
        self.nsync += 1
