"""K3' rendezvous engine: atomic-step, all-interleavings model of the queued rendezvous core
(channels/src/internal/rendezvous.rs) as used by the SYNC handles of mpmc / mpsc / spsc
::rendezvous (coq/Chan/RvK3.v, theorems in coq/Proofs/RvK3*.v, pinned in
coq/Props/C0{1,3,5,9}_k3rv.v) and its tie to the real code:

  D2  pass 1: harness/sched/src/bin/k3rv.rs (a front end over `scen`) runs a generated scenario
      program (N sender threads, M receiver threads, ops s ts r tr rt D) on the REAL channel
      under the deterministic scheduler and prints the event trace plus the API results; pass 2
      (flow's `model_input` hook): the extracted model (`modelrun_k3rv`, ocaml/eng_k3rv.ml over
      Conc.replay) must accept that trace event by event -- same variable (every `state#k` is
      resolved to owner thread + frame number), operation, Orderings, values read / written, lock
      success, unpark target -- and reproduce the API results of every thread.
      `S` cases are monitor-only schedule searches (scen's FAIL lines = concrete violations).
  D3  `K` cases: for every modelled Rust function, the ordered facade operations
      (variable, op, Ordering(s)) and calls extracted here from the CURRENT source text, versus the
      table the model driver derives from the Coq step function.  This is what sees a weakened
      Ordering, and what sees the F-01 regression statically: `cancel_*` must read
      `core.lock ; state.cas`, not `state.cas ; core.lock`."""
import os
import re

from . import common as C
from .flow import Engine

# ---------------------------------------------------------------------------------- D3 extractor
ORD = {"Relaxed": "Rlx", "Acquire": "Acq", "Release": "Rel", "AcqRel": "AcqRel", "SeqCst": "SeqCst"}
OPK = {"load": "load", "store": "store", "swap": "swap", "fetch_sub": "fsub", "fetch_add": "fadd",
       "compare_exchange": "cas", "compare_exchange_weak": "casw"}
CALLS = ("fulfill_receiver|fulfill_sender|park_until_terminal|cancel_receiver|cancel_sender|disconnect_all|"
         "send_blocking|recv_blocking|recv_timeout|try_send|try_recv|drop_sender|drop_receiver|close|wake")
TOKEN_RE = re.compile(
    r"(?P<atom>(?P<var>\w+)\s*\)?\s*\.\s*(?P<op>load|store|swap|fetch_sub|fetch_add|compare_exchange_weak|compare_exchange)\s*\()"
    r"|(?P<lock>(?P<lvar>\w+)\s*\.\s*lock\s*\(\s*\))"
    r"|(?P<fence>\bfence\s*\(\s*Ordering::(?P<ford>\w+)\s*\))"
    r"|(?P<unpark>\.\s*unpark\s*\(\s*\))"
    r"|(?P<parkt>thread::park_timeout\s*\()"
    r"|(?P<park>thread::park\s*\(\s*\))"
    r"|(?P<call>(?<![\w])(?<!fn )(?P<cname>" + CALLS + r")\s*\()")

CORE = "channels/src/internal/rendezvous.rs"
WRAPPERS = [("mpmc_v2/rendezvous.rs", "channels/src/mpmc_v2/rendezvous.rs"),
            ("mpsc/rendezvous.rs", "channels/src/mpsc/rendezvous.rs"),
            ("spsc/rendezvous.rs", "channels/src/spsc/rendezvous.rs")]

# modelled functions: id -> (file relative to /repo, impl type or None, fn name)
FUNCS = [("internal/rendezvous.rs::RendezvousShared::" + f, CORE, "RendezvousShared", f)
         for f in ("try_send", "try_recv", "send_blocking", "recv_blocking", "recv_timeout",
                   "cancel_receiver", "cancel_sender", "drop_sender", "drop_receiver")] + [
    ("internal/rendezvous.rs::VecDeque::disconnect_all", CORE, "VecDeque", "disconnect_all"),
    ("internal/rendezvous.rs::Option::disconnect_all", CORE, "Option", "disconnect_all"),
    ("internal/rendezvous.rs::fulfill_receiver", CORE, None, "fulfill_receiver"),
    ("internal/rendezvous.rs::fulfill_sender", CORE, None, "fulfill_sender"),
    ("internal/rendezvous.rs::park_until_terminal", CORE, None, "park_until_terminal"),
    ("internal/rendezvous.rs::WakeHandle::wake", CORE, "WakeHandle", "wake"),
]
for _short, _rel in WRAPPERS:
    for _ty, _fns in (("RendezvousSyncSender", ("send", "try_send", "close", "drop")),
                      ("RendezvousSyncReceiver", ("recv", "try_recv", "recv_timeout", "close", "drop"))):
        for _fn in _fns:
            FUNCS.append(("%s::%s::%s" % (_short, _ty, _fn), _rel, _ty, _fn))


def _strip(src):
    """drop comments and string literals, cut the #[cfg(test)] module"""
    m = re.search(r"#\[cfg\(test\)\]", src)
    if m:
        src = src[:m.start()]
    out, i, n = [], 0, len(src)
    while i < n:
        if src.startswith("//", i):
            j = src.find("\n", i)
            i = n if j < 0 else j
        elif src.startswith("/*", i):
            j = src.find("*/", i + 2)
            i = n if j < 0 else j + 2
        elif src[i] == '"':
            j = i + 1
            while j < n and src[j] != '"':
                j += 2 if src[j] == "\\" else 1
            out.append('""')
            i = j + 1
        else:
            out.append(src[i])
            i += 1
    return "".join(out)


def _match(src, i, op, cl):
    d = 0
    for j in range(i, len(src)):
        if src[j] == op:
            d += 1
        elif src[j] == cl:
            d -= 1
            if d == 0:
                return j
    return len(src) - 1


def _impl_type(head):
    """`<T: Send, R: ReceiverStore<T>> RendezvousShared<T, R>` -> RendezvousShared;
    `<T> ReceiverStore<T> for VecDeque<RecvRec<T>>` -> VecDeque"""
    head = re.sub(r"\bwhere\b.*", "", head, flags=re.S).strip()
    # drop the impl's own generic parameter list
    if head.startswith("<"):
        head = head[_match(head, 0, "<", ">") + 1:].strip()
    if " for " in head:
        head = head.split(" for ", 1)[1].strip()
    m = re.match(r"(?:\w+::)*(\w+)", head)
    return m.group(1) if m else "?"


def _fn_bodies(src):
    """-> {(impl type or None, fn name): body text} for top-level fns and fns inside impl blocks"""
    bodies = {}
    impls = []
    for m in re.finditer(r"\bimpl\b([^{;]*)\{", src):
        st = m.end() - 1
        impls.append((_impl_type(m.group(1)), st, _match(src, st, "{", "}")))
    for fm in re.finditer(r"\bfn\s+(\w+)", src):
        j = fm.end()
        dp = 0
        while j < len(src):
            c = src[j]
            if c == "(":
                dp += 1
            elif c == ")":
                dp -= 1
            elif c == ";" and dp == 0:
                j = -1
                break
            elif c == "{" and dp == 0:
                break
            j += 1
        if j < 0 or j >= len(src):
            continue
        en = _match(src, j, "{", "}")
        owner = None
        for ty, st, e in impls:
            if st < fm.start() < e:
                owner = ty
        bodies.setdefault((owner, fm.group(1)), src[j:en + 1])
    return bodies


def _rows(body):
    rows = []
    for m in TOKEN_RE.finditer(body):
        if m.group("atom"):
            par = m.end() - 1
            args = body[par:_match(body, par, "(", ")") + 1]
            ords = [ORD.get(o, o) for o in re.findall(r"Ordering::(\w+)", args)]
            rows.append("%s.%s.%s" % (m.group("var"), OPK[m.group("op")], "/".join(ords) if ords else "?"))
        elif m.group("lock"):
            rows.append("%s.lock.-" % m.group("lvar"))
        elif m.group("fence"):
            rows.append("-.fence.%s" % ORD.get(m.group("ford"), m.group("ford")))
        elif m.group("unpark"):
            rows.append("-.unpark.-")
        elif m.group("parkt"):
            rows.append("-.parkt.-")
        elif m.group("park"):
            rows.append("-.park.-")
        elif m.group("call"):
            rows.append("call." + m.group("cname"))
    return rows


_src_cache = {}


def source_skeleton():
    """-> [(function id, [rows])] extracted from the current source text under C.REPO"""
    out = []
    for fid, rel, ty, fn in FUNCS:
        path = os.path.join(C.REPO, rel)
        if path not in _src_cache:
            try:
                _src_cache[path] = _fn_bodies(_strip(open(path).read()))
            except OSError:
                _src_cache[path] = None
        bodies = _src_cache[path]
        if bodies is None:
            out.append((fid, ["<missing-file>"]))
        elif (ty, fn) not in bodies:
            out.append((fid, ["<missing-fn>"]))
        else:
            out.append((fid, _rows(bodies[(ty, fn)]) or ["<no-facade-ops>"]))
    return out


# ---------------------------------------------------------------------------------- the engine
class K3RvEngine(Engine):
    name = "k3rv"
    crate = "sched"
    exe = "k3rv"
    per_shard = 8
    model_file = "Chan/RvK3.v"

    def n_cases(self, tier):
        return 300 if tier == "quick" else 12000

    # ---- generation: T = one traced schedule (replayed by the model), S = monitor-only search
    def corpus(self):
        ks = ["K %s %s" % (fid, " ".join(rows)) for fid, rows in source_skeleton()]
        fixed = [
            "T mpmcrv 11 pct | P: s s | C: r D",                      # receiver parks, handoff, disconnect
            "T mpmcrv 12 pct | P: s s s | C: tr r rt D",              # sender parks, fulfilled by try/timed receive
            "T mpmcrv 7 rand | P: s s | P: s | C: r D | C: rt rt D",  # timeout fires: cancel under the lock
            "T mpmcrv 13 pct | P: ts ts s | P: s | C: rt tr | C: r",  # Full / Empty, receivers leave first: Closed
            "T mpscrv 14 pct | P: s ts | P: s s | C: rt r D",          # single-slot receiver store
            "T spscrv 15 rand | P: s s ts | C: tr rt r r",
            "T mpmcrv 16 rand | P: s | C:",                           # no receive at all: disconnect wakes the sender
            "T mpmcrv 17 pct | P: | C: r rt D",                       # no send at all
            # F-01 regression (fixed in /repo 2e08297): timed receive vs committed handoff
            "S mpmcrv 7 300 | P: s s | P: s | C: r D | C: rt D",
            "S mpmcrv 21 60 | P: s ts s | P: s | C: rt rt D | C: tr r D",
            "S mpscrv 22 60 | P: s s | P: ts s | C: rt r rt D",
            "S spscrv 23 60 | P: s ts s | C: rt tr r D",
        ]
        return ks + fixed

    def gen(self, rng, tier):
        fl = rng.weighted([("mpmcrv", 5), ("mpscrv", 2), ("spscrv", 2)])
        np_ = rng.pick([0, 1, 1]) if fl == "spscrv" else rng.pick([0, 1, 1, 2, 2, 3])
        nc = rng.pick([0, 1, 1]) if fl != "mpmcrv" else rng.pick([0, 1, 1, 2, 2, 3])
        ths = []
        for _ in range(np_):
            ths.append("P: " + " ".join(rng.weighted([("s", 6), ("ts", 3)]) for _ in range(rng.below(5))))
        for _ in range(nc):
            ops = [rng.weighted([("r", 4), ("tr", 3), ("rt", 5)]) for _ in range(rng.below(5))]
            if rng.chance(1, 2):
                ops.append("D")
            ths.append("C: " + " ".join(ops))
        # shuffle thread order (thread ids are positions)
        for i in range(len(ths) - 1, 0, -1):
            j = rng.below(i + 1)
            ths[i], ths[j] = ths[j], ths[i]
        if not ths:
            ths = ["P: s"]
        seed = 1 + rng.below(1 << 30)
        if rng.chance(1, 8):
            return "S %s %d %d | %s" % (fl, seed, 12 if tier == "quick" else 60, " | ".join(ths))
        return "T %s %d %s | %s" % (fl, seed, rng.weighted([("pct", 3), ("rand", 2)]), " | ".join(ths))

    # ---- two-pass plumbing
    def model_input(self, line, impl_out):
        kind = line.split(None, 1)[0]
        if kind == "T":
            _STATS["park_events"] += impl_out.count(",park,")
            _STATS["parkt_events"] += impl_out.count(",parkt,")
            _STATS["unpark_events"] += impl_out.count(",unpark,")
            _STATS["cancel_cas_events"] += impl_out.count(",cas,rendezvous.state")
            _STATS["failed_lock_events"] += len(re.findall(r",lock,\S+,-,-,0,0,0,0(?: |$)", impl_out))
            return impl_out.split(" ;; ", 1)[1] if " ;; " in impl_out else "mpmcrv RES T"
        if kind == "S":
            return "S"
        return line

    def canon(self, out):
        if " ;; " in out:            # implementation side of a T case: verdict ;; model case
            return out.split(" ;; ", 1)[0]
        if out.startswith("search ok"):
            return "search ok"
        return out

    # ---- shrinking: ops are (thread, op); the header keeps kind/flavour/seed/policy and the thread kinds
    def split(self, line):
        if line.startswith("K "):
            return [line], []
        parts = [p.strip() for p in line.split("|")]
        ops = []
        kinds = []
        for i, p in enumerate(parts[1:]):
            toks = p.split()
            if not toks:
                continue
            kinds.append(toks[0])
            for t in toks[1:]:
                ops.append([t, "@%d" % (len(kinds) - 1)])
        return [parts[0], " ".join(kinds)], ops

    def join(self, header, ops):
        if header[0].startswith("K "):
            return header[0]
        kinds = header[1].split()
        per = [[] for _ in kinds]
        for o in ops:
            per[int(o[1][1:])].append(o[0])
        return "%s | %s" % (header[0], " | ".join("%s %s" % (k, " ".join(p)) for k, p in zip(kinds, per)))

    def shape(self, line):
        h, ops = self.split(line)
        t = h[0].split()
        return " ".join(t[:2]) + "|" + (h[1] if len(h) > 1 else "") + "|" + " ".join(o[0] + o[1] for o in ops)

    def nontrivial(self, line, out):
        return line[0] in "TS" and len(self.split(line)[1]) >= 2

    # ---- property monitors: scen's judgement of the real run (clause ids already prefixed)
    def monitor(self, line, out):
        kind = line.split(None, 1)[0]
        if kind == "T" and out.startswith("ok "):
            _STATS["traces"] += 1
            _STATS["schedules"] += 1
            _STATS["events"] += int(out.split()[1])
        elif kind == "S" and out.startswith("search ok"):
            _STATS["schedules"] += int(line.split()[3])
        elif kind == "K":
            _STATS["skeleton_functions"] += 1
        if out.startswith("FAIL "):
            return [(out.split()[1], out[5:400])]
        if out.startswith("DRIVER"):
            return [("C05:harness", out[:300])]
        return []


ENGINE = K3RvEngine()

# evidence keys of the D2/D3 tie (flow.py has no per-engine evidence hook: merged just before the
# coverage record is written, exactly like engines_k3spsc.py)
_STATS = {"traces": 0, "events": 0, "schedules": 0, "skeleton_functions": 0, "park_events": 0, "parkt_events": 0,
          "unpark_events": 0, "cancel_cas_events": 0, "failed_lock_events": 0}


def _install_evidence_hook():
    from . import flow
    if getattr(flow.Run, "_k3rv_evidence", False):
        return
    orig = flow.Run.finish

    def finish(self):
        eng = self.cov.get("engines", {}).get(ENGINE.name)
        if eng is not None:
            ok_traces = max(0, _STATS["traces"] - eng.get("mismatches", 0))
            self.cov["traces_validated_against_impl"] = self.cov.get("traces_validated_against_impl", 0) + ok_traces
            eng.update({"traces_replayed_by_model": _STATS["traces"], "events_replayed": _STATS["events"],
                        "schedules_explored": _STATS["schedules"],
                        "skeleton_functions_compared": _STATS["skeleton_functions"],
                        "park_events_in_traces": _STATS["park_events"],
                        "park_timeout_events_in_traces": _STATS["parkt_events"],
                        "unpark_events_in_traces": _STATS["unpark_events"],
                        "cancel_cas_events_in_traces": _STATS["cancel_cas_events"],
                        "failed_lock_events_in_traces": _STATS["failed_lock_events"]})
            self.cov["events_replayed"] = self.cov.get("events_replayed", 0) + _STATS["events"]
            self.cov["schedules_explored"] = self.cov.get("schedules_explored", 0) + _STATS["schedules"]
        return orig(self)

    flow.Run.finish = finish
    flow.Run._k3rv_evidence = True


_install_evidence_hook()

_INFO = {"name": "E-RV K3' (k3rv)",
         "path": "coq/Chan/RvK3.v, coq/Proofs/RvK3{Base,Queue,Cell,Val,Wake,Count,Proofs,Thm,Live,Examples,Final}.v, "
                 "coq/Props/C0{1,3,5,9}_k3rv.v, ocaml/eng_k3rv.ml, harness/sched/src/bin/k3rv.rs (+scen.rs), vlib/engines_k3rv.py",
         "kind": "K3' atomic-step model of the queued rendezvous core (internal/rendezvous.rs) under the sync API of "
                 "mpmc/mpsc/spsc::rendezvous: try_send/try_recv/send_blocking/recv_blocking/recv_timeout, cancel under the lock, "
                 "fulfill_*, park_until_terminal, handle drops with disconnect; any number of threads, any programs; invariants "
                 "proved for ALL schedules; model parameter cas_under_lock with the F-01 refutation for the pre-fix variant; D2 "
                 "trace refinement of real scheduler-controlled executions + D3 source skeleton vs the model's step table"}
_ASSUME = [
    "K3' model semantics is sequentially consistent; the source's Orderings are carried as data and compared by D2 (per event) and D3 (per function row), not given a weak-memory semantics",
    "untraced code inside a critical section of `core` (VecDeque push/pop/remove, the payload move through the record's raw pointers, the handle counts) is attached to the traced event of the same section that publishes it (push: the lock step; pop + payload move: the `state` store); nothing but `state`, `closed` and the park token is accessed outside the mutex",
    "recv_timeout's deadline test is a schedule choice (CTimeout / park_timeout); deadline = None (Duration overflow) is not modelled; park = std one-token semantics, spurious return allowed by choice",
    "sync API only (send/try_send/recv/try_recv/recv_timeout/Drop); close() is reached through Drop only; poll_send/poll_recv, future Drop (cancel_sender), clone/to_async/to_sync are outside this engine (K2 engine `rv` covers them sequentially); cancel_sender is compared statically (D3) as the mirror image of cancel_receiver",
    "thread counts / handle counts as unbounded nat; the Arc<RendezvousShared> reference count is untraced and not modelled (the core has no Drop logic)",
]

PROPS = {
    "C01": {"engines": [ENGINE], "assumptions": _ASSUME, "engine_info": _INFO,
            "covers": "K3' mpmc/mpsc/spsc::rendezvous sync API, all thread counts, programs and schedules: rv_exactly_once (every Ok-sent payload is with exactly one receiver exactly once; no Timeout over a delivered payload), conservation over in-flight cells, failed try_send/send handed nothing; REFUTED for the pre-fix variant (F-01, cancel CAS outside the lock) by a vm_compute schedule"},
    "C03": {"engines": [ENGINE], "assumptions": _ASSUME, "engine_info": _INFO,
            "covers": "K3' rendezvous (capacity 0), all schedules: a send reports Ok only if its payload was handed to a receiver, every handoff commits its send (Ok reported or sender in a committed position), a payload in a parked sender's slot has been handed to nobody"},
    "C05": {"engines": [ENGINE], "assumptions": _ASSUME, "engine_info": _INFO,
            "covers": "K3' rendezvous, all programs and schedules: wake owed (a thread at park with a terminal state has its token or an enabled waker), quiescent => parked threads are WAITING and linked, senders and receivers never wait against each other, deadlock freedom (quiescent => every thread finished; last handle disconnects all waiters) (partial: no fairness/eventually)"},
    "C09": {"engines": [ENGINE], "assumptions": _ASSUME, "engine_info": _INFO,
            "covers": "K3' rendezvous, all schedules: record liveness (bad = false: no write through a record of a finished frame, no frame ends while linked, no overwrite / empty take), linked records are live and WAITING, cell content determined by state, single-slot store = list model for one receiver"},
}
