from .. import flow
from ..engines_cache import CacheEngine, S
from ..engines_cache_adm import CacheAdmEngine

ENG = CacheEngine(prop="C16")
# cache.adm: model-free search over TinyLfu (AdmitAndEvict path) / Arc / Slru / Random, which the model does not cover
ENGINES = [ENG, CacheAdmEngine()]

ASSUMPTIONS = [
    "engine cache.adm is model-free (implementation-side monitors only) and covers the policies outside the Coq model: TinyLfu (builder default, the AdmitAndEvict path), Arc, Slru, Random; its over-capacity clause is not judged for Arc (F-20-arc-admit)",
    "K2 (operation-level) model: the notifier thread is the explicit step ODeliver (any speed); two removers racing for one key (C16_sections) are not covered by a sequential model (partial)",
    "notification channel: exact FIFO of 128, try_send drops when full (ghost counter st_ndrops); 'sent' = listener log ++ queue",
    "D1 reads the listener only at sync points: insert+remove of a sentinel key, then a bounded wait for the sentinel's own notification (FIFO channel, one consumer => everything earlier has been delivered); the generator inserts a sync before 100 notifications can be outstanding, so the channel never fills in D1; per-sync logs are compared as sorted multisets (cross-shard order of multi_remove and HashMap iteration order are unspecified)",
    "incarnation numbers (e_id) are ghost state of the model: one per CacheEntry allocation; the monitor identifies incarnations by fresh value ids",
    "overwrites and clear() notify nothing in the code; the completeness clause excludes them, as the property text does",
]

T5 = 5 * S
B = 1000 * S
WITNESS = {
    "F-16-notify": (ENG, "lru 1 0 %d 0 60 1 0 0 %d s i 1 100 1 m m m m m m f 1 y 900" % (T5, B), "expired-notification-unexpired"),
}


def run(tier, seed):
    return flow.standard("C16", tier, seed, ENGINES, ASSUMPTIONS, WITNESS)


MANIFEST = {
    "engine": "E-CACHE",
    "engines": [{"name": "E-CACHE", "path": "coq/Cache/CacheOps.v, coq/Cache/CacheSpec.v, coq/Proofs/Cache{Core,Step,C16}Proofs.v, ocaml/eng_cache.ml, harness/seqdrv/src/bin/cache.rs",
                 "kind": "K2 operation-level model of the sharded cache incl. the bounded lossy notification channel and the listener log; D1 differential tie with a recording listener on both handles"}],
    "technique": "Coq proof by invariant (incarnation numbers fresh, unique among residents, never resident once notified) + induction over all operation sequences; differential correspondence of the extracted model against the real cache with a recording listener",
    "text": "Coq theorems (Props/C16.v): C16_seq — for every policy, configuration, reachable state and operation, each notification handed to the channel names an entry that was resident with exactly that value and is gone afterwards, with the matching reason (Invalidated only from remove/invalidate/multi_*, Expired/Capacity only from maintenance passes), and when the channel drops nothing every removal by remove/invalidate, expiry cleanup or capacity eviction is notified; C16_no_duplicates — no incarnation is ever notified twice; C16_never_resident — a notified incarnation is never readable again. Known: with F-16 an Expired notification can name an unexpired entry. PARTIAL: sequential semantics only.",
    "design_ref": "DESIGN.md §8 C16, §7 E-CACHE",
    "note": "Trusted: Coq kernel, extraction + OCaml driver, D1 harness/generators (sentinel synchronisation). Modelled not verified: thread scheduling of the notifier (explicit step), HashMap iteration order (multiset comparison).",
}
