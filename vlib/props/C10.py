"""C10 - hybrid locks (HybridMutex / HybridRwLock): custom two-pass K3 flow, see vlib/engines_k3lock.py."""
import json
import re

from .. import common as C
from .. import engines_k3lock as K

KINDS = K.KINDS


def run(tier, seed):
    return K.run(tier, seed, kinds=KINDS)


def replay(path):
    """re-run a recorded scenario/schedule on the current tree and through the model"""
    d = json.load(open(path))
    m = re.search(r"echo '([^']*)'", d.get("replay", ""))
    if not m:
        print("replay file has no scenario line (kind=%s): %s" % (d.get("kind"), json.dumps(d.get("broken", d), indent=1)[:2000]))
        return 1
    line = m.group(1)
    exe, err = C.build_harness("sched", "lockscen")
    model = C.build_model("k3lock")
    env = dict(C.ENV)
    env["VERIF_REPO"] = C.REPO
    out = C.run_lines(exe, [line], shards=1, env=env)[0]
    head, _, body = out.partition(" || ")
    print("implementation: " + head)
    if body:
        scen = line.split("|", 1)
        case = "%s 1 0 | %s || %s" % (line.split()[0], scen[1].strip(), body.split(" ## ")[0])
        print("model:          " + C.run_lines(model, [case], shards=1)[0])
    return 0 if head.startswith("ok ") else 1


MANIFEST = K.MANIFEST
