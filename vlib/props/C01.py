from ..multiprop import make
from ..chan_manifest import BASE

run, MANIFEST = make("C01", BASE["C01"])
