from .. import flow
from ..engines_cache import CacheEngine, S
from ..engines_cache_adm import CacheAdmEngine

ENG = CacheEngine(prop="C13")
# cache.adm: model-free search over TinyLfu (AdmitAndEvict path) / Arc / Slru / Random, which the model does not cover
ENGINES = [ENG, CacheAdmEngine()]

ASSUMPTIONS = [
    "engine cache.adm is model-free (implementation-side monitors only) and covers the policies outside the Coq model: TinyLfu (builder default, the AdmitAndEvict path), Arc, Slru, Random; its over-capacity clause is not judged for Arc (F-20-arc-admit)",
    "K2 (operation-level) model: current_cost is a mathematical integer in the model, the u64 read by metrics() is its value mod 2^64 (fetch_sub wraps in the code); the interleaving sentence of C13 (writers vs background eviction, F-17/F-18 races) is not covered by a sequential model (partial)",
    "event buffer: exact FIFO of 512 per shard, try_send drops when full (ghost counter st_evdrops); run_maintenance drains 16 per shard per call, the janitor 256, introspection all",
    "capacity clause: proved per shard under the explicit side condition in_sync (policy tracks exactly the resident entries at their costs) for policies with C14's evict clause; the run-level statement is refuted on the code as found (F-28, F-29) and NOT proved for the patched model",
    "monitor: residency is judged from a final scan (peek of every key) — expired, uncollected entries are resident but invisible, so the cost clause is checked as an interval [visible, visible + possibly-resident-expired]",
    "policies: Lru, Fifo, Sieve, Clock, Null (TinyLfu/Arc/Slru/Random not modelled in this engine)",
]

B = 1000 * S
WITNESS = {
    "F-28": (ENG, "lru 1 3 0 0 60 0 0 0 %d s i 1 100 5 r 1 m i 2 101 4 m $ p 1 p 2 y 900" % B, "cost-drift-stale-write-event"),
    "F-28-capacity": (ENG, "sieve 2 3 0 0 60 0 0 0 %d s i 2 102 2 x 2 i 0 104 4 m $ p 0 p 2 y 900" % B, "capacity-stale-write-event"),
    "F-29": (ENG, "fifo 1 10 0 0 60 0 0 0 %d s i 1 100 1 m i 1 101 8 i 2 102 8 m $ p 1 p 2 y 900" % B, "cost-drift-readmit"),
    "F-29-capacity": (ENG, "fifo 1 10 0 0 60 0 0 0 %d s i 1 100 8 m i 1 101 1 i 2 102 8 i 3 103 8 m $ p 1 p 2 p 3 y 900" % B, "capacity-readmit"),
    "F-34-drain": (ENG, "lru 1 4 0 0 60 0 0 0 %d s i 1 100 1 %s i 1 101 0 m $ p 1 p 2 y 900" % (B, " ".join("i 2 %d 5" % (200 + i) for i in range(15))), "cost-drift-partial-drain"),
    "F-34-drain-capacity": (ENG, "lru 1 4 0 0 60 0 0 0 %d s i 1 100 1 %s i 1 101 0 m m $ p 1 p 2 y 900" % (B, " ".join("i 2 %d 5" % (200 + i) for i in range(15))), "capacity-partial-drain"),
    "F-18-lossy": (ENG, "lru 1 4 0 0 60 0 0 1 %d s i 1 100 1 %s i 1 101 0 $ m $ p 1 p 2 y 900" % (B, " ".join("i 2 %d 5" % (200 + i) for i in range(512))), "cost-drift-dropped-event"),
}


def run(tier, seed):
    return flow.standard("C13", tier, seed, ENGINES, ASSUMPTIONS, WITNESS)


MANIFEST = {
    "engine": "E-CACHE",
    "engines": [{"name": "E-CACHE", "path": "coq/Cache/CacheOps.v, coq/Cache/CacheSpec.v, coq/Proofs/Cache{Core,Step,C13}Proofs.v, ocaml/eng_cache.ml, harness/seqdrv/src/bin/cache.rs",
                 "kind": "K2 operation-level model of the sharded cache incl. current_cost (wrapping), bounded lossy event buffer, per-shard policies (E-POLICY models), capacity cleanup; D1 differential tie on both handles"},
                {"name": "E-POLICY", "path": "coq/Cache/Policy*.v", "kind": "policy models reused as the policy component (C14)"}],
    "technique": "Coq proof by invariant + induction over all operation sequences (current_cost = resident cost); vm_compute refutation witnesses for the code as found; conditional capacity lemma from C14's evict clause; differential correspondence of the extracted model against the real cache",
    "text": "Coq theorems (Props/C13.v): C13_cost_fixed — with the F-18 patch (or on an unbounded cache) current_cost equals the summed cost of the resident entries after every sequential operation, for every policy and configuration; refuted on the code as found three ways (F-28 stale Write event after remove, F-29 Fifo old cost, F-34 partial drain), where C13_cost_except shows only maintenance passes can move it. C13_capacity_shard — capacity cleanup of a shard whose policy is in sync with its map keeps the accounting exact and leaves the cache within capacity or that shard empty (any policy with C14's evict clause; proved for Lru/Fifo states); the run-level capacity statement is refuted on the code as found (F-28, F-29) and is not proved for the patched model. PARTIAL: sequential semantics only.",
    "design_ref": "DESIGN.md §8 C13, §7 E-CACHE, §9 F-17/F-18/F-28/F-29",
    "note": "Trusted: Coq kernel, extraction + OCaml driver, D1 harness/generators. Modelled not verified: interleavings (K3' not built), u64 overflow of costs other than current_cost's wrap.",
}
