from ..multiprop import make
from ..chan_manifest import BASE
run, MANIFEST = make("C07", BASE["C07"])
