from ..multiprop import make
from ..chan_manifest import BASE

run, MANIFEST = make("C05", BASE["C05"])
