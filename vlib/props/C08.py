from ..multiprop import make
from ..chan_manifest import BASE
run, MANIFEST = make("C08", BASE["C08"])
