from .. import flow
from .. import common as C
from ..engines_loader import LoaderSeq, LoaderConc

SEQ = LoaderSeq()
CONC = LoaderConc()
ENGINES = [SEQ, CONC]

ASSUMPTIONS = [
    "schedule/program/caller-count quantifier: discharged on the section-level model coq/Cache/Loader.v by proof (invariant over all schedules, Proofs/LoaderProofs.v); NOT by the runs below",
    "tie of the model's section order to cache/src/{handles/sync.rs,handles/futures.rs,shared.rs,loader.rs}: (i) sequential D1 on the K2 projection of the same step function (every call run to quiescence), (ii) gate/pause-driven concurrent scenarios whose outputs are schedule-independent counts (tpause pins map-write before marker removal, reinv pins marker removal before completion), (iii) the section sequence written in docs/C15.md reviewed by hand -- partial: no per-section trace of the real execution is checked",
    "a critical section (shard map read/write lock, pending_loads stripe mutex, LoadFuture inner mutex) is one atomic model step; lock implementations (HybridRwLock/HybridMutex, parking_lot) and std::thread::park/unpark (one token, spurious return allowed) are modelled, not verified; sequential consistency",
    "marker insertion and task spawn are one step (nothing observable happens between them); Cache::insert/remove/run_maintenance are single atomic steps in the concurrent model (they are not C15's subject); stripes are abstracted to per-key markers, a failing stripe try_lock is a nondeterministic bit",
    "async handle/loader (handles/futures.rs, Loader::Async arm) follow the same section sequence by reading; they are tied by the same D1/scenario runs (L=a, H=a) but have no separate model of waker registration",
    "loader closure is total and returns; time is the virtual clock (hook H4); TTI not configured; unbounded capacity (NullPolicy); janitor ticks are no-ops (maintenance_chance 2^31)",
    "single_flight_except_late_arrival assumes time_to_live <> 0",
]

WITNESS = {
    "F-22": (CONC, "conc s s - - 1 late 7", "C15:late-arrival-duplicate-load"),
}


def extra(r):
    """thorough tier: ungated stress (support only; its outcome is not part of the D1 diff)"""
    r.cov["model_refutation"] = {
        "theorem": "C15_single_flight_refuted_F22",
        "schedule": "A:read(miss) B:read(miss) A:stripe(leader) T0:load T0:map-write T0:unmark B:stripe(no marker -> leader) T1:load",
        "reproduced_on_implementation": bool(r.cov.get("known_findings_replayed")),
        "how": "harness parks B inside its own Hash impl (the hash_key call of load_value_blocking, after the map section and before the stripe lock) while the gated loader of A's load is released and its task exits",
    }
    if r.tier != "thorough":
        return
    exe = r._impl_exes[CONC.exe]
    lines = ["conc %s %s - - %d stress %d 400 8" % (l, h, sh, 1000 * i)
             for i, (l, h, sh) in enumerate([("s", "s", 1), ("s", "s", 4), ("a", "a", 1), ("s", "a", 2)])]
    outs = C.run_lines(exe, lines, shards=4)
    r.cov["stress"] = [{"case": l, "impl_output": o} for l, o in zip(lines, outs)]
    for l, o in zip(lines, outs):
        for clause, detail in CONC.monitor(l, o):
            if clause == "C15:stress-duplicate-load" and r.is_known(CONC, "C15:late-arrival-duplicate-load"):
                continue
            path = C.write_replay("C15", {"kind": "property-monitor", "engine": CONC.name, "case": l, "impl_output": o,
                                          "clause": clause, "detail": detail})
            r.violations.append((path, ""))


def run(tier, seed):
    return flow.standard("C15", tier, seed, ENGINES, ASSUMPTIONS, WITNESS, extra)


MANIFEST = {
    "engine": "E-LOADER",
    "engines": [{"name": "E-LOADER",
                 "path": "coq/Cache/Loader.v, coq/Proofs/LoaderProofs.v, coq/Props/C15.v, coq/Props/C12_stale.v, ocaml/eng_loader.ml, harness/seqdrv/src/bin/loader.rs, vlib/engines_loader.py",
                 "kind": "K3' section-level machine (one step = one lock-protected critical section or atomic action of a caller or loader task); invariant proved for all caller programs and schedules; K2 projection of the same step function tied by D1; gate/pause-driven concurrent scenarios on the real code"}],
    "technique": "Coq proof of an inductive invariant of the section-level loader model over all schedules, caller counts and programs + differential correspondence of the extracted step function (sequential projection and scenario schedules) against fibre_cache's fetch_with on the same cases",
    "text": "Coq theorems (Props/C15.v), for every number of callers, every caller program and every schedule: each LoadFuture is completed exactly once and its completion wakes every registered waiter; a caller blocked in park always waits on a still-Computing future of its own key whose loader task is enabled (no_waiter_left), hence no reachable quiescent state has a caller inside fetch_with; every caller that joined a future returns the loader's value, which is the value written to the map with its cost; futures are per key and the loader closure runs outside every lock; a future still registered in the pending map is never completed (marker removal precedes completion, C15_no_join_after_completion), so once every load of k has completed a later miss on k -- after invalidation or expiry -- starts a new load and cannot be handed an earlier value (C15_miss_after_completion_starts_new_load). The full statement 'at most one load of k between two invalidations/expiries of k' is REFUTED on the faithful model by the late-arrival schedule (C15_single_flight_refuted_F22) and the schedule is reproduced deterministically on the real code (known finding F-22, no library hook needed: the harness parks the late caller inside its own Hash impl). Proved instead: loads of one key never overlap, and a later load exists only if its creator read the map before the earlier value was written (late arrival) or after an invalidation/expiry event that followed the write (C15_single_flight_except_late_arrival). The schedule quantifier is discharged on the model by proof; the model's section order is tied to the code by the sequential D1, the gated scenarios and a hand-reviewed section table (docs/C15.md) -- partial.",
    "design_ref": "DESIGN.md §8 C15, §9 F-22, §7 cache engines",
    "note": "Trusted: Coq kernel, ExtrOcamlBasic extraction + OCaml driver, harness/generators/monitors. Modelled not verified: lock primitives, park/unpark, SC, async waker path, section atomicity of insert/remove/maintenance.",
}
