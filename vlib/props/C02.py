from ..multiprop import make
from ..chan_manifest import BASE

run, MANIFEST = make("C02", BASE["C02"])
