from ..multiprop import make
from ..chan_manifest import BASE

run, MANIFEST = make("C03", BASE["C03"])
