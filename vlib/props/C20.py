"""C20 (encoder half): JSON-lines records are one valid line that round-trips; the pattern encoder renders
every event and reproduces the message verbatim.  (The rolling-file half is wired separately.)"""
from .. import flow
from ..engines_json import JsonEngine, PatternEngine, s_tok, rfc3339_millis

JSON = JsonEngine()
PATTERN = PatternEngine()
ENGINES = [JSON, PATTERN]

ASSUMPTIONS = [
    "strings are Rust Strings, i.e. valid UTF-8; the models work on byte lists and the escape/scan theorems hold for ALL byte lists",
    "timestamp text (RFC3339 millis, and chrono's rendering of each %d{fmt}) is opaque data supplied with the case; chrono is not modelled. "
    "D1 feeds the model the text computed independently in Python and compares whole output lines",
    "finite f64 fields: serde_json's (zmij) text and Rust's Display text are opaque case data from a fixed pool; the JSON monitor "
    "parses the number back and compares it bit-for-bit with the input; NaN/inf must read back as null",
    "serde_json internals other than the string escaping table and the compact map layout are not modelled (tied by D1 only)",
    "pattern scanner: the source regex's \\d is Unicode-aware; the byte-level scanner model covers ASCII digits only. Patterns in which "
    "`%` or `%-` is directly followed by a non-ASCII decimal digit (e.g. U+0663) are outside the tie (the regex crate is trusted)",
    "pattern padding panic threshold 65535 is std::fmt's run-time width limit on the toolchain in use (rustc 1.95; limit introduced in 1.87); "
    "apply_padding on content of 2^31 bytes or more is not modelled",
    "a flattened record whose event has no message but a custom field named `message` shows that field under the key `message` "
    "(faithful, but a reader cannot tell it from the event message); the monitor accepts it",
]

_ms = 1698330605123
_ev = ["INFO", str(_ms), s_tok(rfc3339_millis(_ms)), s_tok("t"), s_tok("n"), s_tok("hi"), "-", "-", "-", "-"]
WITNESS = {
    # Props/C20_enc.v f27_event: flatten mode, custom field level=x
    "F-27": (JSON, " ".join(["json", "flat"] + _ev + ["f", s_tok("level"), "S", s_tok("x")]), "flatten-collision"),
    # Props/C20_enc.v f33_pattern / f33_event: %65536m
    "F-33": (PATTERN, " ".join(["pattern", "full", s_tok("%65536m")] + _ev), "pad-width-panic"),
}


def run(tier, seed):
    return flow.standard("C20", tier, seed, ENGINES, ASSUMPTIONS, WITNESS)


MANIFEST = {
    "engine": "E-JSON, E-PATTERN",
    "engines": [
        {"name": "E-JSON", "path": "coq/Log/Json.v, coq/Proofs/JsonProofs.v, ocaml/eng_json.ml, harness/seqdrv/src/bin/json.rs, vlib/engines_json.py",
         "kind": "K1 pure-function model of serde_json string escaping + JsonLinesFormatter's record assembly/serialisation, a model JSON reader, "
                 "round-trip theorems for all byte strings / all events; D1 differential tie through the public EventFormatter API"},
        {"name": "E-PATTERN", "path": "coq/Log/Pattern.v, coq/Proofs/PatternProofs.v (same drivers, exe json)",
         "kind": "K1 model of the pattern scanner (language of the source regex) and segment interpreter with padding; D1 tie on grammar-generated and malformed patterns"},
    ],
    "technique": "Coq proofs over executable Gallina models (induction over byte lists / field lists / segment lists) + differential correspondence of the "
                 "extracted models against fibre_logging::encoders::{json::JsonLinesFormatter, pattern::PatternFormatter} on generated events every run",
    "text": "Coq theorems (Props/C20_enc.v): for every byte list s, unescape (escape s) = Some s; a reader scanning quote+escape s+quote+rest consumes exactly the "
            "literal; escape emits no byte < 0x20. For every event with well-formed field data the rendered record is body+newline with no control byte in "
            "body, the model reader parses it back to exactly the assembled sorted key/value map (no duplicate keys), and level, target, timestamp text, name, "
            "message and span/thread ids read back unchanged in both modes. Custom fields read back unchanged in nested mode and in flatten mode unless the "
            "name collides with a core key of the record: the unrestricted statement is refuted on the faithful model (finding F-27) and replayed on the code. "
            "Pattern encoder: padding never truncates (content is a prefix/suffix, fill is spaces, padded width = |p| chars); the message (level, target) is a "
            "contiguous sublist of the output whenever the parsed pattern has the segment; output ends in a newline; every event renders under every pattern "
            "whose widths are <= 65535 - the unrestricted totality statement is refuted (finding F-33: %65536m panics in std::fmt) and replayed on the code.",
    "design_ref": "DESIGN.md §8 C20 (C20_json, C20_pattern), §9 F-27",
    "note": "Trusted: Coq kernel, ExtrOcamlBasic extraction + OCaml driver, the D1 harness/generators/monitors, Python's json module (monitor). Modelled not "
            "verified: chrono, float formatting (opaque texts), the regex crate (scanner tied by D1, ASCII \\d only), UTF-8 validity of the output "
            "(only: non-ASCII bytes pass through unchanged in order).",
}
