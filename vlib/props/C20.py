"""C20 (rolling-file half): engine `roller`.  The encoder half (engines json/pattern, Props/C20_enc.v)
is wired by its own worktree; the lead merges the two ENGINES/ASSUMPTIONS/WITNESS/MANIFEST parts."""
from .. import flow
from ..engines_roller import RollerEngine

ROLLER = RollerEngine()
ENGINES = [ROLLER]

ASSUMPTIONS = [
    "roller: one record = one write call whose buffer the BufWriter/OS accepts whole (always below 8 KiB; above, a regular-file write is assumed complete) - the driver reports any partial write as clause partial-write",
    "roller: the file system does not fail (no I/O errors in rename/open/remove/gzip) and nobody else touches the directory; files are those of one appender whose prefix contains no '.<date>.<digits>' pattern",
    "roller: chrono's mapping between instants, period starts and the period strings in file names is not modelled (time is a period index); it is exercised by the D1 driver incl. day/month/leap-day/year boundaries and first/last instants of a period",
    "roller: sequence numbers and max_retained are unbounded N in the model (u32 in the code); gzip round trip (flate2) is trusted, the driver decodes compressed files",
    "roller: the order/newest clauses assume a clock that never goes backwards (Props/C20_roller.v: _except_backward_clock); without it they are refuted on the faithful model and on the code (known finding F-roller-clock)",
    "roller: crash (process death without drop) is not modelled: a restart is drop + new, and the BufWriter flushes on drop",
]

WITNESS = {
    # started in period 5, clock then reads period 3; max_file_size 6, max_retained 1:
    # cleanup keeps app.<day5>.1 (the OLDER record) and deletes app.<day3>.1 (the newest)
    "F-roller-clock": (ROLLER, "daily 6 1 - app .log _ 5 0 w 3 0 1 7 w 3 0 2 7 f", "backward-clock-order"),
}


def run(tier, seed):
    return flow.standard("C20", tier, seed, ENGINES, ASSUMPTIONS, WITNESS)


MANIFEST = {
    "engine": "E-ROLLER",
    "engines": [{"name": "E-ROLLER", "path": "coq/Log/Roller.v, coq/Proofs/RollerProofs.v, coq/Props/C20_roller.v, ocaml/eng_roller.ml, harness/seqdrv/src/bin/roller.rs, vlib/engines_roller.py",
                 "kind": "K2 model of CustomRoller (write_internal/roll/cleanup/compress/new_at_time + BufWriter) over an abstract directory; theorems for all policies and all op sequences by invariants; D1 differential tie through hook H5 in a scratch directory, directory listing compared after every op"}],
    "technique": "Coq proofs (invariants + induction over all op sequences and all policies) about an executable model of the rolling appender + differential correspondence of the extracted model against fibre_logging::verif::CustomRoller (real files, real gzip, injected clock) + property monitor over the real directory listings",
    "text": "Coq theorems (Props/C20_roller.v), for every policy and every sequence of writes/empty writes/flushes/restarts: with a non-decreasing clock the rolled files in (period, seq) order followed by the active file are a suffix of the written stream, all of it when retention is unlimited (no loss/dup/reorder); with any clock and unlimited retention the files hold a permutation of the stream; a roll happens only between writes and the record that reaches the size limit is the last of the file it triggers (no tear, size rule); the rename target of a roll and the target of a compression never exist (never clobbers); at most max_retained rolled files exist and every deleted file is older than every retained one. The statement without the clock hypothesis is refuted (F-roller-clock) and the witness is replayed on the implementation.",
    "design_ref": "DESIGN.md §8 C20, §10 (H5)",
    "note": "Trusted: Coq kernel, ExtrOcamlBasic extraction + OCaml driver, the D1 harness/generator/monitor, chrono/flate2/std::fs. Modelled not verified: I/O failures, foreign files in the directory, crash without drop, u32 wrap, partial writes of buffers >= 8 KiB.",
}
