"""C20 (rolling-file half): engine `roller`.  The encoder half (engines json/pattern, Props/C20_enc.v)
is wired by its own worktree; the lead merges the two ENGINES/ASSUMPTIONS/WITNESS/MANIFEST parts."""
from .. import flow
from ..engines_roller import RollerEngine

ROLLER = RollerEngine()
ENGINES = [ROLLER]

ASSUMPTIONS = [
    "roller: one record = one write call whose buffer the BufWriter/OS accepts whole (always below 8 KiB; above, a regular-file write is assumed complete) - the driver reports any partial write as clause partial-write",
    "roller: the file system does not fail (no I/O errors in rename/open/remove/gzip) and nobody else writes to the directory while the appender runs; foreign files (sibling appenders sharing the prefix, unrelated files) may be present and are modelled as untouched (C20_roller_foreign_untouched) - except files named '<prefix>.<anything>.<date>.<digits>...' and prefixes that themselves contain '.<date>.<digits>', where the unanchored file-name regex mis-attributes files (known findings F-roller-dotted-sibling, F-roller-dated-prefix, replayed on the implementation, outside the model)",
    "roller: chrono's mapping between instants, period starts and the period strings in file names is not modelled (time is a period index); it is exercised by the D1 driver incl. day/month/leap-day/year boundaries and first/last instants of a period",
    "roller: sequence numbers and max_retained are unbounded N in the model (u32 in the code); gzip round trip (flate2) is trusted, the driver decodes compressed files",
    "roller: the order/newest clauses assume a clock that never goes backwards (Props/C20_roller.v: _except_backward_clock); without it they are refuted on the faithful model and on the code (known finding F-roller-clock)",
    "roller: crash (process death without drop) is not modelled: a restart is drop + new, and the BufWriter flushes on drop",
]

WITNESS = {
    # started in period 5, clock then reads period 3; max_file_size 6, max_retained 1:
    # cleanup keeps app.<day5>.1 (the OLDER record) and deletes app.<day3>.1 (the newest)
    "F-roller-clock": (ROLLER, "daily 6 1 - app .log _ 5 0 - w 3 0 1 7 w 3 0 2 7 f", "backward-clock-order"),
    # appender "app" (max_retained 1) deletes "app.extra.<day3>.1.log", a rolled file of the sibling appender "app.extra"
    # (residue of F-roller-prefix: the '.' after the prefix is now required, but the date regex is still unanchored)
    "F-roller-dotted-sibling": (ROLLER, "daily 5 1 - app .log _ 7 1 d:3:1 w 7 1 1 6 w 7 1 2 7 f", "dotted-sibling-touched"),
    # prefix "app.2024-01-01.7": every file parses as (2024-01-01, seq 7), numbering restarts at 1,
    # the second size roll renames onto the first rolled file and destroys record 1
    "F-roller-dated-prefix": (ROLLER, "never 10 - - app.2024-01-01.7 .log _ 0 0 - w 0 0 1 12 w 0 0 2 12 f", "dated-prefix-clobber"),
}


def run(tier, seed):
    return flow.standard("C20", tier, seed, ENGINES, ASSUMPTIONS, WITNESS)


MANIFEST = {
    "engine": "E-ROLLER",
    "engines": [{"name": "E-ROLLER", "path": "coq/Log/Roller.v, coq/Proofs/RollerProofs.v, coq/Props/C20_roller.v, ocaml/eng_roller.ml, harness/seqdrv/src/bin/roller.rs, vlib/engines_roller.py",
                 "kind": "K2 model of CustomRoller (write_internal/roll/cleanup/compress/new_at_time + BufWriter) over an abstract directory; theorems for all policies and all op sequences by invariants; D1 differential tie through hook H5 in a scratch directory, directory listing compared after every op"}],
    "technique": "Coq proofs (invariants + induction over all op sequences and all policies) about an executable model of the rolling appender + differential correspondence of the extracted model against fibre_logging::verif::CustomRoller (real files, real gzip, injected clock) + property monitor over the real directory listings",
    "text": "Coq theorems (Props/C20_roller.v), for every policy and every sequence of writes/empty writes/flushes/restarts: with a non-decreasing clock the rolled files in (period, seq) order followed by the active file are a suffix of the written stream, all of it when retention is unlimited (no loss/dup/reorder); with any clock and unlimited retention the files hold a permutation of the stream; a roll happens only between writes and the record that reaches the size limit is the last of the file it triggers (no tear, size rule); the rename target of a roll and the target of a compression never exist (never clobbers); at most max_retained rolled files exist and every deleted file is older than every retained one; foreign files (sibling appenders sharing the prefix, unrelated files) are never touched and influence nothing (C20_roller_foreign_untouched; F-roller-prefix fixed in /repo 95e064e). The statement without the clock hypothesis is refuted (F-roller-clock) and the witness is replayed on the implementation.",
    "design_ref": "DESIGN.md §8 C20, §10 (H5)",
    "note": "Trusted: Coq kernel, ExtrOcamlBasic extraction + OCaml driver, the D1 harness/generator/monitor, chrono/flate2/std::fs. Modelled not verified: I/O failures, crash without drop, u32 wrap, partial writes of buffers >= 8 KiB.",
}
