"""C20: log encoders are total and lossless (engines json, pattern — Props/C20_enc.v) and file rolling never
loses or tears records (engine roller — Props/C20_roller.v)."""
from .. import flow
from ..engines_json import JsonEngine, PatternEngine, s_tok, rfc3339_millis
from ..engines_roller import RollerEngine

JSON = JsonEngine()
PATTERN = PatternEngine()
ROLLER = RollerEngine()
ENGINES = [JSON, PATTERN, ROLLER]

ENC_ASSUMPTIONS = [
    "strings are Rust Strings, i.e. valid UTF-8; the models work on byte lists and the escape/scan theorems hold for ALL byte lists",
    "timestamp text (RFC3339 millis, and chrono's rendering of each %d{fmt}) is opaque data supplied with the case; chrono is not modelled. "
    "D1 feeds the model the text computed independently in Python and compares whole output lines",
    "finite f64 fields: serde_json's (zmij) text and Rust's Display text are opaque case data from a fixed pool; the JSON monitor "
    "parses the number back and compares it bit-for-bit with the input; NaN/inf must read back as null",
    "serde_json internals other than the string escaping table and the compact map layout are not modelled (tied by D1 only)",
    "pattern scanner: the source regex's \\d is Unicode-aware; the byte-level scanner model covers ASCII digits only. Patterns in which "
    "`%` or `%-` is directly followed by a non-ASCII decimal digit (e.g. U+0663) are outside the tie (the regex crate is trusted)",
    "pattern padding panic threshold 65535 is std::fmt's run-time width limit on the toolchain in use (rustc 1.95; limit introduced in 1.87); "
    "apply_padding on content of 2^31 bytes or more is not modelled",
    "a flattened record whose event has no message but a custom field named `message` shows that field under the key `message` "
    "(faithful, but a reader cannot tell it from the event message); the monitor accepts it",
]

ROLLER_ASSUMPTIONS = [
    "roller: one record = one write call whose buffer the BufWriter/OS accepts whole (always below 8 KiB; above, a regular-file write is assumed complete) - the driver reports any partial write as clause partial-write",
    "roller: the file system does not fail (no I/O errors in rename/open/remove/gzip) and nobody else writes to the directory while the appender runs; foreign files (sibling appenders sharing the prefix, unrelated files) may be present and are modelled as untouched (C20_roller_foreign_untouched) - except files named '<prefix>.<anything>.<date>.<digits>...' and prefixes that themselves contain '.<date>.<digits>', where the unanchored file-name regex mis-attributes files (known findings F-roller-dotted-sibling, F-roller-dated-prefix, replayed on the implementation, outside the model)",
    "roller: chrono's mapping between instants, period starts and the period strings in file names is not modelled (time is a period index); it is exercised by the D1 driver incl. day/month/leap-day/year boundaries and first/last instants of a period",
    "roller: sequence numbers and max_retained are unbounded N in the model (u32 in the code); gzip round trip (flate2) is trusted, the driver decodes compressed files",
    "roller: the order/newest clauses assume a clock that never goes backwards (Props/C20_roller.v: _except_backward_clock); without it they are refuted on the faithful model and on the code (known finding F-roller-clock)",
    "roller: crash (process death without drop) is not modelled: a restart is drop + new, and the BufWriter flushes on drop",
]

ASSUMPTIONS = ENC_ASSUMPTIONS + ROLLER_ASSUMPTIONS

_ms = 1698330605123
_ev = ["INFO", str(_ms), s_tok(rfc3339_millis(_ms)), s_tok("t"), s_tok("n"), s_tok("hi"), "-", "-", "-", "-"]
WITNESS = {
    # Props/C20_enc.v f27_event: flatten mode, custom field level=x
    "F-27": (JSON, " ".join(["json", "flat"] + _ev + ["f", s_tok("level"), "S", s_tok("x")]), "flatten-collision"),
    # Props/C20_enc.v f33_pattern / f33_event: %65536m
    "F-33-padwidth": (PATTERN, " ".join(["pattern", "full", s_tok("%65536m")] + _ev), "pad-width-panic"),

    # started in period 5, clock then reads period 3; max_file_size 6, max_retained 1:
    # cleanup keeps app.<day5>.1 (the OLDER record) and deletes app.<day3>.1 (the newest)
    "F-roller-clock": (ROLLER, "daily 6 1 - app .log _ 5 0 - w 3 0 1 7 w 3 0 2 7 f", "backward-clock-order"),
}


def run(tier, seed):
    return flow.standard("C20", tier, seed, ENGINES, ASSUMPTIONS, WITNESS)


_M_ENC = {
    "engine": "E-JSON, E-PATTERN",
    "engines": [
        {"name": "E-JSON", "path": "coq/Log/Json.v, coq/Proofs/JsonProofs.v, ocaml/eng_json.ml, harness/seqdrv/src/bin/json.rs, vlib/engines_json.py",
         "kind": "K1 pure-function model of serde_json string escaping + JsonLinesFormatter's record assembly/serialisation, a model JSON reader, "
                 "round-trip theorems for all byte strings / all events; D1 differential tie through the public EventFormatter API"},
        {"name": "E-PATTERN", "path": "coq/Log/Pattern.v, coq/Proofs/PatternProofs.v (same drivers, exe json)",
         "kind": "K1 model of the pattern scanner (language of the source regex) and segment interpreter with padding; D1 tie on grammar-generated and malformed patterns"},
    ],
    "technique": "Coq proofs over executable Gallina models (induction over byte lists / field lists / segment lists) + differential correspondence of the "
                 "extracted models against fibre_logging::encoders::{json::JsonLinesFormatter, pattern::PatternFormatter} on generated events every run",
    "text": "Coq theorems (Props/C20_enc.v): for every byte list s, unescape (escape s) = Some s; a reader scanning quote+escape s+quote+rest consumes exactly the "
            "literal; escape emits no byte < 0x20. For every event with well-formed field data the rendered record is body+newline with no control byte in "
            "body, the model reader parses it back to exactly the assembled sorted key/value map (no duplicate keys), and level, target, timestamp text, name, "
            "message and span/thread ids read back unchanged in both modes. Custom fields read back unchanged in nested mode and in flatten mode unless the "
            "name collides with a core key of the record: the unrestricted statement is refuted on the faithful model (finding F-27) and replayed on the code. "
            "Pattern encoder: padding never truncates (content is a prefix/suffix, fill is spaces, padded width = |p| chars); the message (level, target) is a "
            "contiguous sublist of the output whenever the parsed pattern has the segment; output ends in a newline; every event renders under every pattern "
            "whose widths are <= 65535 - the unrestricted totality statement is refuted (finding F-33: %65536m panics in std::fmt) and replayed on the code.",
    "design_ref": "DESIGN.md §8 C20 (C20_json, C20_pattern), §9 F-27",
    "note": "Trusted: Coq kernel, ExtrOcamlBasic extraction + OCaml driver, the D1 harness/generators/monitors, Python's json module (monitor). Modelled not "
            "verified: chrono, float formatting (opaque texts), the regex crate (scanner tied by D1, ASCII \\d only), UTF-8 validity of the output "
            "(only: non-ASCII bytes pass through unchanged in order).",
}

_M_ROL = {
    "engine": "E-ROLLER",
    "engines": [{"name": "E-ROLLER", "path": "coq/Log/Roller.v, coq/Proofs/RollerProofs.v, coq/Props/C20_roller.v, ocaml/eng_roller.ml, harness/seqdrv/src/bin/roller.rs, vlib/engines_roller.py",
                 "kind": "K2 model of CustomRoller (write_internal/roll/cleanup/compress/new_at_time + BufWriter) over an abstract directory; theorems for all policies and all op sequences by invariants; D1 differential tie through hook H5 in a scratch directory, directory listing compared after every op"}],
    "technique": "Coq proofs (invariants + induction over all op sequences and all policies) about an executable model of the rolling appender + differential correspondence of the extracted model against fibre_logging::verif::CustomRoller (real files, real gzip, injected clock) + property monitor over the real directory listings",
    "text": "Coq theorems (Props/C20_roller.v), for every policy and every sequence of writes/empty writes/flushes/restarts: with a non-decreasing clock the rolled files in (period, seq) order followed by the active file are a suffix of the written stream, all of it when retention is unlimited (no loss/dup/reorder); with any clock and unlimited retention the files hold a permutation of the stream; a roll happens only between writes and the record that reaches the size limit is the last of the file it triggers (no tear, size rule); the rename target of a roll and the target of a compression never exist (never clobbers); at most max_retained rolled files exist and every deleted file is older than every retained one; foreign files (sibling appenders sharing the prefix, unrelated files) are never touched and influence nothing (C20_roller_foreign_untouched; F-roller-prefix fixed in /repo 95e064e). The statement without the clock hypothesis is refuted (F-roller-clock) and the witness is replayed on the implementation.",
    "design_ref": "DESIGN.md §8 C20, §10 (H5)",
    "note": "Trusted: Coq kernel, ExtrOcamlBasic extraction + OCaml driver, the D1 harness/generator/monitor, chrono/flate2/std::fs. Modelled not verified: I/O failures, crash without drop, u32 wrap, partial writes of buffers >= 8 KiB.",
}

MANIFEST = {
    "engine": "E-JSON, E-PATTERN, E-ROLLER",
    "engines": _M_ENC["engines"] + _M_ROL["engines"],
    "technique": "Coq proofs over executable Gallina models (byte lists, events, segment lists; roller: invariants over all policies and op sequences) + differential correspondence of the extracted models against the real encoders and the real CustomRoller on generated cases every run",
    "text": "ENCODERS: " + _M_ENC["text"] + "  ROLLING: " + _M_ROL["text"],
    "design_ref": "DESIGN.md Part I §I.6 C20; Part II §8 C20",
    "note": _M_ENC["note"] + "  " + _M_ROL["note"],
}
