from ..multiprop import make
from ..chan_manifest import BASE

run, MANIFEST = make("C09", BASE["C09"])
