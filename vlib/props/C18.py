from .. import flow
from ..engines_ioc import IocEngine

ENGINES = [IocEngine(m) for m in ("I", "G", "L")]
BY = {e.mode: e for e in ENGINES}

ASSUMPTIONS = [
    "DashMap (Container) and HashMap (LocalContainer) are modelled as one association list per container: insert replaces, get finds; their internals are library code (modelled by documented behaviour, not traced)",
    "once_cell::{sync,unsync}::OnceCell is modelled by its documented behaviour: get_or_init runs the closure at most once at a time, a panicking closure leaves the cell empty, other threads block until the runner finishes (K3 protocol model Ioc/OnceCell.v; validated by the real-thread stress op, not traced)",
    "factories are scripts (resolve listed keys in order with resolve!/maybe_resolve!, then build); factories that register, spawn threads or catch panics themselves are outside the model",
    "TypeId equality is modelled as equality of a type index (8 marker types incl. 2 trait objects); names from {None,\"a\",\"b\"}",
    "instance identity (Arc::ptr_eq) is observed through a unique id carried by the instance",
]

WITNESS = {
    "F-33-xcontainer": (BY["I"], "I reg s 0 0 - 1 1 0 - r reg s 1 0 - 0 res 0 0 -", "cross-container-spurious-cycle"),
    "F-33-xcontainer-global": (BY["G"], "G reg s 1 0 - 1 0 0 - r reg s 0 0 - 0 res 1 0 -", "cross-container-spurious-cycle"),
    "F-24": (BY["I"], "I selfreg s 0 -", "hang-register-in-factory"),
    "F-33-xcontainer-local": (BY["L"], "L reg t 0 0 a 1 1 0 a o reg t 1 0 a 0 res 0 0 a", "cross-container-spurious-cycle"),
}


def run(tier, seed):
    return flow.standard("C18", tier, seed, ENGINES, ASSUMPTIONS, WITNESS)


MANIFEST = {
    "engine": "E-IOC",
    "engines": [{"name": "E-IOC", "path": "coq/Ioc/Container.v, coq/Ioc/OnceCell.v, coq/Proofs/ContainerProofs.v, coq/Proofs/OnceCellProofs.v, ocaml/eng_ioc.ml, harness/seqdrv/src/bin/ioc.rs, vlib/engines_ioc.py",
                 "kind": "K2 executable model of Container/LocalContainer/global resolution with the thread-local resolution stack (theorems for all histories and dependency graphs); K3 once-cell protocol (all schedules); D1 differential tie through the public API and the resolve macros"}],
    "technique": "Coq proofs over an executable model of registration/resolution (induction over histories and over the fuelled resolution, fuel shown sufficient) + all-schedules proof of an abstract once-cell protocol + differential correspondence of the extracted model against fibre_ioc on generated histories (instance, global, local containers) with a real-thread stress validation",
    "text": "Coq theorems (Props/C18.v): for every registration/resolution history and dependency graph: unregistered => None; latest registration wins; instances are produced by the registration currently at the resolved key (no aliasing across types/names/containers) and a resolution only touches keys reachable through its dependencies; transient => fresh id each time; singleton => factory completes at most once per registration and every resolution until re-registration returns the same id; a reachable live dependency cycle => Panic, and the supplied fuel (registered keys + 1) never runs out, so resolution terminates. Once-cell protocol: for all schedules of N threads at most one factory run completes and all callers return the same value. once_cell/DashMap are modelled by documented behaviour (partial).",
    "design_ref": "DESIGN.md §8 C18, §7 E-IOC",
    "note": "Known finding F-24 (same-thread variant, reproduced deterministically): Container::get holds the DashMap shard read guard across the factory call, so a factory that re-registers its own key never returns; outside the model, replayed on the implementation each run. Known finding F-33: the thread-local resolution stack is keyed by (type,name) only, so resolving the same key from another container inside a factory panics with a spurious 'Circular dependency'. Trusted: Coq kernel, extraction + OCaml driver, the D1 harness/generators. Modelled not verified: once_cell, dashmap, TypeId.",
}
