from .. import flow
from ..engines_iter import IterEngine

ENG = IterEngine()
ENGINES = [ENG]

ASSUMPTIONS = [
    "a shard's HashMap is modelled as a list in its enumeration order; the order is arbitrary but does not change while "
    "the map is unchanged (quiescence, the property's hypothesis) - every theorem is universally quantified over it; "
    "iteration that races with writers is outside C17's hypothesis and not modelled",
    "serde/bincode are trusted: serialization is the identity on the snapshot value in the model; the harness does a real "
    "bincode round trip on every snapshot and flags any difference",
    "hash function: the harness installs a deterministic BuildHasher whose low 3 bits are the key's (shard = key mod n, "
    "n in {1,2,4,8}); the theorems need only that a key always hashes to the same shard (wf_from)",
    "times are unbounded N (no u64 nanosecond wrap); metrics.current_cost IS modelled with u64 wrap-around",
    "restored-capacity theorems: per-shard LruPolicy (model Cache/PolicyLru.v, tied by C14's engine) instead of the "
    "default TinyLFU, which is sketch/hash dependent; reads of bounded caches go through peek (no read-access batching); "
    "caches that run run_maintenance are built without time_to_live/time_to_idle (no timer wheel, no TTI sampling); "
    "fewer than 512 undrained write events per shard (the channel bound is not modelled); remove/clear/loaders/listeners "
    "are not in the op language (C11-C13/C15/C16 own them)",
    "the capacity clause is stated for histories whose run_maintenance calls drain their buffers completely (<= 16 "
    "pending writes per shard, COOPERATIVE_MAINTENANCE_DRAIN_LIMIT); partial drains are modelled and tied by D1 but "
    "their accounting drift is property C13's subject",
    "background work pinned off in the harness: janitor tick 1 h, maintenance_chance(2^31), "
    "maintenance_on_introspection(false); the cache clock is the virtual clock of hook H4",
]

WITNESS = {
    "F-23": (ENG, "1 10 0 0 I 1 1 4 I 2 2 4 I 3 3 4 SN 0 0 M C", "restored-over-capacity"),
    "F-C17-tti": (ENG, "1 0 0 10 I 1 1 1 A 9 SN 0 10 A 5 P 1", "restore-tti-not-preserved"),
}


def run(tier, seed):
    return flow.standard("C17", tier, seed, ENGINES, ASSUMPTIONS, WITNESS)


MANIFEST = {
    "engine": "E-ITER",
    "engines": [{"name": "E-ITER",
                 "path": "coq/Cache/Iter.v, coq/Cache/Snapshot.v, coq/Proofs/{Iter,Snapshot,RestoreCapacity}Proofs.v, "
                         "ocaml/eng_iter.ml, harness/seqdrv/src/bin/iter.rs, vlib/engines_iter.py",
                 "kind": "K1/K2 models of the cursor iteration (Iter, IterStream, SnapshotIter, AsyncSnapshotIter), of "
                         "to_snapshot / build_from_snapshot, and of insert + run_maintenance with per-shard LRU; D1 "
                         "differential tie against the real Cache under the virtual clock, with a real bincode round trip"}],
    "technique": "Coq proofs for all shard contents / enumeration orders / batch sizes / clocks / op histories + differential "
                 "correspondence of the extracted model against fibre_cache (iter.rs, snapshot.rs, builder restore path, janitor)",
    "text": "Coq theorems (Props/C17.v): the cursor iteration of iter.rs yields exactly the live entries, each once, in "
            "every per-shard order and for every batch size >= 1 (C17_iter, equality, no out-of-fuel), with the sandwich "
            "guarantee when the clock advances mid-iteration (C17_iter_clock); iter_snapshot likewise (C17_iter_snapshot); "
            "restore(snapshot c) has the same live key->(value,cost) mapping, exact current_cost and exactly the same TTL "
            "left (C17_snapshot_*); the full lifetime clause is refuted for idle timeouts (restore re-stamps last_accessed) "
            "and holds without TTI; a cache built empty always ends a fully draining run_maintenance within capacity "
            "(C17_fresh_capacity) while the same clause for restored caches is refuted (finding F-23: the restore admits "
            "nothing to the policy, so a snapshot taken over capacity stays over capacity) and holds whenever the snapshot "
            "was within capacity (C17_restored_capacity_except_F23). Both refutation witnesses are replayed on the real code "
            "by the property monitor on every run.",
    "design_ref": "DESIGN.md §8 C17, §9 F-23",
    "note": "Trusted: Coq kernel, ExtrOcamlBasic extraction + OCaml driver, the D1 harness/generator/monitor, serde/bincode, "
            "hashbrown's iteration stability on an unchanged map. Clock-advancing iterations are order dependent, so their "
            "item lists are judged by the monitor (sandwich clauses of C17_iter_clock), not diffed. Not covered: iteration "
            "concurrent with writers, TinyLFU after restore, timer-wheel interaction after restore (restored TTL entries get "
            "no timer), remove/clear.",
}
