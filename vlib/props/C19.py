import threading

from .. import common as C
from .. import flow
from .. import engines_pipe
from ..engines_route import RouteEngine

ROUTE = RouteEngine()
ENGINES = [ROUTE]

ASSUMPTIONS = [
    "logger names / targets are byte strings, appender names opaque ids; HashMap<String,_> modelled as association lists with unique keys (wf_cfg) - duplicate YAML keys are refused by both drivers",
    "tracing's callsite interest cache, max-level hint plumbing (tracing-core / tracing-subscriber Layered) and the log crate's max_level gate are modelled by their documented contract (emit: hint check, then Layer::enabled, then on_event)",
    "D1 runs each case in a fresh child process (process-global init); targets come from a fixed pool of 24 literals x 5 levels because tracing callsites are static",
    "Log/Pipeline.v (writer loop, blocking send incl. its pre-register spin, shutdown_impl) is a hand-written section-level model with an abstract FIFO; it is tied to the source by a skeleton check of the operation order (vlib/engines_pipe.py), by the deterministic D1 scenarios (capacity 1..64, block policy, 1-3 emitting threads, scripted shutdown point, shutdown() and Drop) and by monitor-only shutdown-race scenarios - NOT by a trace-refinement replay (no deterministic scheduler exists for the logging crate); park/unpark is abstracted to retry, so only safety is proved; the join deadline of shutdown_impl is not modelled",
    "the shutdown-race scenarios and the F-26/F-33 replays are schedule-dependent (real threads): their counts vary from run to run, the verdict does not",
    "debug_report appenders (skipped in release builds), console/rolling_file appenders and DropNewest under a full channel are not exercised",
]

F25 = "route s A s0 c 16 b L root info 1 1 s0 L noisy info 0 0 E 0 noisy::x info"
F25B = "route s A s0 c 16 b A s1 c 16 b L root info 1 1 s0 L app info 0 1 s1 L app::db info 1 0 E 0 app::db::pool info"
# schedule-dependent witnesses (real threads), replayed several times:
# 12 threads x 4 events racing with shutdown() on a capacity-1 blocking custom stream
RACE_WITNESS_26 = "route x0 A s0 c 1 b L root info 1 1 s0 S " + " ".join("E %d app info" % (i % 12) for i in range(48))
# 4 threads x 6 events, slow consumer, shutdown a little later: senders are parked when the handle is closed
RACE_WITNESS_33 = "route x100 D 100 A s0 c 1 b L root info 1 1 s0 S " + " ".join("E %d app info" % (i % 4) for i in range(24))

WITNESS = {
    "F-25": (ROUTE, F25, "nonadditive-no-appenders"),
    "F-25b": (ROUTE, F25B, "additive-no-appenders"),
}
RACE_FINDINGS = {"F-26": ("late-after-disconnect", RACE_WITNESS_26), "F-33-logclose": ("emitter-stuck-after-shutdown", RACE_WITNESS_33)}


def run_parallel(exe, lines, ways=4):
    """C.run_lines shards only above 50 lines; children are slow, so fan out by hand"""
    ways = max(1, min(ways, len(lines)))
    chunks = [lines[i::ways] for i in range(ways)]
    res = [None] * ways

    def work(i):
        res[i] = C.run_lines(exe, chunks[i], shards=1)

    ths = [threading.Thread(target=work, args=(i,)) for i in range(ways)]
    for t in ths:
        t.start()
    for t in ths:
        t.join()
    out = [None] * len(lines)
    for i in range(ways):
        for j, o in enumerate(res[i]):
            out[i + j * ways] = o
    return out


def extra(r):
    # (a) source skeleton of the functions Log/Pipeline.v was written from
    rows, problems = engines_pipe.check()
    r.cov["pipeline_skeleton_rows"] = rows
    if problems:
        path = C.write_replay("C19", {"kind": "skeleton", "problems": problems,
                                      "broken": "D3 skeleton of engine pipe (model file coq/Log/Pipeline.v)"})
        r.violations.append((path, "no-failing-input-found"))
    exe = r._impl_exes["route"]
    # (b) shutdown racing with emitters: judged by the monitor alone
    n = 32 if r.tier == "quick" else 640
    lines = [ROUTE.gen_race(C.Rng(r.seed, "route.race", i)) for i in range(n)]
    outs = run_parallel(exe, lines)
    clause_count, mid = {}, 0
    new = {}
    for line, o in zip(lines, outs):
        hits = ROUTE.monitor(line, o)
        for c, d in hits:
            clause_count[c] = clause_count.get(c, 0) + 1
            if not r.is_known(ROUTE, c):
                new.setdefault(c, (line, o, d))
        if " S " in line and "END=" in o:
            mid += 1
    r.cov["evaluations"] += n
    r.cov["engines"]["route.race"] = {"cases": n, "schedule_dependent_monitor_hits": clause_count,
                                     "note": "real threads; shutdown()/Drop concurrent with 10-120 emissions on 1-3 threads"}
    for c, (line, o, d) in new.items():
        path = C.write_replay("C19", {"kind": "property-monitor", "engine": "route", "case": line, "impl_output": o,
                                      "clause": c, "detail": d, "schedule_dependent": True,
                                      "replay": "echo '%s' | .build/target/release/route   (repeat: the failure depends on thread timing)" % line})
        r.violations.append((path, ""))
    # (c) the two schedule-dependent known findings: replay each witness a bounded number of times
    copies = 32 if r.tier == "quick" else 128
    for k in r.known:
        if k["id"] not in RACE_FINDINGS:
            continue
        clause, witness = RACE_FINDINGS[k["id"]]
        outs = run_parallel(exe, [witness] * copies)
        shown = None
        for o in outs:
            for c, d in ROUTE.monitor(witness, o):
                if c == clause:
                    shown = shown or o
                elif not r.is_known(ROUTE, c) and c not in new:
                    new[c] = True
                    path = C.write_replay("C19", {"kind": "property-monitor", "engine": "route", "case": witness,
                                                  "impl_output": o, "clause": c, "detail": d, "schedule_dependent": True})
                    r.violations.append((path, ""))
        if shown:
            r.known_lines.append("KNOWN-FINDING: property=C19 id=%s %s" % (k["id"], k["what"]))
            r.cov.setdefault("known_findings_replayed", []).append(
                {"id": k["id"], "witness": witness, "impl_output": shown, "copies_run": copies})
        else:
            r.cov.setdefault("known_findings_not_reproduced", []).append(
                {"id": k["id"], "witness": witness, "copies_run": copies, "note": "schedule-dependent; not hit in this run"})


def run(tier, seed):
    return flow.standard("C19", tier, seed, ENGINES, ASSUMPTIONS, WITNESS, extra=extra)


MANIFEST = {
    "engine": "E-ROUTE",
    "engines": [
        {"name": "E-ROUTE", "path": "coq/Log/Route.v, coq/Proofs/RouteProofs.v, coq/Proofs/RouteThm.v, coq/Props/C19.v, ocaml/eng_route.ml, harness/seqdrv/src/bin/route.rs, vlib/engines_route.py",
         "kind": "K1 pure-function model of build_filter_for_appender / find_most_specific_rule / process_event behind both entry points; spec = the property sentence over the logger tree; D1 differential tie through child processes (one process-global init each)"},
        {"name": "E-PIPE", "path": "coq/Log/Pipeline.v, coq/Proofs/PipelineProofs.v, coq/Props/C19_pipeline.v, vlib/engines_pipe.py",
         "kind": "K3' section-level model of emitters -> bounded FIFO -> writer thread + shutdown_impl, all schedules; tied by source skeleton + end-to-end scenarios only"},
    ],
    "technique": "Coq proofs about executable Gallina models (routing: model = specification for all configurations/targets/levels/appenders; pipeline: all-schedules invariant) + differential correspondence of the extracted routing model against fibre_logging in child processes + independent property monitor + source skeleton check for the pipeline model",
    "text": "Coq theorems (Props/C19.v): for every well-formed configuration, target, level and appender the code's routing "
            "(per-appender filters, most-specific rule, non-additive gate, behind log:: and tracing:: with their level fast paths) "
            "equals the property sentence, PROVIDED the most specific logger matching the target names at least one appender "
            "(C19_route_except_F25_at / _except_F25); without that proviso the sentence is refuted on the faithful model "
            "(C19_route_refuted_F25: a non-additive logger without appenders does not gate; C19_route_refuted_F25_additive: an additive one "
            "does not lift an ancestor's gate) and both witnesses are replayed on the implementation (known findings F-25, F-25b). "
            "log and tracing select the same appenders unconditionally (C19_route_log_eq_tracing), each selected appender is sent the event "
            "exactly once (C19_route_exactly_once); the matcher is the module-path prefix (`apple` is not under `app`) and the longest matching "
            "prefix is unique. Props/C19_pipeline.v, for every capacity, script and schedule of the pipeline model: per-thread emission order and "
            "exactly-once through channel and writer, capacity never exceeded, no failed send and no loss before shutdown begins, and at writer "
            "exit / shutdown return every event accepted BEFORE the shutdown flag was stored has been written (C19_pipeline_no_loss_except_F26). "
            "The shutdown clause is therefore PARTIAL: for events accepted while shutdown is in progress the statement is refuted on the model "
            "(C19_pipeline_refuted_F26) and its observable form is reproduced on the implementation (F-26: an event is accepted into a custom "
            "stream after the stream reported Disconnected; F-33: an emitter parked in a blocking send is not woken by shutdown and stays blocked "
            "while the stream receiver is alive). The pipeline model is tied by a source-skeleton check and end-to-end/race scenarios, not by trace refinement.",
    "design_ref": "DESIGN.md §8 C19, §9 F-25/F-26, §11 item 19",
    "note": "Trusted: Coq kernel, ExtrOcamlBasic extraction + OCaml driver, the child-process harness, generators, monitor, skeleton regexes. "
            "Modelled not verified: tracing/log macro plumbing, HashMap as association list, FIFO channel internals (C01-C05), park/unpark, join deadline, "
            "file system. Not covered: console/rolling/debug_report appenders, DropNewest under pressure, liveness.",
}
