from .. import flow
from ..engines_route import RouteEngine

ROUTE = RouteEngine()
ENGINES = [ROUTE]

ASSUMPTIONS = [
    "logger names / targets are byte strings, appender names opaque ids; HashMap<String,_> modelled as association lists with unique keys (wf_cfg) - duplicate YAML keys are refused by both drivers",
    "tracing's callsite interest cache, max-level hint plumbing (tracing-core / tracing-subscriber Layered) and the log crate's max_level gate are modelled by their documented contract (emit: hint check, then Layer::enabled, then on_event)",
    "D1 runs each case in a fresh child process (process-global init); targets come from a fixed pool of 24 literals x 5 levels because tracing callsites are static",
    "channel capacity, overflow policy, the writer thread and shutdown are exercised by D1 (block policy with capacities 1..64 and concurrent emitter threads) and judged by the monitor, but the all-schedules pipeline/shutdown theorem (C19_pipeline) is NOT part of this check: see level_note",
    "debug_report appenders (skipped in release builds), console/rolling_file appenders, DropNewest under a full channel: not exercised",
]

WITNESS = {
    "F-25": (ROUTE, "route s A s0 c 16 b L root info 1 1 s0 L noisy info 0 0 E 0 noisy::x info", "nonadditive-no-appenders"),
    "F-25b": (ROUTE, "route s A s0 c 16 b A s1 c 16 b L root info 1 1 s0 L app info 0 1 s1 L app::db info 1 0 E 0 app::db::pool info",
              "additive-no-appenders"),
}


def run(tier, seed):
    return flow.standard("C19", tier, seed, ENGINES, ASSUMPTIONS, WITNESS)
