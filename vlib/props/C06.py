from ..multiprop import make
from ..chan_manifest import BASE
run, MANIFEST = make("C06", BASE["C06"])
