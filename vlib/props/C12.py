from .. import flow
from ..engines_cache import CacheEngine, S
from ..engines_loader import LoaderSeq

ENG = CacheEngine(prop="C12")
# the stale-while-revalidate sentence is proved on C15's loader model (Props/C12_stale.v) and tied
# through its sequential engine; its monitor's clause for this property is "C12:stale-window"
ENGINES = [ENG, LoaderSeq()]

ASSUMPTIONS = [
    "K2 (operation-level) model with the virtual clock of hook H4 (verif_time::set_virtual/advance): time moves only by explicit advance ops; boundary instants (1 ns before, at, after a deadline) are ordinary inputs",
    "TTL/TTI arithmetic on unbounded N (u64 ns in the code; no overflow for < 2^64 ns); expires_at = 0 is the code's 'no TTL' marker and the model keeps it",
    "timer wheel: tick duration 1 s in D1 (the f64 rounding of duration/tick is exact there), wheel sizes 60/4/7; schedule/cancel/advance modelled as in task/timer.rs (one tick per advance call)",
    "TTI cleanup samples the first 10 entries in HashMap iteration order: D1 keeps <= 9 entries per shard so the order is immaterial; the theorems do not depend on the order",
    "the stale-while-revalidate sentence (fetch_with) is proved on the loader model of C15 (Props/C12_stale.v) and tied by engine loader.seq; iterators/snapshots belong to C17",
    "switches fix_f15/fix_f16/fix_f33 of the model select the behaviour after the patches proposed in docs/C12.md; D1 runs the model with CacheOps.impl_fixes (today: none)",
]

T5 = 5 * S
B = 1000 * S
WITNESS = {
    "F-15": (ENG, "lru 1 0 %d 0 60 0 0 0 %d s i 1 100 1 a %d g 1 eo 1 e 1 7 1 y 900" % (T5, B, T5), "entry-serves-expired"),
    "F-16": (ENG, "lru 1 0 %d 0 60 0 0 0 %d s i 1 100 1 m m m m m m f 1 y 900" % (T5, B), "maintenance-evicts-unexpired"),
    "F-33-compute": (ENG, "lru 1 0 %d 0 60 0 0 0 %d s i 1 100 1 a %d g 1 cv 1 k y 900" % (T5, B, T5), "compute-sees-expired"),
}


def run(tier, seed):
    return flow.standard("C12", tier, seed, ENGINES, ASSUMPTIONS, WITNESS)


MANIFEST = {
    "engine": "E-CACHE",
    "engines": [{"name": "E-CACHE", "path": "coq/Cache/CacheOps.v, coq/Cache/CacheSpec.v, coq/Proofs/Cache{Core,Step,C12}Proofs.v, ocaml/eng_cache.ml, harness/seqdrv/src/bin/cache.rs",
                 "kind": "K2 operation-level model of the sharded cache incl. entry expiry fields, timer wheel (one tick per call), TTI sampling, virtual clock; D1 differential tie on both handles"}],
    "technique": "Coq proofs over all states/operations of the model: served => live, deadline provenance and frame, presence on unbounded caches; refutation witnesses (vm_compute) for the code as found; differential correspondence of the extracted model against the real cache under a virtual clock",
    "text": "Coq theorems (Props/C12.v): C12_seq — with the F-15/F-33 patches every value handed out by get/fetch/peek/multiget/entry/compute_val is unexpired (now < expires_at and now < last_refresh + tti); refuted on the code as found by entry() (F-15) and compute_val (F-33), holds there for every other read path (C12_seq_except_F15_F33). C12_deadline_set/C12_deadline_frame — TTL counts from the insert, the idle timer is moved only by get/fetch/multiget hits (peek, entry, compute do not refresh). C12_present_fixed — with the F-16 patch, on an unbounded cache no operation other than an explicit removal/overwrite makes an unexpired entry disappear, and C12_live_is_served — a resident unexpired entry is returned by every read path; refuted on the code as found by repeated run_maintenance (F-16), holds there for all non-maintenance operations. Stale-while-revalidate: see C15's loader model.",
    "design_ref": "DESIGN.md §8 C12, §7 E-CACHE, §9 F-15/F-16",
    "note": "Trusted: Coq kernel, extraction + OCaml driver, D1 harness/generators, hook H4 (virtual clock). Modelled not verified: f64 tick rounding outside tick = 1 s, HashMap iteration order.",
}
