from .. import flow
from ..engines_cache import CacheEngine, POLICIES
from ..engines_loader import LoaderConc
from ..engines_cache_adm import CacheAdmEngine

# the loader's gated concurrent scenarios judge the fetch_with clause of C11 ("a fetch_with hit ...
# no resurrection of a removed value") with the clause id C11:removed-value-returned
ENGINES = [CacheEngine(prop="C11"), LoaderConc(), CacheAdmEngine()]

ASSUMPTIONS = [
    "engine cache.adm is model-free (implementation-side monitors only) and covers the policies outside the Coq model: TinyLfu (builder default, the AdmitAndEvict path), Arc, Slru, Random; its over-capacity clause is not judged for Arc (F-20-arc-admit)",
    "K2 (operation-level) model: every API call is one atomic step; run_maintenance and the janitor's passes are steps that may occur at any point of the sequence. The sentence of C11 about CONCURRENT read-modify-writes is not covered by this model (partial).",
    "values are u64 ids, keys u64 with an identity hasher (shard = key & (n-1)); the HashMap per shard is an association list",
    "background work pinned off in D1: janitor gated 1-in-2^31, maintenance_chance 2^31 (or 1 = every insert, modelled), so maintenance happens only where the case says",
    "generator restriction (lru only): a shard's read batch never holds two distinct keys, because the batch is applied in the iteration order of a RandomState HashMap; the model's OMaint carries that order as a parameter, the theorem holds for every order",
    "fetch_with/loader, iterators, snapshots: owned by C15/C17, not in this engine; TinyLFU/ARC/SLRU/Random policies: not modelled here (the theorem is stated for every policy record whose on_admit always admits)",
]

WITNESS = {}


def run(tier, seed):
    return flow.standard("C11", tier, seed, ENGINES, ASSUMPTIONS, WITNESS)


MANIFEST = {
    "engine": "E-CACHE",
    "engines": [{"name": "E-CACHE", "path": "coq/Cache/CacheOps.v, coq/Cache/CacheSpec.v, coq/Proofs/Cache{Core,Step,C11}Proofs.v, ocaml/eng_cache.ml, harness/seqdrv/src/bin/cache.rs",
                 "kind": "K2 operation-level model of the sharded cache (maps, policy, event buffer, read batcher, timer wheel, cost counter, notifier queue, virtual clock); D1 differential tie on both handles"}],
    "technique": "Coq proof by invariant + induction over all operation sequences that the cache's (operation, result) trace is accepted by the per-key register that may forget; differential correspondence of the extracted model against fibre_cache::Cache / AsyncCache",
    "text": "Coq theorems (Props/C11.v): C11_seq — for every policy, configuration and sequence of insert/insert_with_ttl/get/fetch/peek/entry/compute*/remove/invalidate/clear/multi_*/run_maintenance/janitor passes/advance, every read returns None or the latest value written to that key and not removed since (never another key's value, never an overwritten or removed value); C11_compute_atomic — compute is a read-modify-write of one key on one state; C11_or_insert_once — or_insert never replaces a readable entry. PARTIAL: sequential (K2) semantics only; the clause about concurrent read-modify-writes is not covered.",
    "design_ref": "DESIGN.md §8 C11, §7 E-CACHE",
    "note": "Trusted: Coq kernel, extraction + OCaml driver, D1 harness/generators. Modelled not verified: hashing (identity hasher in D1), HashMap iteration order, thread scheduling (none in K2).",
}
