from .. import flow
from ..engines_policy import PolicyEngine

ENGINES = [PolicyEngine(p) for p in ("lru", "fifo", "sieve", "clock", "slru", "random", "arc", "tinylfu")]
BY = {e.pol: e for e in ENGINES}

ASSUMPTIONS = [
    "LruList's arena/index links/HashMap, Sieve/Clock's HashMap+order pair and Random's HashMap are modelled as (ordered) key/cost lists; tied by D1 on every run",
    "u64 cost arithmetic modelled on unbounded N (no overflow: costs <= 100, <= 200 calls; a few corpus cases with costs < 2^26)",
    "keys are u64 compared by equality; the policy's Mutex makes each trait call atomic (calls are sequential in D1)",
    "f64 in SlruPolicy::new / TinyLfuPolicy::new ((cap as f64 * 0.20).round(), * 0.01) and in Arc's delta ((a as f64 / b as f64).round()) is modelled as exact round-half-away-from-zero on N, floor((2a+b)/2b); the two agree for operands < 2^26 and D1 stays below that (TinyLfu capacities <= 1000 because the real sketch allocates 40 * capacity counters)",
    "TinyLfu's count-min sketch (ahash, random seeds, periodic halving) is an abstract component of the model (any state type, increment, estimate, clear): theorems hold for every instance, the real sketch being one; Random's RNG likewise (any state type and choice function).  For these two D1 is relational: the model driver is given the implementation's output, instantiates the abstract component with the replay of its choices (rejected candidates / chosen victims), and the model's output under that instance must equal the implementation's",
    "what a policy 'tracks' is its resident set: Slru probationary+protected, Arc T1+T2 (not the ghost lists B1/B2), TinyLfu window+probationary+protected, Random its map",
    "Slru/Arc/TinyLfu store the cost passed to on_access as the key's recorded cost (LruList::push_front on the access path); the contract clause for them is access_update, which coincides with 'unchanged' when the cache passes the entry's cost",
    "AdmissionDecision::Reject is returned by no built-in policy and ignored by task/janitor.rs; the contract does not admit it (the monitor reports it)",
    "NullPolicy (unbounded caches) tracks and evicts nothing by design; not part of the claim",
]

WITNESS = {
    "F-19-fifo": (BY["fifo"], "fifo m 1 1 m 1 50 e 1", "readmit-cost"),
    "F-20-arc-admit": (BY["arc"], "arc:2 m 1 1 m 2 1 m 3 1 e 3", "arc-unevictable-resident"),
}
# fixed (known_findings.txt `fixed:` lines, no witness): F-19-clock, F-19-slru (readmit-cost),
# F-20-arc-evict (arc-evict-stall), F-21-tinylfu (tinylfu-window-unevictable).  Their monitor
# clauses stay in place and are ordinary violations now; their shapes stay in the corpus.


def run(tier, seed):
    return flow.standard("C14", tier, seed, ENGINES, ASSUMPTIONS, WITNESS)

MANIFEST = {
    "engine": "E-POLICY",
    "engines": [{"name": "E-POLICY", "path": "coq/Cache/Policy*.v, coq/Proofs/Policy*Proofs.v, ocaml/eng_policy.ml, harness/seqdrv/src/bin/policy.rs",
                 "kind": "K1 pure-function models of the eight eviction policies (TinyLfu's sketch and Random's RNG as abstract components); contract proved for all call sequences; D1 tie through the public CachePolicy trait (functional for six policies, relational for Random/TinyLfu)"}],
    "technique": "Coq proof of the policy contract for all call sequences (induction over calls) + differential correspondence of the extracted model against fibre_cache::policy::*",
    "text": "Coq theorems (Props/C14.v, Props/C14_more.v): for every call sequence (and every capacity, every RNG, every frequency sketch), Lru/Sieve/Clock/Slru/Random/TinyLfu satisfy the full C14 contract (victims tracked, no duplicates, exact recorded costs, tracking ends only via victim/remove/clear -- or, for TinyLfu, via the victims of an AdmitAndEvict decision --, evict frees >= n when possible, re-admission updates cost); Fifo satisfies it except the re-admission clause (F-19-fifo, pinned upstream); Arc satisfies it, including sufficiency, except that an admission may silently drop one other resident (F-20-arc-admit). Both exceptions are refuted on the faithful model with a witness that is replayed on the implementation and judged by the monitor. LRU/FIFO/SLRU eviction-order theorems. The hand-written models are tied to the code by running the extracted models and the real policies on the same generated call sequences every run.",
    "design_ref": "DESIGN.md §8 C14, §7 E-POLICY",
    "note": "Trusted: Coq kernel, ExtrOcamlBasic extraction + OCaml driver (incl. the replay instances for Random/TinyLfu), the D1 harness/generators. Modelled not verified: arena/HashMap internals (abstracted to ordered lists), u64 overflow, f64 rounding (exact below 2^26), the count-min sketch and the RNG (abstract; theorems hold for every instance).",
}
