from .. import flow
from ..engines_policy import PolicyEngine

ENGINES = [PolicyEngine(p) for p in ("lru", "fifo", "sieve", "clock")]
BY = {e.pol: e for e in ENGINES}

ASSUMPTIONS = [
    "LruList's arena/index links/HashMap and Sieve/Clock's HashMap+order pair are modelled as one ordered list; tied by D1 on every run",
    "u64 cost arithmetic modelled on unbounded N (no overflow: costs <= 100, <= 200 calls)",
    "keys are u64 compared by equality; the policy's Mutex makes each trait call atomic (calls are sequential in D1)",
    "Slru, Arc, TinyLfu, Random: see level_note",
]

WITNESS = {
    "F-19-fifo": (BY["fifo"], "fifo m 1 1 m 1 50 e 1", "readmit-cost"),
    "F-19-clock": (BY["clock"], "clock m 1 1 m 1 50 e 1", "readmit-cost"),
}


def run(tier, seed):
    return flow.standard("C14", tier, seed, ENGINES, ASSUMPTIONS, WITNESS)

MANIFEST = {
    "engine": "E-POLICY",
    "engines": [{"name": "E-POLICY", "path": "coq/Cache/Policy*.v, coq/Proofs/Policy*Proofs.v, ocaml/eng_policy.ml, harness/seqdrv/src/bin/policy.rs",
                 "kind": "K1 pure-function models of the eviction policies; contract proved for all call sequences; D1 differential tie through the public CachePolicy trait"}],
    "technique": "Coq proof of the policy contract for all call sequences (induction over calls) + differential correspondence of the extracted model against fibre_cache::policy::*",
    "text": "Coq theorems (Props/C14.v): for every call sequence, Lru/Sieve satisfy the full C14 contract (victims tracked, no duplicates, exact recorded costs, tracking ends only via victim/remove/clear, evict frees >= n when possible, re-admission updates cost); Fifo/Clock satisfy it except the re-admission clause, which is refuted on the faithful model (known finding F-19) and replayed on the implementation. LRU/FIFO eviction-order theorems. The hand-written model is tied to the code by running the extracted model and the real policies on the same generated call sequences every run.",
    "design_ref": "DESIGN.md §8 C14, §7 E-POLICY",
    "note": "Trusted: Coq kernel, ExtrOcamlBasic extraction + OCaml driver, the D1 harness/generators. Modelled not verified: arena/HashMap internals (abstracted to ordered lists), u64 overflow.",
}
