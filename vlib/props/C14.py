from .. import flow
from ..engines_policy import PolicyEngine

ENGINES = [PolicyEngine(p) for p in ("lru", "fifo", "sieve", "clock")]
BY = {e.pol: e for e in ENGINES}

ASSUMPTIONS = [
    "LruList's arena/index links/HashMap and Sieve/Clock's HashMap+order pair are modelled as one ordered list; tied by D1 on every run",
    "u64 cost arithmetic modelled on unbounded N (no overflow: costs <= 100, <= 200 calls)",
    "keys are u64 compared by equality; the policy's Mutex makes each trait call atomic (calls are sequential in D1)",
    "Slru, Arc, TinyLfu, Random: see level_note",
]

WITNESS = {
    "F-19-fifo": (BY["fifo"], "policy fifo m 1 1 m 1 50 e 1", "readmit-cost"),
    "F-19-clock": (BY["clock"], "policy clock m 1 1 m 1 50 e 1", "readmit-cost"),
}


def run(tier, seed):
    return flow.standard("C14", tier, seed, ENGINES, ASSUMPTIONS, WITNESS)
