from ..multiprop import make
from ..chan_manifest import BASE

run, MANIFEST = make("C04", BASE["C04"])
