"""Engine `roller` (D1): fibre_logging's CustomRoller through hook H5 in a scratch directory.

case:   <gran> <maxsize|-> <retained|-> <maxuncompressed|-> <prefix> <fsuffix|_> <csuffix|_> <p0> <off0> <foreign|->
        foreign = comma list of files created before the appender starts (file i holds marker record (900+i)/5):
                  t:<p>:<s> "<prefix>_time.<period>.<s><fsuffix>", x:<p>:<s> "<prefix>x.<period>.<s><fsuffix>",
                  d:<p>:<s> "<prefix>.extra.<period>.<s><fsuffix>" (sibling appenders), u "unrelated.dat"
        ( w <period> <off> <id> <len> | r <period> <off> | f )*
output: "<res> <listing>" after start, after every op and after the final drop, joined by " | ";
        listing tokens  A=<recs>  R<p>.<s>=<recs>  Z<p>.<s>=<recs>  F<i>=<recs>  X<raw name>=<recs>;  rec = id/len or ?len

The MONITOR judges property C20 (rolling half) from the implementation's directory listings alone.
"""
import re

from .flow import Engine

HDR = 10
ARITY = {"w": 5, "r": 3, "f": 1}


def opt(s):
    return None if s == "-" else int(s)


def parse_listing(tokens):
    """-> (active content or None, {(p, s): (compressed?, content)}, {i: content of foreign file i}, problems)"""
    active, rolled, foreign, probs = None, {}, {}, []
    for t in tokens:
        name, _, data = t.partition("=")
        recs = []
        for r in (data.split(",") if data else []):
            if r.startswith("?"):
                recs.append(("?", r))
            else:
                i, _, ln = r.partition("/")
                recs.append((int(i), int(ln)))
        if name == "A":
            active = recs
        elif name[:1] == "F" and name[1:].isdigit():
            foreign[int(name[1:])] = recs
        elif name[:1] in "RZ" and "." in name and name[1:].replace(".", "").isdigit():
            p, s = name[1:].split(".")
            k = (int(p), int(s))
            if k in rolled:
                probs.append(("duplicate-sequence", "both %s and its compressed twin exist" % name))
            rolled[k] = (name[0] == "Z", recs)
        else:
            probs.append(("foreign-file", "unexpected directory entry %r" % name))
    return active, rolled, foreign, probs


class RollerEngine(Engine):
    name = "roller"
    exe = "roller"
    model_file = "Log/Roller.v"

    def n_cases(self, tier):
        return 700 if tier == "quick" else 20000

    def corpus(self):
        return [
            # size rolls then a time roll in the same period (the sequence must continue: 1,2,3)
            "minutely 10 - - app .log _ 0 1 - w 0 1 1 12 w 0 1 2 12 w 0 2 3 4 w 1 0 4 12",
            # retention keeps the newest 2
            "never 10 2 - app .log _ 0 0 - w 0 0 1 14 f w 1 0 2 14 f w 2 0 3 14 f w 3 0 4 14 f",
            # compression, custom suffixes, rediscovery of compressed files for the next sequence
            "never 10 - 0 test .txt .gzip 3 1 - w 3 1 1 18 f w 3 1 2 19 f",
            # restart re-opens the active file and sizes it from metadata
            "daily 30 5 1 app .log .gz 0 1 - w 0 1 1 10 w 0 1 2 10 r 0 2 w 0 2 3 10 w 1 0 4 5 r 3 1 w 3 1 5 5 w 4 0 6 31",
            # max_retained = 0: every rolled file is deleted at once; sequence numbers are reused
            "hourly 8 0 - app .log _ 0 0 - w 0 0 1 9 w 0 1 2 9 w 1 0 3 4 w 2 0 4 9",
            # empty write still time-rolls; an empty active file is rolled too
            "daily - 3 - x-1 _ _ 0 0 - w 0 0 1 5 w 1 0 2 0 w 2 0 3 0 w 3 0 4 6 f",
            # BufWriter boundaries
            "never - - - app .log _ 0 0 - w 0 0 1 8191 w 0 0 2 3 w 0 0 3 8192 w 0 0 4 8193 f w 0 0 5 4096 w 0 0 6 4096 w 0 0 7 2",
            # clock going backwards (malformed stream)
            "daily 6 1 - app .log _ 5 0 - w 3 0 1 7 w 3 0 2 7 f",
            "daily 6 - - app .log _ 5 0 - w 3 0 1 7 w 3 0 2 7 w 4 1 3 3 r 2 0 w 2 0 4 8",
            # month / leap-day / year boundaries
            "daily - 5 2 a.b .log .zip 1 2 - w 1 2 1 6 w 2 0 2 6 w 3 0 3 6 w 4 3 4 6 w 308 1 5 6 w 309 0 6 6 w 675 1 7 6 f",
            "minutely - - - app_time .log _ 9 2 - w 9 2 1 6 w 10 0 2 6 w 10 3 3 6 w 69 2 4 6 w 70 0 5 6 f",
            # regression cases of the repaired name parsing (fixed: F-roller-dotted-sibling, F-roller-dated-prefix)
            "daily 5 1 - app .log _ 7 1 d:3:1 w 7 1 1 6 w 7 1 2 7 f",
            "never 10 - - app.2024-01-01.7 .log _ 0 0 - w 0 0 1 12 w 0 0 2 12 f",
            # sibling appenders sharing the prefix / unrelated files: never counted, renumbered, compressed or deleted
            # (F-roller-prefix, fixed in /repo 95e064e: retention used to delete them)
            "daily 5 1 - app .log _ 7 1 t:3:1 w 7 1 1 6 w 7 1 2 7 f",
            "daily 5 1 0 app .log .gz 7 1 t:30:1,x:2:4,u w 7 1 1 6 w 7 1 2 7 w 8 0 3 6 f",
            "never 5 2 1 app .txt .zip 0 0 t:0:9,x:400:1 w 0 0 1 6 w 1 0 2 7 w 2 0 3 6 r 3 0 w 3 0 4 6 f",
        ]

    # ------------------------------------------------------------------ generator
    def gen(self, rng, tier):
        gran = rng.weighted([("never", 2), ("daily", 3), ("hourly", 3), ("minutely", 3)])
        big = rng.chance(1, 25)
        base = rng.pick([4, 5, 6, 8, 12])
        ms = rng.weighted([("none", 2), ("tiny", 5), ("medium", 3), ("edge", 1)])
        if ms == "none":
            maxsize = None
        elif ms == "tiny":
            maxsize = base * rng.pick([1, 2, 3]) + rng.pick([-1, 0, 0, 1])
        elif ms == "medium":
            maxsize = base * rng.pick([5, 8, 10]) + rng.pick([-1, 0, 1])
        else:
            maxsize = rng.pick([0, 1, 2])
        if big:
            maxsize = rng.pick([None, 9000, 16384, 8192])
        retained = rng.pick([None, None, 0, 1, 1, 2, 2, 5])
        comp = rng.pick([None, None, 0, 1, 2, 3])
        prefix = rng.pick(["app", "app", "a.b", "x-1", "app_time"])
        fsuf = rng.pick([".log", ".log", ".txt", "_"])
        csuf = rng.pick([".gz", ".gz", ".gzip", ".zip"]) if comp is not None else "_"
        backwards = rng.chance(1, 8)
        p = rng.pick([0, 0, 1, 3, 22, 57, 58, 305, 364])
        foreign = "-"
        if rng.chance(1, 3):
            fl = []
            for _ in range(rng.pick([1, 1, 2, 3])):
                kind = rng.weighted([("t", 5), ("x", 3), ("u", 1)])
                if kind == "u":
                    if "u" not in fl:
                        fl.append("u")
                    continue
                # older than, equal to, or newer than the periods the roller will use
                fp = rng.pick([max(0, p - 1), max(0, p - rng.pick([2, 5, 30])), p, p + 1, p + rng.pick([2, 40, 400])])
                spec = "%s:%d:%d" % (kind, fp, rng.pick([1, 1, 2, 3, 9]))
                if spec not in fl:
                    fl.append(spec)
            foreign = ",".join(fl)
        toks = [gran, "-" if maxsize is None else str(maxsize), "-" if retained is None else str(retained),
                "-" if comp is None else str(comp), prefix, fsuf, csuf, str(p), str(rng.below(4)), foreign]
        n = rng.pick([1, 2, 3, 5, 8, 12, 20, 30, 45, 60])
        nid = 0
        est = 0
        for _ in range(n):
            mv = rng.weighted([(0, 55), (1, 30), (2, 6), (3, 3)] + ([(4, 10)] if backwards else []))
            if mv == 1:
                p += 1
            elif mv == 2:
                p += rng.pick([2, 3, 7, 24, 30, 60, 365])
            elif mv == 3:
                p += rng.pick([1, 1, 2])
            elif mv == 4:
                p = max(0, p - rng.pick([1, 1, 2, 5]))
            off = rng.below(4)
            kind = rng.weighted([("w", 76), ("z", 4), ("f", 10), ("r", 10)])
            if kind in ("w", "z"):
                nid += 1
                mn = len(str(nid)) + 1
                if kind == "z":
                    ln = 0
                elif big and rng.chance(1, 2):
                    ln = rng.pick([8191, 8192, 8193, 4096, 4097, 5000, 9000])
                elif maxsize is not None and maxsize > mn and rng.chance(1, 3):
                    # aim at the limit: land one below / on / one above it
                    ln = max(mn, maxsize - est + rng.pick([-1, 0, 1]))
                    if ln > 200:
                        ln = base
                else:
                    ln = max(mn, base + rng.pick([-2, -1, 0, 0, 0, 1, 2, 7]))
                if ln:
                    est += ln
                    if maxsize is not None and est >= maxsize:
                        est = 0
                toks += ["w", str(p), str(off), str(nid), str(ln)]
            elif kind == "f":
                toks += ["f"]
            else:
                toks += ["r", str(p), str(off)]
        return " ".join(toks)

    def split(self, line):
        t = line.split()
        hdr, ops, i = t[:HDR], [], HDR
        while i < len(t):
            k = ARITY[t[i]]
            ops.append(t[i:i + k])
            i += k
        return hdr, ops

    def shape(self, line):
        hdr, ops = self.split(line)
        ks = []
        last = int(hdr[7])
        for op in ops:
            if op[0] == "f":
                ks.append("f")
            else:
                p = int(op[1])
                ks.append(op[0] + ("=" if p == last else "+" if p > last else "-") + (op[4] if op[0] == "w" else ""))
                last = p
        fk = "".join(sorted(x[0] for x in hdr[9].split(","))) if hdr[9] != "-" else ""
        return " ".join(hdr[:4]) + "|" + fk + "|" + " ".join(ks)

    def nontrivial(self, line, impl_out):
        return " R" in impl_out or " Z" in impl_out

    # ------------------------------------------------------------------ monitor
    def monitor(self, line, out):
        hdr, ops = self.split(line)
        hits = []

        # a prefix that itself contains ".<date>.<digits>" (finding F-roller-dated-prefix; never generated, only
        # replayed as a witness): the loss/clobber clauses are reported under that finding's own id
        dated = re.search(r"\.\d{4}-\d{2}-\d{2}(_\d{2}-\d{2}-\d{2})?\.\d+", hdr[4]) is not None

        def hit(c, d):
            if dated and c in ("clobber", "lost-record"):
                c, d = "dated-prefix-clobber", c + ": " + d
            if all(c != x for x, _ in hits):
                hits.append((c, d))

        if "DRIVER" in out or "MODEL-ERROR" in out:
            return [("driver", out[:200])]
        never = hdr[0] == "never"
        maxsize, retained, muc = opt(hdr[1]), opt(hdr[2]), opt(hdr[3])
        eff = (lambda p: 0) if never else (lambda p: p)
        times = [int(hdr[7])] + [int(op[1]) for op in ops if op[0] in "wr"]
        mono = all(eff(a) <= eff(b) for a, b in zip(times, times[1:]))
        fspecs = hdr[9].split(",") if hdr[9] != "-" else []
        segs = out.split(" | ")
        if len(segs) != len(ops) + 2 and "PANIC" not in out and not segs[0].startswith("E"):
            hit("bad-output", "expected %d listings, got %d" % (len(ops) + 2, len(segs)))
        stream = []          # records accepted so far (len > 0), in write order
        prev = None          # rolled files of the previous listing
        seen = {}            # (p, s) -> content, for every rolled file ever observed
        for idx, seg in enumerate(segs):
            toks = seg.split(" ")
            res = toks[0]
            where = "after start" if idx == 0 else ("after final drop" if idx == len(ops) + 1 else
                                                   "after op %d (%s)" % (idx, " ".join(ops[idx - 1])))
            if res == "PANIC":
                hit("panic", "panicked " + where)
                break
            op = ops[idx - 1] if 1 <= idx <= len(ops) else None
            if res.startswith("E"):
                hit("io-error", "operation failed " + where)
                if idx == 0:
                    break
            if res.startswith("ok*"):
                hit("partial-write", "one record needed several write calls " + where)
            if op and op[0] == "w" and int(op[4]) > 0 and res.startswith("ok"):
                stream.append((int(op[3]), int(op[4])))
            active, rolled, foreign, probs = parse_listing([t for t in toks[1:] if t])
            # -- files of other appenders / unrelated files are never deleted, renamed, compressed or changed
            for i, spec in enumerate(fspecs):
                if foreign.get(i) != [(900 + i, 5)]:
                    what = "is gone (deleted, renamed or compressed)" if i not in foreign else "changed content"
                    hit("dotted-sibling-touched" if spec[0] == "d" else "foreign-file-touched",
                        "foreign file %d (%s) %s %s" % (i, spec, what, where))
            for c, d in probs:
                hit(c, d + " " + where)
            if active is None:
                hit("active-missing", "no active file " + where)
                active = []
            order = sorted(rolled)
            files = [(("R", k), rolled[k][1]) for k in order] + [(("A", None), active)]
            visible = [r for _, c in files for r in c]
            # -- no tear: every file is a sequence of whole records
            if any(r[0] == "?" for r in visible):
                hit("torn-record", "a file holds a fragment of a record " + where)
                visible = [r for r in visible if r[0] != "?"]
            # -- no duplication / corruption
            ids = [r[0] for r in visible]
            if len(set(ids)) != len(ids):
                hit("duplicate-record", "a record is on disk twice " + where)
            pos = {r: i for i, r in enumerate(stream)}
            if any(r not in pos for r in visible):
                hit("corrupt-record", "a record on disk was never written (or has another length) " + where)
            else:
                ps = [pos[r] for r in visible]
                flushed = (op is not None and op[0] in "fr") or idx == len(ops) + 1
                # -- no reorder / no loss: files in (period, seq) order, then the active file, must be a
                #    contiguous run of the written stream (its tail once flushed; all of it when retention
                #    is unlimited).  When the case's clock goes backwards these order-based clauses are
                #    reported under their own id (finding F-roller-clock); the clock-independent
                #    clauses below keep their names.
                pre = "" if mono else "backward-clock-order:"

                def ohit(c, d):
                    hit(c if mono else "backward-clock-order", pre + d)

                if any(b <= a for a, b in zip(ps, ps[1:])):
                    if len(set(ps)) == len(ps):
                        ohit("reordered", "records are out of write order across files " + where)
                elif any(b != a + 1 for a, b in zip(ps, ps[1:])):
                    ohit("lost-record", "a record is missing between retained records " + where)
                elif retained is None and ps and ps[0] != 0:
                    hit("lost-record", "the oldest records are gone although retention is unlimited " + where)
                elif retained is None and not ps and stream and flushed:
                    hit("lost-record", "nothing on disk " + where)
                # (with limited retention the disk may legitimately hold nothing: max_retained = 0, or
                #  empty files rolled by time rolls pushed the data out)
                if flushed and ps and max(ps) != len(stream) - 1:
                    ohit("lost-record", "the newest record is not on disk after a flush/close " + where)
                if retained is None and flushed and set(ps) != set(range(len(stream))):
                    hit("lost-record", "records missing although retention is unlimited " + where)
            # -- retention
            if retained is not None and len(rolled) > retained:
                hit("retention-exceeded", "%d rolled files, max_retained=%d %s" % (len(rolled), retained, where))
            if prev is not None:
                vanished = [k for k in prev if k not in rolled]
                if vanished:
                    if retained is None:
                        hit("rolled-file-vanished", "%r disappeared although retention is unlimited %s" % (vanished, where))
                    else:
                        if rolled and max(vanished) > min(rolled):
                            hit("retention-not-newest", "deleted %r while older %r is kept %s" % (max(vanished), min(rolled), where))
                        if len(rolled) < retained:
                            hit("over-deleted", "deleted %r leaving only %d of %d allowed %s" % (vanished, len(rolled), retained, where))
                # -- never clobbers: a rolled file's content is immutable
                for k in rolled:
                    if k in prev and prev[k][1] != rolled[k][1]:
                        hit("clobber", "rolled file %r changed content %s" % (k, where))
            for k in rolled:
                if k in seen and seen[k] != rolled[k][1]:
                    hit("clobber", "rolled file name %r re-used with different content %s" % (k, where))
                seen[k] = rolled[k][1]
            # -- compression: only the newest max_uncompressed rolled files stay uncompressed
            zs = [k for k in rolled if rolled[k][0]]
            rs = [k for k in rolled if not rolled[k][0]]
            if muc is None:
                if zs:
                    hit("unexpected-compressed", "compressed file without compression policy " + where)
            else:
                if len(rs) > muc or (rs and zs and min(rs) < max(zs)):
                    hit("compress-policy", "uncompressed %r vs compressed %r, max_uncompressed=%d %s" % (sorted(rs), sorted(zs), muc, where))
            # -- size rule: the active file is rolled as soon as it reaches the limit, never earlier
            if maxsize is not None:
                asz = sum(r[1] for r in active if r[0] != "?")
                if asz != 0 and asz >= maxsize:
                    hit("active-over-limit", "active file holds %d bytes, limit %d %s" % (asz, maxsize, where))
                for k in rolled:
                    c = [r for r in rolled[k][1] if r[0] != "?"]
                    b = sum(r[1] for r in c[:-1])
                    if b != 0 and b >= maxsize:
                        hit("rolled-late", "rolled file %r had reached the limit before its last record %s" % (k, where))
            prev = rolled
        return hits
