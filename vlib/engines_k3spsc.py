"""K3 SPSC engine: atomic-step, all-interleavings model of the bounded SPSC channel's synchronous
API (coq/Chan/SpscK3.v, theorems in coq/Proofs/SpscK3*.v, pinned in coq/Props/C0x_k3spsc.v) and
its tie to the real code:

  D2  pass 1: harness/sched/src/bin/k3spsc.rs (a front end over `scen`) runs a generated scenario
      program on the REAL channel under the deterministic scheduler and prints the atomic event
      trace plus the API results; pass 2 (flow's `model_input` hook): the extracted model
      (`modelrun_k3spsc`, ocaml/eng_k3spsc.ml over Conc.replay) must accept that trace event by
      event -- same variable, operation, Ordering, values read/written -- and reproduce the API
      results.  `S` cases are monitor-only schedule searches (scen's FAIL lines = concrete
      violations).
  D3  `K` cases: for every modelled Rust function, the ordered facade operations
      (variable, op, Ordering) extracted here from the CURRENT source text, versus the table the
      model driver derives from the Coq step function.  Catches what an SC replay cannot
      (a weakened Ordering, a removed fence)."""
import os
import re

from . import common as C
from .flow import Engine

CAPS = [1, 2, 3, 4, 5, 8]

# ---------------------------------------------------------------------------------- D3 extractor
ORD = {"Relaxed": "Rlx", "Acquire": "Acq", "Release": "Rel", "AcqRel": "AcqRel", "SeqCst": "SeqCst"}
OPK = {"load": "load", "store": "store", "swap": "swap", "fetch_sub": "fsub", "fetch_add": "fadd",
       "compare_exchange": "cas", "compare_exchange_weak": "casw"}
CALLS = ("push|pop|notify_receivers|notify_senders|register|unregister|pre_park_fence|wake_one|senders_alive|"
         "drop_sender|drop_receiver|close_internal|park_thread|wake")
TOKEN_RE = re.compile(
    r"(?P<atom>(?P<var>\w+)\s*\)?\s*\.\s*(?P<op>load|store|swap|fetch_sub|fetch_add|compare_exchange_weak|compare_exchange)\s*\()"
    r"|(?P<lock>(?P<lvar>\w+)\s*\.\s*lock\s*\(\s*\))"
    r"|(?P<fence>\bfence\s*\(\s*Ordering::(?P<ford>\w+)\s*\))"
    r"|(?P<spin>hint::spin_loop\s*\(\s*\))"
    r"|(?P<unpark>\.\s*unpark\s*\(\s*\))"
    r"|(?P<park>thread::park\s*\(\s*\))"
    r"|(?P<call>(?<![\w])(?<!fn )(?P<cname>" + CALLS + r")\s*\()")

# modelled functions: id -> (file relative to /repo, impl type or None, fn name)
FUNCS = [
    ("shared.rs::Ring::push", "channels/src/spsc/shared.rs", "Ring", "push"),
    ("shared.rs::Ring::pop", "channels/src/spsc/shared.rs", "Ring", "pop"),
    ("shared.rs::Ring::drop", "channels/src/spsc/shared.rs", "Ring", "drop"),
    ("shared.rs::SpscShared::senders_alive", "channels/src/spsc/shared.rs", "SpscShared", "senders_alive"),
    ("shared.rs::SpscShared::register", "channels/src/spsc/shared.rs", "SpscShared", "register"),
    ("shared.rs::SpscShared::unregister", "channels/src/spsc/shared.rs", "SpscShared", "unregister"),
    ("shared.rs::SpscShared::wake_one", "channels/src/spsc/shared.rs", "SpscShared", "wake_one"),
    ("shared.rs::SpscShared::notify_receivers", "channels/src/spsc/shared.rs", "SpscShared", "notify_receivers"),
    ("shared.rs::SpscShared::notify_senders", "channels/src/spsc/shared.rs", "SpscShared", "notify_senders"),
    ("shared.rs::SpscShared::pre_park_fence", "channels/src/spsc/shared.rs", "SpscShared", "pre_park_fence"),
    ("shared.rs::SpscShared::drop_sender", "channels/src/spsc/shared.rs", "SpscShared", "drop_sender"),
    ("shared.rs::SpscShared::drop_receiver", "channels/src/spsc/shared.rs", "SpscShared", "drop_receiver"),
    ("shared.rs::WakeRef::wake", "channels/src/spsc/shared.rs", "WakeRef", "wake"),
    ("bounded_sync.rs::BoundedSyncSender::close_internal", "channels/src/spsc/bounded_sync.rs", "BoundedSyncSender", "close_internal"),
    ("bounded_sync.rs::BoundedSyncSender::try_send", "channels/src/spsc/bounded_sync.rs", "BoundedSyncSender", "try_send"),
    ("bounded_sync.rs::BoundedSyncSender::send", "channels/src/spsc/bounded_sync.rs", "BoundedSyncSender", "send"),
    ("bounded_sync.rs::BoundedSyncSender::drop", "channels/src/spsc/bounded_sync.rs", "BoundedSyncSender", "drop"),
    ("bounded_sync.rs::BoundedSyncReceiver::close_internal", "channels/src/spsc/bounded_sync.rs", "BoundedSyncReceiver", "close_internal"),
    ("bounded_sync.rs::BoundedSyncReceiver::try_recv", "channels/src/spsc/bounded_sync.rs", "BoundedSyncReceiver", "try_recv"),
    ("bounded_sync.rs::BoundedSyncReceiver::recv", "channels/src/spsc/bounded_sync.rs", "BoundedSyncReceiver", "recv"),
    ("bounded_sync.rs::BoundedSyncReceiver::drop", "channels/src/spsc/bounded_sync.rs", "BoundedSyncReceiver", "drop"),
    ("sync_util.rs::park_thread", "channels/src/sync_util.rs", None, "park_thread"),
]


def _strip(src):
    """drop comments and string literals, cut the #[cfg(test)] module"""
    m = re.search(r"#\[cfg\(test\)\]", src)
    if m:
        src = src[:m.start()]
    out, i, n = [], 0, len(src)
    while i < n:
        if src.startswith("//", i):
            j = src.find("\n", i)
            i = n if j < 0 else j
        elif src.startswith("/*", i):
            j = src.find("*/", i + 2)
            i = n if j < 0 else j + 2
        elif src[i] == '"':
            j = i + 1
            while j < n and src[j] != '"':
                j += 2 if src[j] == "\\" else 1
            out.append('""')
            i = j + 1
        else:
            out.append(src[i])
            i += 1
    return "".join(out)


def _block_end(src, i):
    """src[i] == '{' -> index of the matching '}'"""
    d = 0
    for j in range(i, len(src)):
        if src[j] == "{":
            d += 1
        elif src[j] == "}":
            d -= 1
            if d == 0:
                return j
    return len(src) - 1


def _paren_end(src, i):
    d = 0
    for j in range(i, len(src)):
        if src[j] == "(":
            d += 1
        elif src[j] == ")":
            d -= 1
            if d == 0:
                return j
    return len(src) - 1


def _fn_bodies(src):
    """-> {(impl type or None, fn name): body text} for top-level fns and fns inside impl blocks"""
    bodies = {}
    impls = []
    for m in re.finditer(r"\bimpl\b([^{;]*)\{", src):
        head = m.group(1)
        if " for " in head:
            head = head.split(" for ", 1)[1]
        head = re.sub(r"\bwhere\b.*", "", head, flags=re.S)
        tm = re.search(r"(\w+)\s*(<[^{]*)?\s*$", head.strip())
        ty = tm.group(1) if tm else "?"
        st = m.end() - 1
        impls.append((ty, st, _block_end(src, st)))
    for fm in re.finditer(r"\bfn\s+(\w+)", src):
        j = fm.end()
        dp = 0
        while j < len(src):
            c = src[j]
            if c == "(":
                dp += 1
            elif c == ")":
                dp -= 1
            elif c == ";" and dp == 0:
                j = -1
                break
            elif c == "{" and dp == 0:
                break
            j += 1
        if j < 0 or j >= len(src):
            continue
        en = _block_end(src, j)
        owner = None
        for ty, st, e in impls:
            if st < fm.start() < e:
                owner = ty
        bodies.setdefault((owner, fm.group(1)), src[j:en + 1])
    return bodies


def _rows(body):
    rows = []
    for m in TOKEN_RE.finditer(body):
        if m.group("atom"):
            par = m.end() - 1
            args = body[par:_paren_end(body, par) + 1]
            om = re.search(r"Ordering::(\w+)", args)
            rows.append("%s.%s.%s" % (m.group("var"), OPK[m.group("op")], ORD.get(om.group(1), om.group(1)) if om else "?"))
        elif m.group("lock"):
            rows.append("%s.lock.-" % m.group("lvar"))
        elif m.group("fence"):
            rows.append("-.fence.%s" % ORD.get(m.group("ford"), m.group("ford")))
        elif m.group("spin"):
            rows.append("-.spin.-")
        elif m.group("unpark"):
            rows.append("-.unpark.-")
        elif m.group("park"):
            rows.append("-.park.-")
        elif m.group("call"):
            rows.append("call." + m.group("cname"))
    return rows


_src_cache = {}


def source_skeleton():
    """-> [(function id, [rows])] extracted from the current source text under C.REPO"""
    out = []
    for fid, rel, ty, fn in FUNCS:
        path = os.path.join(C.REPO, rel)
        if path not in _src_cache:
            try:
                _src_cache[path] = _fn_bodies(_strip(open(path).read()))
            except OSError:
                _src_cache[path] = None
        bodies = _src_cache[path]
        if bodies is None:
            out.append((fid, ["<missing-file>"]))
        elif (ty, fn) not in bodies:
            out.append((fid, ["<missing-fn>"]))
        else:
            out.append((fid, _rows(bodies[(ty, fn)]) or ["<no-facade-ops>"]))
    return out


# ---------------------------------------------------------------------------------- the engine
class K3SpscEngine(Engine):
    name = "k3spsc"
    crate = "sched"
    exe = "k3spsc"
    per_shard = 8
    model_file = "Chan/SpscK3.v"

    def n_cases(self, tier):
        return 330 if tier == "quick" else 12000

    # ---- generation: T = one traced schedule (replayed by the model), S = monitor-only search
    def corpus(self):
        ks = ["K %s %s" % (fid, " ".join(rows)) for fid, rows in source_skeleton()]
        fixed = [
            "T 1 11 pct | P: s s s | C: r r r",            # park / wake in both directions, wrap (phys 2)
            "T 1 12 pct | P: s s s s | C: r D",
            "T 3 13 pct | P: ts ts ts ts s s | C: tr r r D",  # non-power-of-two capacity, Full
            "T 2 14 rand | P: s s s | C: r",                # receiver drops first: Closed, Ring::drop residue
            "T 2 15 pct | P: s | C: r r r",                 # sender drops: Disconnected
            "T 5 16 rand | P: ts ts | C:",                  # consumer drops immediately
            "T 8 17 pct | P: | C: tr r D",                  # producer drops immediately
            "S 1 21 60 | P: s s s s | C: r r D",
            "S 2 22 60 | P: s ts s s s | C: tr r r D",
        ]
        return ks + fixed

    def gen(self, rng, tier):
        cap = rng.pick(CAPS)
        np = 1 + rng.below(6)
        nc = rng.below(7)
        pops = [rng.weighted([("s", 6), ("ts", 3)]) for _ in range(np)]
        cops = [rng.weighted([("r", 5), ("tr", 3)]) for _ in range(nc)]
        if rng.chance(1, 2):
            cops.append("D")
        seed = 1 + rng.below(1 << 30)
        if rng.chance(1, 8):
            return "S %d %d %d | P: %s | C: %s" % (cap, seed, 12 if tier == "quick" else 60, " ".join(pops), " ".join(cops))
        return "T %d %d %s | P: %s | C: %s" % (cap, seed, rng.weighted([("pct", 3), ("rand", 2)]), " ".join(pops), " ".join(cops))

    # ---- two-pass plumbing
    def model_input(self, line, impl_out):
        kind = line.split(None, 1)[0]
        if kind == "T":
            _STATS["park_events"] += impl_out.count(",park,")
            _STATS["unpark_events"] += impl_out.count(",unpark,")
            _STATS["failed_lock_events"] += len(re.findall(r",lock,\S+,-,0,0,0(?: |$)", impl_out))
            return impl_out.split(" ;; ", 1)[1] if " ;; " in impl_out else "0 P C RP RC T"
        if kind == "S":
            return "S"
        return line

    def canon(self, out):
        if " ;; " in out:            # implementation side of a T case: verdict ;; model case
            return out.split(" ;; ", 1)[0]
        if out.startswith("search ok"):
            return "search ok"
        return out

    # ---- shrinking: ops are the thread programs; the header keeps kind/cap/seed/policy
    def split(self, line):
        if line.startswith("K "):
            return [line], []
        parts = [p.strip() for p in line.split("|")]
        ops = []
        for p in parts[1:]:
            toks = p.split()
            for t in toks[1:]:
                ops.append([toks[0][0] + t])
        return [parts[0]], ops

    def join(self, header, ops):
        if header[0].startswith("K "):
            return header[0]
        p = [o[0][1:] for o in ops if o[0][0] == "P"]
        c = [o[0][1:] for o in ops if o[0][0] == "C"]
        return "%s | P: %s | C: %s" % (header[0], " ".join(p), " ".join(c))

    def shape(self, line):
        h, ops = self.split(line)
        t = h[0].split()
        return " ".join(t[:2]) + "|" + " ".join(o[0] for o in ops)

    def nontrivial(self, line, out):
        return line[0] in "TS" and len(self.split(line)[1]) >= 2

    # ---- property monitors: scen's judgement of the real run (clause ids already prefixed)
    def monitor(self, line, out):
        kind = line.split(None, 1)[0]
        if kind == "T" and out.startswith("ok "):
            _STATS["traces"] += 1
            _STATS["schedules"] += 1
            _STATS["events"] += int(out.split()[1])
        elif kind == "S" and out.startswith("search ok"):
            _STATS["schedules"] += int(line.split()[3])
        elif kind == "K":
            _STATS["skeleton_functions"] += 1
        if out.startswith("FAIL "):
            return [(out.split()[1], out[5:400])]
        if out.startswith("DRIVER"):
            return [("C05:harness", out[:300])]
        return []


ENGINE = K3SpscEngine()

# evidence keys of the D2/D3 tie.  flow.py has no per-engine evidence hook yet, so the counters
# collected by the monitor are merged into the coverage record just before it is written.
_STATS = {"traces": 0, "events": 0, "schedules": 0, "skeleton_functions": 0,
          "park_events": 0, "unpark_events": 0, "failed_lock_events": 0}


def _install_evidence_hook():
    from . import flow
    if getattr(flow.Run, "_k3spsc_evidence", False):
        return
    orig = flow.Run.finish

    def finish(self):
        eng = self.cov.get("engines", {}).get(ENGINE.name)
        if eng is not None:
            ok_traces = max(0, _STATS["traces"] - eng.get("mismatches", 0))
            self.cov["traces_validated_against_impl"] = self.cov.get("traces_validated_against_impl", 0) + ok_traces
            eng.update({"traces_replayed_by_model": _STATS["traces"], "events_replayed": _STATS["events"],
                        "schedules_explored": _STATS["schedules"],
                        "skeleton_functions_compared": _STATS["skeleton_functions"],
                        "park_events_in_traces": _STATS["park_events"], "unpark_events_in_traces": _STATS["unpark_events"],
                        "failed_lock_events_in_traces": _STATS["failed_lock_events"]})
            self.cov["events_replayed"] = self.cov.get("events_replayed", 0) + _STATS["events"]
            self.cov["schedules_explored"] = self.cov.get("schedules_explored", 0) + _STATS["schedules"]
        return orig(self)

    flow.Run.finish = finish
    flow.Run._k3spsc_evidence = True


_install_evidence_hook()

_INFO = {"name": "E-RING + E-SPSCW (k3spsc)",
         "path": "coq/Chan/SpscK3.v, coq/Proofs/SpscK3Proofs.v, coq/Proofs/SpscK3Values.v, coq/Props/C0x_k3spsc.v, "
                 "ocaml/eng_k3spsc.ml, harness/sched/src/bin/k3spsc.rs (+scen.rs), vlib/engines_k3spsc.py",
         "kind": "K3 atomic-step model of spsc::bounded_sync (Ring push/pop with cached indices, waiter cells, "
                 "register/fence/re-check/park vs publish/fence/gate/wake_one, handle drops, Ring::drop); invariants proved for "
                 "ALL capacities, programs and schedules; D2 trace refinement of real scheduler-controlled executions + D3 "
                 "source skeleton vs the model's step table"}
_ASSUME = [
    "K3 model semantics is sequentially consistent; the source's Orderings are carried as data and compared by D2 (per event) and D3 (per function row), not given a weak-memory semantics",
    "usize indices modelled as unbounded N (fewer than 2^64 sends per channel); mask = mod phys with phys >= cap arbitrary (the code's next_power_of_two(cap).max(2) is an instance: C03_k3spsc_real_phys)",
    "payload cells (UnsafeCell<MaybeUninit<T>>) are not traced: the model places the write / read as its own interleavable step between the index check and the index store",
    "spin budgets (adaptive THREAD_SPIN_LIMIT) are a nondeterministic choice; park = std one-token semantics, spurious return allowed by choice",
    "sync API only: send/try_send/recv/try_recv/Drop; recv_timeout, batches, close(), async handles and sync<->async conversion are outside this engine (K2 engine `spsc` covers them sequentially)",
    "the Arc<SpscShared> reference-count decrement is untraced; the model attaches it to the last traced event of the handle drop (exact under the baton scheduler)",
]

PROPS = {
    "C01": {"engines": [ENGINE], "assumptions": _ASSUME, "engine_info": _INFO,
            "covers": "K3 spsc::bounded_sync, all schedules: conservation over API results (received + in hand + dropped + in ring = Ok-sent + in flight), NoDup, failed try_send/send never entered the ring, final accounting after teardown"},
    "C02": {"engines": [ENGINE], "assumptions": _ASSUME, "engine_info": _INFO,
            "covers": "K3 spsc::bounded_sync, all schedules: consumer's sequence ++ teardown drops ++ ring contents = producer's write order, incl. wrap-around and non-power-of-two capacity (mod phys)"},
    "C03": {"engines": [ENGINE], "assumptions": _ASSUME, "engine_info": _INFO,
            "covers": "K3 spsc::bounded_sync, all schedules: tail - head <= logical cap in every reachable state; push reports Err only when exactly cap payloads were buffered at the refresh read"},
    "C05": {"engines": [ENGINE], "assumptions": _ASSUME, "engine_info": _INFO,
            "covers": "K3 spsc::bounded_sync, all schedules: no lost wakeup (quiescent => parked consumer sees empty ring and live sender, parked producer sees full ring and live receiver), hence deadlock freedom; notified-pointer store targets a live registered frame (partial: no fairness/eventually)"},
    "C09": {"engines": [ENGINE], "assumptions": _ASSUME, "engine_info": _INFO,
            "covers": "K3 spsc::bounded_sync, all schedules: slot ownership (window cells hold exactly the written payloads, all others empty, no read of an empty / overwrite of a live cell), Ring::drop drains exactly the residue"},
}
