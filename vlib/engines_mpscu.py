"""E-CHANOPS-mpscu: D1 engine for fibre::mpsc::unbounded / unbounded_async (K2 op-level model
coq/Chan/MpscU.v).  Generator, shrinker split and the property MONITOR for C01/C02/C04/C06/C09
(judges the implementation's outputs alone)."""
import os
from .flow import Engine
from .engines_mpscb import Mon, parse_ids, FIX_CLONE

# model switch: bit1 = F-M1 repaired (clone of a closed sender is closed).  0 = the code as it is.
FIXFLAGS = int(os.environ.get("VERIF_MPSC_FIXFLAGS", "3")) & 2

ARITY = {"ts": 3, "sd": 3, "tr": 2, "rc": 2, "rt": 2, "cl": 2, "dr": 2, "cn": 3, "tos": 2, "toa": 2,
         "ln": 2, "ie": 2, "ic": 2, "sc": 2, "ms": 4, "mr": 3, "pl": 3, "df": 2, "pn": 3,
         "trb": 3, "rcb": 3, "mrb": 4}
VAR = {"tsb": 2, "tsm": 2, "sdb": 2, "sdm": 2, "msb": 3}

SLAB = 128        # internal/slab_chain.rs SLAB_NODES
POOL = 8          # SLAB_POOL_CAP


def split_ops(toks):
    ops, i = [], 0
    while i < len(toks):
        t = toks[i]
        k = ARITY[t] if t in ARITY else VAR[t] + 1 + int(toks[i + VAR[t]])
        ops.append(toks[i:i + k])
        i += k
    return ops


class Sim:
    """generator-side bookkeeping: which handles/futures exist, what would block"""

    def __init__(self, flavor):
        a = flavor == "a"
        self.n, self.sc, self.rdrop = 0, 1, False
        self.H = {0: dict(tx=True, a=a, closed=False), 1: dict(tx=False, a=a, closed=False)}
        self.F = {}
        self.next = 1

    def ids(self, k):
        r = list(range(self.next, self.next + k))
        self.next += k
        return r

    def futs_on(self, h):
        return any(f["h"] == h for f in self.F.values())

    def free(self, h):
        return h in self.H and not self.futs_on(h)

    def close(self, h):
        r = self.H[h]
        if r["closed"]:
            return
        r["closed"] = True
        if r["tx"]:
            self.sc -= 1
        else:
            self.rdrop = True
            self.n = 0

    def apply(self, op):
        t = op[0]
        H, F = self.H, self.F
        if t in ("ts", "sd", "tsb", "tsm", "sdb", "sdm"):
            h = int(op[1])
            if not self.free(h) or not H[h]["tx"] or H[h]["closed"] or self.rdrop:
                return
            if t in ("sd", "sdb", "sdm") and H[h]["a"]:
                return
            self.n += 1 if t in ("ts", "sd") else int(op[2])
        elif t in ("tr", "rc", "rt", "trb", "rcb"):
            h = int(op[1])
            if not self.free(h) or H[h]["tx"] or H[h]["closed"]:
                return
            if t in ("rc", "rt", "rcb") and H[h]["a"]:
                return
            self.n -= min(self.n, 1 if t in ("tr", "rc", "rt") else int(op[2]))
        elif t == "cl":
            if self.free(int(op[1])):
                self.close(int(op[1]))
        elif t == "dr":
            h = int(op[1])
            if self.free(h):
                self.close(h)
                del H[h]
        elif t == "cn":
            h, h2 = int(op[1]), int(op[2])
            if self.free(h) and H[h]["tx"] and h2 not in H:
                cl = FIX_CLONE and H[h]["closed"]
                H[h2] = dict(tx=True, a=H[h]["a"], closed=cl)
                if not cl:
                    self.sc += 1
        elif t in ("tos", "toa"):
            h = int(op[1])
            if self.free(h) and H[h]["a"] == (t == "tos"):
                H[h]["a"] = t == "toa"
        elif t in ("ms", "msb"):
            f, h = int(op[1]), int(op[2])
            if self.free(h) and H[h]["tx"] and H[h]["a"] and f not in F:
                F[f] = dict(h=h, send=True, k=(1 if t == "ms" else int(op[3])), done=False)
        elif t in ("mr", "mrb"):
            f, h = int(op[1]), int(op[2])
            if self.free(h) and not H[h]["tx"] and H[h]["a"] and f not in F:
                F[f] = dict(h=h, send=False, max=(1 if t == "mr" else int(op[3])), done=False)
        elif t == "pl":
            fr = F.get(int(op[1]))
            if not fr:
                return
            r = H[fr["h"]]
            if fr["send"]:
                if not fr["done"] and not r["closed"] and not self.rdrop:
                    self.n += fr["k"]
                fr["done"] = True
            else:
                if r["closed"]:
                    fr["done"] = True
                    return
                got = min(self.n, fr["max"])
                self.n -= got
                fr["done"] = bool(got) or self.sc == 0 or fr["max"] == 0
        elif t == "df":
            F.pop(int(op[1]), None)
        elif t == "pn":
            h = int(op[1])
            if self.free(h) and not H[h]["tx"] and H[h]["a"] and not H[h]["closed"] and self.n:
                self.n -= 1


class MpscuEngine(Engine):
    name = "mpscu"
    exe = "mpscu"
    model_file = "Chan/MpscU.v"

    def n_cases(self, tier):
        return 1000 if tier == "quick" else 60000

    def split(self, line):
        t = line.split()
        return t[:2], split_ops(t[2:])

    def nontrivial(self, line, out):
        return len(self.split(line)[1]) >= 3

    def corpus(self):
        f = str(FIXFLAGS)
        return [
            "s %s cl 0 tr 1 cn 0 2 ts 2 1 tr 1 dr 0 dr 2 dr 1" % f,                       # clone after close
            "s %s ts 0 1 ts 0 2 cl 1 tr 1 rt 1 ic 1 ic 0 ts 0 3 sd 0 4 dr 0 dr 1" % f,    # receiver close drains
            "a %s mr 0 1 pl 0 0 ts 0 1 pl 0 0 pl 0 1 cl 0 pl 0 1 df 0 dr 0 dr 1" % f,     # wake on send, wake on last close
            "a %s ms 0 0 1 pl 0 0 pl 0 0 df 0 msb 1 0 3 2 3 4 cl 1 pl 1 0 df 1 dr 0 dr 1" % f,  # re-poll panics; closed hands back
            "a %s pn 1 0 cn 0 2 ts 2 1 pn 1 0 dr 2 dr 0 pn 1 1 dr 1" % f,
            "s %s tsb 0 3 1 2 3 sdb 0 2 4 5 tsm 0 2 6 7 sdm 0 0 trb 1 4 rcb 1 9 cl 0 trb 1 1 rcb 1 1 dr 0 dr 1" % f,
        ]

    def gen(self, rng, tier):
        flavor = rng.pick(["s", "a", "a"])
        sim = Sim(flavor)
        toks = [flavor, str(FIXFLAGS)]
        if rng.chance(3, 100):
            self._long_run(rng, sim, toks)
        else:
            n = rng.pick([3, 6, 10, 16, 25, 40, 60, 90])
            malformed = rng.chance(1, 10)
            for _ in range(n):
                op = self._pick(rng, sim, malformed)
                if op:
                    toks += op
                    sim.apply(op)
        if rng.chance(4, 5):
            fs = list(sim.F)
            while fs:
                op = ["df", str(fs.pop(rng.below(len(fs))))]
                toks += op
                sim.apply(op)
            hs = list(sim.H)
            while hs:
                op = ["dr", str(hs.pop(rng.below(len(hs))))]
                toks += op
                sim.apply(op)
        return " ".join(toks)

    def _long_run(self, rng, sim, toks):
        """>= 3 slab boundaries per producer and slab recycling through the pool (cap 8): two producers,
        one of them closed mid-slab (seal of a partial slab), deep and shallow queue phases"""
        def emit(op):
            toks.extend(op)
            sim.apply(op)
        emit(["cn", "0", "2"])
        total = SLAB * (4 + rng.below(3)) + rng.below(SLAB)
        sent = 0
        deep = rng.chance(1, 2)
        while sent < total:
            h = "0" if rng.chance(2, 3) else "2"
            if rng.chance(1, 4):
                k = 1 + rng.below(40)
                emit(["tsb", h, str(k)] + [str(x) for x in sim.ids(k)])
                sent += k
            else:
                emit(["ts", h, str(sim.ids(1)[0])])
                sent += 1
            if rng.chance(1, 3 if deep else 1) or sim.n > SLAB * (POOL + 2):
                if rng.chance(1, 4):
                    emit(["trb", "1", str(1 + rng.below(300))])
                else:
                    emit(["tr", "1"])
            if sent == total // 2:
                emit(["dr", "2"])
                emit(["cn", "0", "2"])
        emit(["trb", "1", str(sim.n + 1)])
        emit(["trb", "1", "5"])

    def _pick(self, rng, sim, malformed):
        H, F = sim.H, sim.F
        txs = [h for h, r in H.items() if r["tx"] and sim.free(h)]
        rxs = [h for h, r in H.items() if not r["tx"] and sim.free(h)]
        kind = rng.weighted([("send", 30), ("recv", 30), ("life", 12), ("obs", 6), ("fut", 30)])
        if malformed and rng.chance(1, 4):
            return rng.pick([["ts", str(rng.below(8)), str(max(1, sim.next - 1))], ["tr", str(rng.below(8))],
                             ["pl", str(rng.below(8)), "0"], ["df", str(rng.below(8))], ["dr", str(rng.below(8))],
                             ["sd", "1", str(sim.ids(1)[0])], ["rc", "0"], ["toa", str(rng.below(8))],
                             ["cn", str(rng.below(8)), str(rng.below(8))], ["mr", str(rng.below(8)), "0"],
                             ["ms", str(rng.below(8)), "1", str(sim.ids(1)[0])], ["pn", str(rng.below(8)), "1"],
                             ["sdb", "0", "1", str(sim.ids(1)[0])], ["cl", str(rng.below(8))]])
        if kind == "send" and txs:
            h = rng.pick(txs)
            r = H[h]
            form = rng.weighted([("ts", 50), ("sd", 15), ("tsb", 15), ("tsm", 6), ("sdb", 8), ("sdm", 4)])
            if r["a"] and form in ("sd", "sdb", "sdm"):
                form = {"sd": "ts", "sdb": "tsb", "sdm": "tsm"}[form]
            if form in ("ts", "sd"):
                return [form, str(h), str(sim.ids(1)[0])]
            k = rng.pick([0, 1, 2, 3, 5, 8, 17])
            return [form, str(h), str(k)] + [str(x) for x in sim.ids(k)]
        if kind == "recv" and rxs:
            h = rxs[0]
            r = H[h]
            form = rng.weighted([("tr", 50), ("rc", 12), ("rt", 12), ("trb", 18), ("rcb", 8)])
            if form in ("rc", "rt", "rcb") and r["a"]:
                form = "tr" if form != "rcb" else "trb"
            if form in ("rc", "rcb") and not (r["closed"] or sim.n > 0 or sim.sc == 0):
                form = "tr" if form == "rc" else "trb"
            if form in ("trb", "rcb"):
                return [form, str(h), str(rng.pick([0, 1, 2, 3, 9, 100]))]
            return [form, str(h)]
        if kind == "life":
            hs = [h for h in H if sim.free(h)]
            if not hs:
                return None
            form = rng.weighted([("cn", 30), ("cl", 20), ("dr", 15), ("conv", 25)])
            if form == "cn" and txs:
                free = [x for x in range(2, 8) if x not in H]
                if free:
                    return ["cn", str(rng.pick(txs)), str(rng.pick(free))]
            if form in ("cl", "dr"):
                h = rng.pick(hs)
                if not H[h]["tx"] and not rng.chance(1, 4):
                    h = rng.pick(txs) if txs else h
                return [form, str(h)]
            h = rng.pick(hs)
            return ["tos" if H[h]["a"] else "toa", str(h)]
        if kind == "obs":
            hs = [h for h in H if sim.free(h)]
            if hs:
                return [rng.pick(["ln", "ln", "ie", "ic", "sc"]), str(rng.pick(hs))]
        if kind == "fut":
            atx = [h for h in txs if H[h]["a"]]
            arx = [h for h in rxs if H[h]["a"]]
            free = [x for x in range(8) if x not in F]
            pend = [f for f, fr in F.items() if not fr["done"]]
            form = rng.weighted([("ms", 18), ("mr", 14), ("pl", 40), ("df", 12), ("msb", 8), ("mrb", 6), ("pn", 6)])
            if form == "ms" and atx and free:
                return ["ms", str(rng.pick(free)), str(rng.pick(atx)), str(sim.ids(1)[0])]
            if form == "msb" and atx and free:
                k = rng.pick([0, 1, 2, 3, 9])
                return ["msb", str(rng.pick(free)), str(rng.pick(atx)), str(k)] + [str(x) for x in sim.ids(k)]
            if form == "mr" and arx and free:
                return ["mr", str(rng.pick(free)), str(arx[0])]
            if form == "mrb" and arx and free:
                return ["mrb", str(rng.pick(free)), str(arx[0]), str(rng.pick([0, 1, 2, 9, 100]))]
            if form == "pn" and arx:
                return ["pn", str(arx[0]), str(rng.below(4))]
            if form == "df" and F:
                return ["df", str(rng.pick(list(F)))]
            if F:
                # completed send futures panic when polled again ("polled after completion"): rarely
                ok = [f for f, fr in F.items() if not (fr["send"] and fr["done"])]
                if not ok and not rng.chance(1, 20):
                    return ["df", str(rng.pick(list(F)))]
                cand = pend if pend and rng.chance(9, 10) else (ok if ok and rng.chance(19, 20) else list(F))
                return ["pl", str(rng.pick(cand)), str(rng.below(4))]
        return None

    def monitor(self, line, out):
        hdr, ops = self.split(line)
        outs = [o.strip() for o in out.split(";")] if out.strip() else []
        m = MonU(hdr[0])
        for op, o in zip(ops, outs):
            if not m.feed(op, o):
                break
        if len(outs) < len(ops) and not m.hits and "HANG" not in out:
            m.hit("bad-output", "only %d outputs for %d ops" % (len(outs), len(ops)))
        if len(outs) == len(ops):
            m.finish()
        seen, res = set(), []
        for c, d in m.hits:
            if c not in seen:
                seen.add(c)
                res.append((c, d))
        return res


class MonU(Mon):
    """the bounded monitor minus capacity and send-side waiting: sends never block, send futures
    resolve on their first poll; a receiver close drains (drops) what is buffered"""

    def __init__(self, flavor):
        Mon.__init__(self, flavor, 1 << 60)
        self.K = 1 << 60
        self.done_send = set()

    def feed(self, op, o):
        # polling a completed send future panics by contract ("polled after completion")
        if op[0] == "pl" and int(op[1]) in self.done_send and o.split()[:1] == ["PANIC"]:
            self.check_wakes(None)
            return True
        return Mon.feed(self, op, o)

    def apply(self, op, res):
        t = op[0]
        H = self.H
        if t in ("ln", "ie", "ic", "sc"):
            h = int(op[1])
            n = len(self.fifo)
            want = {"ln": "n %d" % n, "sc": "n %d" % self.open_tx, "ie": "b %d" % (n == 0),
                    "ic": "b %d" % ((H[h]["closed"] or self.rx_gone) if H[h]["tx"] else (self.open_tx == 0 and n == 0))}[t]
            if " ".join(res) != want:
                self.hit("C04:observer-wrong", "%s on %d = %s, expected %s" % (t, h, " ".join(res), want))
            return None
        if t == "pl":
            f = int(op[1])
            fr = self.F[f]
            if fr["send"] and res[0] == "ready":
                self.done_send.add(f)
            if fr["send"] and res[0] == "pending":
                self.hit("C06:pending-though-ready", "unbounded send future %d returned Pending" % f)
        if t == "df":
            self.done_send.discard(int(op[1]))
        if t in ("sdb", "tsb", "sdm", "tsm") and res[0] in ("berr", "mok") and res[0] == "berr" and res[2] == "full":
            self.hit("C01:failed-op-effect", "unbounded batch send reported Full")
        return Mon.apply(self, op, res)

    def batch_send(self, h, t, vs, res):
        # all-or-nothing: Ok(total) or Closed with everything handed back
        Mon.batch_send(self, h, "tsb" if t in ("sdb",) else ("tsm" if t == "sdm" else t), vs, res)
        if res[0] in ("berr", "mok", "mclosed"):
            k = int(res[1]) if res[0] != "mclosed" else 0
            if 0 < k < len(vs):
                self.hit("C01:failed-op-effect", "%s sent a strict prefix (%d of %d) on an unbounded channel" % (t, k, len(vs)))


ENGINE = MpscuEngine()
INFO = {"name": "E-CHANOPS-mpscu",
        "path": "coq/Chan/MpscU.v, coq/Proofs/MpscUProofs.v, ocaml/eng_mpscu.ml, harness/seqdrv/src/bin/mpscu.rs, vlib/engines_mpscu.py",
        "kind": "K2 op-level model of mpsc::unbounded/unbounded_async (every call / poll / drop is one atomic step); theorems by induction over all op histories; D1 differential tie on the public API with counting wakers and drop-counting payloads"}
ASSUME = ["mpscu: sequential histories only (K2); the slab chain is abstracted to a FIFO (every publish = swap + link is complete between calls); D1 crosses >=3 slab boundaries per producer, seals partial slabs and recycles slabs through the pool on the real code every run",
          "mpscu: blocking recv forms are issued only where they complete; recv_timeout only with a zero timeout; &mut-borrowed handles are not used while a future on them is alive (enforced by the Rust borrow checker, `bad` in model and driver)"]

W_FM1 = "s %d cl 0 tr 1 cn 0 2 ts 2 1 tr 1 dr 0 dr 2 dr 1" % FIXFLAGS


def _p(covers, witness=None):
    return {"engines": [ENGINE], "witness": witness or {}, "assumptions": ASSUME, "covers": covers, "engine_info": INFO}


PROPS = {
    "C01": _p("mpsc unbounded (sync+async handles, K2, all histories): conservation of ids, no duplicate receive, failed ops leave the queue unchanged, try_send never Full, batch sends all-or-nothing with everything handed back on Closed"),
    "C02": _p("mpsc unbounded (K2): accepted = received ++ buffered ++ destroyed in send order for all histories; receive outputs are the received list; D1 runs cross >=3 slab boundaries per producer with slab recycling"),
    "C04": _p("mpsc unbounded (K2): Disconnected only when drained and no open sender; final except via clone-of-closed-sender (F-M1; full theorem for the repaired Clone); Closed+value after the receiver is gone; clone isolation; a closed handle rejects every form; close idempotent",
              {"F-M1-mpscu": (ENGINE, W_FM1, "C04:F-M1-clone-after-close")}),
    "C06": _p("mpsc unbounded futures/stream (K2, all create/poll/drop histories): sends never pend; a pending receive future/stream is woken as soon as its poll would be Ready (value buffered or last sender gone); no dangling registration; cancellation preserves conservation and order"),
    "C09": _p("mpsc unbounded (K2): every id in exactly one location in every history; receiver close destroys exactly the buffered values; after all handles/futures are gone every id returned or dropped exactly once; D1 compares per-id drop counters across recycled slabs"),
}
