"""E-CHANOPS-oneshot D1 engine: fibre::oneshot against the K2 model coq/Chan/OneshotOps.v.

case:   <cfg> <op>*        (cfg: one digit fix_taken_wake, read by the model driver only)
ops:    sd H | cs H | cl H | ds H | os H | tr | cr | dr | or | mk F | pr F W | xr F
output: one group per op + implicit teardown (xr every live future, ds every live sender in id order, dr),
        joined by " ; ":  <result> [w:<wakers woken>] [d:<payload ids dropped by library code>]
"""
from .flow import Engine
from .engines_spsc import parse_group

# "0" = /repo as it is; after the proposed one-line fix of F-34-oneshot is applied to /repo set this to "1".
CFG = "1"

ARITY = {"sd": 1, "cs": 1, "cl": 1, "ds": 1, "os": 1, "tr": 0, "cr": 0, "dr": 0, "or": 0, "mk": 1, "pr": 2, "xr": 1}


class OneshotEngine(Engine):
    model_file = "Chan/OneshotOps.v"
    exe = "oneshot"
    name = "oneshot"

    def n_cases(self, tier):
        return 800 if tier == "quick" else 60000

    def corpus(self):
        c = CFG
        return [
            "%s cl 0 sd 0 tr mk 1 pr 1 5 ds 1 pr 1 5" % c,        # F-34-oneshot
            "%s sd 0 tr tr" % c,
            "%s cl 0 sd 0 sd 1 tr tr" % c,
            "%s mk 1 pr 1 2 sd 0 pr 1 2" % c,
            "%s mk 1 pr 1 2 ds 0 pr 1 2" % c,
            "%s cr sd 0" % c,
            "%s sd 0 cr" % c,
            "%s sd 0 dr" % c,
            "%s cs 0 cs 0 sd 0 tr" % c,
            "%s cl 0 cs 0 sd 1 tr or os 0" % c,
            "%s cl 0 cl 1 ds 0 ds 1 tr ds 2 tr tr" % c,
            "%s mk 1 pr 1 2 mk 2 pr 2 3 sd 0 pr 1 2 pr 2 3" % c,
            "%s mk 0 pr 0 1 cr pr 0 1 sd 0" % c,
            "%s dr sd 0" % c,
        ]

    def gen(self, rng, tier):
        live = {0: False}      # handle id -> closed
        nexth = 1
        rcv, rclosed = True, False
        futs = []
        ops = []
        n = rng.pick([2, 3, 4, 6, 8, 12, 16, 24])
        for _ in range(n):
            t = rng.weighted([("sd", 8), ("cl", 14), ("cs", 6), ("ds", 8), ("os", 3), ("tr", 12), ("cr", 2),
                              ("dr", 2), ("or", 3), ("mk", 14), ("pr", 22), ("xr", 5)])
            if t in ("sd", "cl", "cs", "ds", "os"):
                ids = sorted(live)
                if ids and not rng.chance(1, 10):
                    h = rng.pick(ids)
                else:
                    h = rng.below(nexth + 1)
                ops.append([t, str(h)])
                if h in live:
                    if t in ("sd", "ds"):
                        del live[h]
                    elif t == "cs":
                        live[h] = True
                    elif t == "cl":
                        live[nexth] = False
                        nexth += 1
            elif t in ("tr", "cr", "or"):
                ops.append([t])
                if t == "cr":
                    rclosed = True
            elif t == "dr":
                ops.append([t])
                if rcv and not futs:
                    rcv = False
            elif t == "mk":
                f = rng.below(3)
                ops.append([t, str(f)])
                if rcv and f not in futs:
                    futs.append(f)
            elif t == "pr":
                f = rng.pick(futs) if futs and not rng.chance(1, 10) else rng.below(3)
                ops.append([t, str(f), str(rng.below(3))])
                # the mirror does not know whether the poll resolved; a resolved future is gone in both
                # drivers, later polls of it answer nofut - harmless
            else:
                f = rng.pick(futs) if futs and not rng.chance(1, 10) else rng.below(3)
                ops.append([t, str(f)])
                if f in futs:
                    futs.remove(f)
        return " ".join([CFG] + [x for op in ops for x in op])

    def split(self, line):
        t = line.split()
        hdr, ops, i = t[:1], [], 1
        while i < len(t):
            k = ARITY.get(t[i], 0)
            ops.append(t[i:i + 1 + k])
            i += 1 + k
        return hdr, ops

    def nontrivial(self, line, out):
        return len(self.split(line)[1]) >= 2

    def monitor(self, line, out):
        hdr, ops = self.split(line)
        groups = [g.strip() for g in out.split(";")] if out.strip() else []
        hits = []

        def hit(clause, detail):
            if not any(c == clause for c, _ in hits):
                hits.append((clause, detail))

        nxt = 0
        fate = {}              # id -> held|acc|recv|ret|drop
        accepted = None        # the one accepted id
        live = {0: False}      # sender handle -> close() returned ok
        nexth = 1
        rcv, rclosed = True, False
        got_disc = False
        futs = set()
        pend = None            # (future, waker, woken) of the most recent Pending poll
        dead = False           # the open-sender count reached 0 before any value was sent: terminally disconnected
        for idx, g in enumerate(groups):
            res, wakes, drops = parse_group(g)
            op = ops[idx] if idx < len(ops) else None     # teardown groups have no op token
            what = "%s#%d" % (" ".join(op) if op else "teardown", idx)
            if res.startswith("PANIC"):
                hit("panic", what + " panicked")
                return hits
            rt = res.split()
            r0 = rt[0] if rt else ""
            for w in wakes:
                if pend and pend[1] == w:
                    pend = (pend[0], pend[1], True)
            t = op[0] if op else None
            a = int(op[1]) if op and len(op) > 1 else None
            if t == "sd" and r0 != "gone":
                mine = nxt
                nxt += 1
                fate[mine] = "held"
            for x in drops:
                st = fate.get(x)
                if st in (None, "drop", "recv", "ret"):
                    hit("C09:double-drop", "%s dropped id %s whose fate was %s" % (what, x, st))
                fate[x] = "drop"
            if op is None:
                continue
            senders_before = [h for h, c in live.items() if not c]
            if t == "sd":
                if r0 == "gone":
                    if a in live:
                        hit("C04:closed-handle-accepts", what + " answered gone for a live handle")
                    continue
                was_closed = live.pop(a, None)
                if r0 == "ok":
                    if accepted is not None:
                        hit("C03:second-send-succeeds", "%s succeeded although id %d had already been sent" % (what, accepted))
                    if was_closed:
                        hit("C04:closed-handle-accepts", what + " succeeded on a sender whose close() had returned Ok")
                    if not rcv or rclosed:
                        hit("C04:send-after-last-rx", what + " succeeded after the receiver was closed/dropped")
                    accepted = mine
                    fate[mine] = "acc"
                    if pend and not pend[2]:
                        hit("C06:missed-wake", "%s delivered a value but the pending receive future (waker %d) was not woken" % (what, pend[1]))
                elif r0 in ("closed", "sent"):
                    if int(rt[1]) != mine:
                        hit("C01:failed-op-effect", "%s handed back %s, expected %d" % (what, rt[1], mine))
                    fate[mine] = "ret"
                    if r0 == "sent" and accepted is None and rcv and not rclosed and not got_disc and senders_before != [a] :
                        # Sent is also what a send after the channel went CLOSED reports; only flag the plain case
                        pass
                    if r0 == "closed" and not was_closed and rcv and not rclosed:
                        hit("C04:send-after-last-rx", what + " reported Closed although the receiver is alive and the handle open")
                else:
                    hit("C01:failed-op-effect", what + " -> " + res)
            elif t == "cs":
                if r0 == "ok":
                    if live.get(a):
                        hit("C04:double-close", what + " returned Ok on an already closed sender")
                    live[a] = True
                elif r0 == "closeerr" and not live.get(a, False):
                    hit("C04:double-close", what + " returned CloseError on a sender that was never closed")
            elif t == "cl":
                if r0 == "ok":
                    live[nexth] = False
                    nexth += 1
            elif t == "ds":
                if r0 == "ok":
                    live.pop(a, None)
            elif t in ("tr", "pr"):
                if t == "pr" and r0 in ("nofut",):
                    continue
                if t == "pr":
                    f, w = int(op[1]), int(op[2])
                if r0 == "v":
                    v = int(rt[1])
                    if v != accepted:
                        hit("C01:phantom", "%s returned id %d, accepted id is %s" % (what, v, accepted))
                    elif fate.get(v) == "recv":
                        hit("C01:dup", "%s returned id %d a second time" % (what, v))
                    elif fate.get(v) in ("drop", "ret"):
                        hit("C09:double-drop", "%s returned id %d that was already %s" % (what, v, fate.get(v)))
                    fate[v] = "recv"
                    if got_disc:
                        hit("C04:value-after-disc", what + " returned a value after Disconnected had been reported")
                    if rclosed:
                        hit("C04:closed-handle-accepts", what + " returned a value on a receiver whose close() had returned Ok")
                elif r0 == "disc":
                    if not rclosed:
                        if accepted is not None and fate.get(accepted) == "acc":
                            hit("C04:disc-before-drain", what + " reported Disconnected while the sent value is undelivered")
                        elif any(not c for c in live.values()) and accepted is None and not dead:
                            hit("C04:clone-close-affects-other", "%s reported Disconnected although sender handles %r are alive and open" %
                                (what, [h for h, c in live.items() if not c]))
                    got_disc = True
                elif r0 in ("empty", "pending"):
                    if rclosed:
                        hit("C04:closed-handle-accepts", "%s -> %s on a receiver whose close() had returned Ok" % (what, res))
                    elif accepted is not None and fate.get(accepted) == "acc":
                        hit("C01:lost", "%s -> %s although id %d was sent and not yet received" % (what, res, accepted))
                    elif accepted is None and not any(not c for c in live.values()):
                        hit("C04:disc-missing", "%s -> %s although every sender is closed/dropped and nothing was sent" % (what, res))
                if t == "pr":
                    if r0 == "pending":
                        pend = (f, w, False)
                    else:
                        futs.discard(f)
                        if pend and pend[0] == f:
                            pend = None
            elif t == "cr":
                if r0 == "ok":
                    if rclosed:
                        hit("C04:double-close", what + " returned Ok on an already closed receiver")
                    rclosed = True
                elif r0 == "closeerr" and not rclosed:
                    hit("C04:double-close", what + " returned CloseError on a receiver that was never closed")
            elif t == "dr":
                if r0 == "ok":
                    rcv = False
            elif t == "mk":
                if r0 == "ok":
                    futs.add(a)
            elif t == "xr":
                if r0 == "ok":
                    futs.discard(a)
                    if pend and pend[0] == a:
                        pend = None
            # the last open sender left: a pending receive future must be woken (it will resolve Disconnected)
            if t in ("sd", "cs", "ds") and senders_before and not any(not c for c in live.values()):
                if accepted is None:
                    dead = True
                if pend and not pend[2] and not rclosed and not (t == "sd" and r0 == "ok"):
                    if accepted is not None and fate.get(accepted) == "recv":
                        hit("C06:no-wake-after-taken", "%s removed the last sender; the receive future pending with waker %d "
                            "(polled after the value had been taken) would now resolve Disconnected but was not woken" % (what, pend[1]))
                    elif accepted is None:
                        hit("C06:missed-wake", "%s removed the last sender but the pending receive future (waker %d) was not woken" % (what, pend[1]))
        if len(groups) >= len(ops) + 1:
            for x in range(nxt):
                if fate.get(x) in ("held", "acc"):
                    hit("C09:leak", "id %d (%s) was neither received, handed back nor dropped after all handles were gone" % (x, fate.get(x)))
        return hits


ENG = OneshotEngine()

_INFO = {"name": "E-CHANOPS-oneshot",
         "path": "coq/Chan/OneshotOps.v, coq/Proofs/OneshotOpsProofs.v, coq/Props/C0x_oneshot.v, ocaml/eng_oneshot.ml, harness/seqdrv/src/bin/oneshot.rs, vlib/engines_oneshot.py",
         "kind": "K2 op-level model of the oneshot channel (cloneable senders, consuming send, try_recv, recv futures, close/drop); "
                 "theorems for all op/poll/drop histories by invariant; D1 differential tie + property monitors"}
_ASSUME = [
    "oneshot K2: one API call / poll / drop is one atomic step, so STATE_WRITING is never observed; the schedule quantifier is not covered by this engine",
    "oneshot K2: futures_util::AtomicWaker modelled as one waiter slot (register replaces, wake takes); the wake obligation follows the most recent Pending poll",
    "oneshot K2: sender_count on Z; fewer than 2^64 clones",
]
_W_F34 = (ENG, "%s cl 0 sd 0 tr mk 1 pr 1 5 ds 1 pr 1 5" % CFG, "C06:no-wake-after-taken")

PROPS = {
    "C01": {"engines": [ENG], "witness": {}, "assumptions": _ASSUME, "engine_info": _INFO,
            "covers": "oneshot (K2): the accepted value is received at most once, only it is received, failed sends hand their value back; conservation of ids"},
    "C02": {"engines": [ENG], "witness": {}, "assumptions": _ASSUME, "engine_info": _INFO,
            "covers": "oneshot (K2): received is a prefix of accepted (at most one element)"},
    "C03": {"engines": [ENG], "witness": {}, "assumptions": _ASSUME, "engine_info": _INFO,
            "covers": "oneshot (K2): only the first send ever succeeds (at most one accepted id in every history; send Ok iff state EMPTY, handle open, receiver present)"},
    "C04": {"engines": [ENG], "witness": {}, "assumptions": _ASSUME, "engine_info": _INFO,
            "covers": "oneshot (K2): value before Disconnected, none after; Closed(value) once the receiver left; closing/dropping one clone leaves the others working; closed handle rejects; close idempotent"},
    "C06": {"engines": [ENG], "witness": {"F-34-oneshot": _W_F34}, "assumptions": _ASSUME, "engine_info": _INFO,
            "covers": "oneshot recv future (K2): the most recent Pending poll is woken when it becomes able to complete - full for the post-fix model, refuted on the code as it is when the value was already taken (F-34-oneshot); dropping a future changes nothing"},
    "C09": {"engines": [ENG], "witness": {}, "assumptions": _ASSUME, "engine_info": _INFO,
            "covers": "oneshot (K2): the value is dropped exactly once by one of receiver take / receiver close or drop / last sender / shared drop, for every teardown order"},
}
