"""E-IOC D1 engine: fibre_ioc's Container::new() / global() / LocalContainer through the public API
and the public resolve macros.  Case/output format: see harness/seqdrv/src/bin/ioc.rs.

The MONITOR judges property C18's clauses from the implementation's output alone, with its own
bookkeeping (it never looks at the model's output):
  unregistered-not-none   resolving a key with no registration did not give `none`
  registered-none         a registered key resolved to `none`
  latest-wins             the instance was produced by an earlier registration of the same key
  alias                   the instance was produced by the registration of a different key
  alias-id                one instance id attributed to two registrations
  transient-not-fresh     a transient resolution returned an instance id seen before
  singleton-differs       two resolutions of one singleton registration returned different ids
  singleton-ran-twice     a singleton factory completed more than once (run counters)
  instance-factory-ran    the factory of an add_instance registration was invoked
  dep-mismatch            a freshly built instance saw `none`/some for a dependency against its registration state
  cycle-no-panic          a live dependency cycle was reachable and the resolution did not panic
  spurious-panic          PANIC without any possible cause (cycle / missing required dependency)
  cross-container-spurious-cycle   PANIC whose only cause is the same (type,name) key met in ANOTHER container
                                    (thread-local resolution stack ignores container identity) — known finding
  stress-*                N threads resolving concurrently: distinct instances / counts against the clause
  hang / crash            the driver reported HANG / unbounded recursion (OVERFLOW) / died (abort)
  hang-register-in-factory   witness op `selfreg` (finding F-24, same-thread variant): a factory that re-registers
                          its own key deadlocks on the DashMap shard lock — known finding, outside the model
"""
import re
from .flow import Engine

NAMES = ["-", "a", "b"]
TRAIT_TYPES = (6, 7)


def parse_case(line):
    """-> (mode, ops) with ops = list of dicts"""
    t = line.split()
    mode, i, ops = t[0], 1, []
    while i < len(t):
        if t[i] == "reg":
            nd = int(t[i + 5])
            deps = []
            for j in range(nd):
                b = i + 6 + 4 * j
                deps.append(((int(t[b]), int(t[b + 1]), t[b + 2]), t[b + 3] == "r"))
            ops.append({"op": "reg", "kind": t[i + 1], "slot": (int(t[i + 2]), int(t[i + 3]), t[i + 4]), "deps": deps,
                        "toks": t[i:i + 6 + 4 * nd]})
            i += 6 + 4 * nd
        elif t[i] == "res":
            ops.append({"op": "res", "slot": (int(t[i + 1]), int(t[i + 2]), t[i + 3]), "toks": t[i:i + 4]})
            i += 4
        elif t[i] == "selfreg":
            ops.append({"op": "selfreg", "kind": t[i + 1], "slot": (int(t[i + 2]), 0, t[i + 3]), "toks": t[i:i + 4]})
            i += 4
        elif t[i] == "stress":
            ops.append({"op": "stress", "slot": (int(t[i + 1]), int(t[i + 2]), t[i + 3]), "n": int(t[i + 4]),
                        "toks": t[i:i + 5]})
            i += 5
        else:
            raise ValueError("bad op token %r in %r" % (t[i], line))
    return mode, ops


def skey(slot):
    return (slot[1], slot[2])


def reach_closure(nodes, succ):
    """reflexive-transitive reachability: dict node -> set(nodes)"""
    r = {}
    for n in nodes:
        seen, todo = {n}, [n]
        while todo:
            x = todo.pop()
            for y in succ(x):
                if y not in seen:
                    seen.add(y)
                    todo.append(y)
        r[n] = seen
    return r


class Book:
    """the monitor's own view of the container: current registration per slot, what is known about
    each singleton's cell (no / maybe / yes), ids seen"""

    def __init__(self):
        self.cur = {}        # slot -> fid
        self.regs = []       # fid -> dict(kind, slot, deps, init, ids)
        self.seen_ids = {}   # instance id -> fid it was attributed to

    def register(self, kind, slot, deps):
        fid = len(self.regs)
        self.regs.append({"kind": kind, "slot": slot, "deps": deps, "init": "yes" if kind == "i" else "no", "ids": set()})
        self.cur[slot] = fid
        return fid

    def live(self, slot, liberal):
        """may/must the factory at `slot` run if the slot is resolved now?"""
        fid = self.cur.get(slot)
        if fid is None:
            return False
        r = self.regs[fid]
        if r["kind"] == "t":
            return True
        if r["kind"] == "i":
            return False
        return r["init"] != "yes" if liberal else r["init"] == "no"

    def succ(self, slot, liberal):
        if not self.live(slot, liberal):
            return []
        return [d for d, _ in self.regs[self.cur[slot]]["deps"]]

    def must_panic(self, slot):
        """a cycle of definitely-live registrations is reachable from `slot` through definitely-live ones"""
        if not self.live(slot, False):
            return False
        nodes = reach_closure([slot], lambda x: self.succ(x, False))[slot]
        rc = reach_closure(nodes, lambda x: self.succ(x, False))
        for u in nodes:
            for v in self.succ(u, False):
                if u in rc.get(v, ()):          # edge u->v and v reaches u: a cycle of live slots
                    return True
        return False

    def panic_causes(self, slot):
        """-> (true_cause, key_only_cause) under the liberal reading of what may be live"""
        nodes = reach_closure([slot], lambda x: self.succ(x, True))[slot]
        rc = reach_closure(nodes, lambda x: self.succ(x, True))
        true_cause = key_cause = False
        for u in nodes:
            if not self.live(u, True):
                continue
            for v, req in self.regs[self.cur[u]]["deps"]:
                if req and v not in self.cur:
                    true_cause = True
                for w in nodes:
                    if u in rc[w] and skey(w) == skey(v) and self.live(w, True):
                        if w == v:
                            true_cause = True
                        else:
                            key_cause = True
        return true_cause, key_cause

    def mark_success(self, slot, fresh, visiting=None):
        """`slot` has just been resolved successfully (fresh: its factory certainly ran just now)"""
        visiting = set() if visiting is None else visiting
        fid = self.cur.get(slot)
        if fid is None or slot in visiting:
            return
        visiting.add(slot)
        r = self.regs[fid]
        if r["kind"] == "i":
            return
        if r["kind"] == "s":
            was = r["init"]
            r["init"] = "yes"
            if was == "yes":
                return
            if was == "maybe":
                # the factory ran either now or during an earlier, panicked resolution (possibly against
                # other registrations of its dependencies): what is below it is no longer known
                for d, _ in r["deps"]:
                    self.blur(d, visiting)
                return
        elif not fresh:
            return
        for d, _ in r["deps"]:
            self.mark_success(d, True, visiting)

    def blur(self, slot, visiting):
        """everything that may run below `slot` may or may not have been initialised"""
        fid = self.cur.get(slot)
        if fid is None or slot in visiting:
            return
        visiting.add(slot)
        r = self.regs[fid]
        if r["kind"] == "i" or (r["kind"] == "s" and r["init"] == "yes"):
            return
        if r["kind"] == "s":
            r["init"] = "maybe"
        for d, _ in r["deps"]:
            self.blur(d, visiting)

    def mark_panic(self, slot):
        """a resolution of `slot` panicked: its own cell stays empty (the panic went through its factory), but
        singletons below it may or may not have been initialised on the way — except those from which a live
        cycle is reachable (their factory cannot have completed)"""
        down = []
        for x in reach_closure([slot], lambda x: self.succ(x, True))[slot]:
            fid = self.cur.get(x)
            if x != slot and fid is not None and self.regs[fid]["kind"] == "s" and self.regs[fid]["init"] == "no" \
                    and not self.must_panic(x):
                down.append(fid)
        for fid in down:
            self.regs[fid]["init"] = "maybe"


SOME_RE = re.compile(r"some (\d+) f(\d+) \[([0-9,\-]*)\]$")
STRESS_RE = re.compile(r"stress some=(\d+) none=(\d+) panic=(\d+) distinct=(\d+)$")


class IocEngine(Engine):
    model_file = "Ioc/Container.v"
    exe = "ioc"

    def __init__(self, mode):
        self.mode = mode
        self.name = "ioc." + mode

    def n_cases(self, tier):
        q = {"I": 1200, "G": 48, "L": 600}[self.mode]
        return q if tier == "quick" else q * 8

    # ---------------------------------------------------------------- corpus
    def corpus(self):
        m = self.mode
        inst = "i" if m != "L" else "s"
        c = [
            # singleton sameness / transient freshness / unregistered / names and types do not alias
            "reg s 0 0 - 0 res 0 0 - res 0 0 - res 0 0 a res 0 1 - res 1 0 -",
            "reg t 0 0 - 0 res 0 0 - res 0 0 - res 0 0 -",
            "reg s 0 0 a 0 reg s 0 0 b 0 reg s 0 1 a 0 res 0 0 a res 0 0 b res 0 1 a res 0 0 - res 0 0 a",
            "reg s 0 6 - 0 reg s 0 7 - 0 reg s 0 6 a 0 res 0 6 - res 0 7 - res 0 6 a res 0 7 a",
            # latest registration wins, also over an initialised singleton and across kinds
            "reg s 0 0 - 0 res 0 0 - reg s 0 0 - 0 res 0 0 - reg t 0 0 - 0 res 0 0 - res 0 0 - reg %s 0 0 - 0 res 0 0 -" % inst,
            # dependencies: DAG, optional/required missing
            "reg s 0 0 - 2 0 1 - r 0 2 - o reg t 0 1 - 0 res 0 0 - res 0 1 - res 0 0 -",
            "reg s 0 0 - 1 0 1 - r res 0 0 - reg s 0 1 - 0 res 0 0 - res 0 0 -",
            "reg s 0 0 - 2 0 1 - r 0 2 - r reg s 0 1 - 0 res 0 0 - res 0 1 - reg s 0 2 - 0 res 0 0 -",
            # cycles: self loop, 2-cycle, 3-cycle, through a transient, optional edge
            "reg s 0 0 - 1 0 0 - r res 0 0 - res 0 0 -",
            "reg t 0 0 - 1 0 0 - o res 0 0 -",
            "reg s 0 0 a 1 0 1 b r reg s 0 1 b 1 0 0 a r res 0 0 a res 0 1 b res 0 0 a",
            "reg s 0 0 - 1 0 1 - r reg t 0 1 - 1 0 2 - o reg s 0 2 - 1 0 0 - r res 0 0 - res 0 1 - res 0 2 -",
            # a cycle reachable from the resolved key but not through it
            "reg s 0 3 - 2 0 4 - r 0 0 - r reg s 0 4 - 0 reg s 0 0 - 1 0 1 - r reg s 0 1 - 1 0 0 - r res 0 3 - res 0 4 -",
            # a cycle that exists only behind an initialised singleton: no panic
            "reg s 0 0 - 0 res 0 0 - reg s 0 1 - 1 0 0 - r res 0 1 - reg t 0 0 - 1 0 1 - r res 0 0 - res 0 1 - res 0 0 -",
            # after a caught panic the stack and the cells are clean: re-register, resolve again
            "reg s 0 0 - 1 0 1 - r reg s 0 1 - 1 0 0 - r res 0 0 - reg s 0 1 - 0 res 0 0 - res 0 1 - res 0 0 -",
            # two containers, distinct keys
            "reg s 0 0 - 1 1 1 - r reg s 1 1 - 0 res 0 0 - res 1 1 - res 1 0 - res 0 1 -",
            # same key in two containers (the thread-local stack is shared): spurious cycle panic
            "reg s 0 0 - 1 1 0 - r reg s 1 0 - 0 res 0 0 -",
        ]
        if m != "L":
            c += ["reg s 0 0 - 1 0 1 - r reg s 0 1 - 0 stress 0 0 - 8 res 0 0 - res 0 1 -",
                  "reg s 0 7 a 0 stress 0 7 a 16 stress 0 7 - 4",
                  "reg s 0 0 - 1 0 1 - r stress 0 0 - 6 reg s 0 1 - 0 stress 0 0 - 6",
                  "reg t 0 2 - 0 stress 0 2 - 5 res 0 2 -",
                  "reg i 0 0 a 0 res 0 0 a res 0 0 a stress 0 0 a 3"]
        return [m + " " + x for x in c]

    # ---------------------------------------------------------------- generator
    def gen(self, rng, tier):
        m = self.mode
        ntypes = rng.pick([1, 2, 2, 3, 3, 4, 8])
        types = list(range(ntypes)) if ntypes < 8 else list(range(8))
        if ntypes < 8 and rng.chance(1, 4):
            types[-1] = rng.pick([6, 7])
        names = rng.pick([["-"], ["-", "a"], ["a", "b"], ["-", "a", "b"]])
        cids = rng.pick([[0], [0], [0], [0, 1], [1, 0]])
        pool = [(c, t, n) for c in cids for t in types for n in names]
        if len(pool) > 10:
            pool = [pool[rng.below(len(pool))] for _ in range(rng.pick([4, 6, 8, 10]))]
        n = rng.pick([2, 3, 4, 6, 8, 12, 16, 24, 40])
        cyc = rng.chance(1, 2)     # half the cases draw dependencies from the whole pool (cycles are common)
        toks = [m]
        cur = {}                   # slot -> (kind, deps) to keep `stress` deterministic
        for _ in range(n):
            w = rng.weighted([("reg", 45), ("res", 50), ("stress", 3 if m != "L" else 0)])
            sl = rng.pick(pool)
            if w == "reg":
                kinds = [("s", 50)]
                if sl[1] not in TRAIT_TYPES:
                    kinds.append(("t", 35))
                    if m != "L":
                        kinds.append(("i", 15))
                k = rng.weighted(kinds)
                nd = 0 if k == "i" else rng.pick([0, 0, 1, 1, 2, 3])
                deps = []
                for _ in range(nd):
                    if cyc:
                        d = rng.pick(pool)
                    else:  # DAG-ish: only "later" slots of the pool
                        later = pool[pool.index(sl) + 1:]
                        d = rng.pick(later) if later else (sl[0], 5, "b")
                    if rng.chance(1, 12):
                        d = (rng.pick([0, 1]), rng.below(8), rng.pick(NAMES))     # possibly unregistered
                    deps.append((d, rng.chance(7, 10)))
                toks += ["reg", k, str(sl[0]), str(sl[1]), sl[2], str(nd)]
                for d, r in deps:
                    toks += [str(d[0]), str(d[1]), d[2], "r" if r else "o"]
                cur[sl] = (k, [d for d, _ in deps])
            elif w == "res":
                if cur and rng.chance(1, 2):
                    sl = rng.pick(sorted(cur))
                if rng.chance(1, 10):
                    sl = (rng.pick([0, 1]), rng.below(8), rng.pick(NAMES))
                toks += ["res", str(sl[0]), str(sl[1]), sl[2]]
            else:
                # real threads: only when the outcome is schedule-independent, i.e. no transient factory is
                # reachable below the target (singleton subtrees are run by one thread while the others wait)
                below = reach_closure([sl], lambda x: cur[x][1] if x in cur else [])[sl] - {sl}
                if sl in cur and sl in [d for x in below if x in cur for d in cur[x][1]]:
                    below = below | {sl}
                if any(x in cur and cur[x][0] == "t" for x in below):
                    toks += ["res", str(sl[0]), str(sl[1]), sl[2]]
                else:
                    toks += ["stress", str(sl[0]), str(sl[1]), sl[2], str(rng.pick([2, 2, 3, 4, 8]))]
        return " ".join(toks)

    # ---------------------------------------------------------------- shrinking / shapes
    def split(self, line):
        mode, ops = parse_case(line)
        return [mode], [o["toks"] for o in ops]

    def shape(self, line):
        mode, ops = parse_case(line)
        idx, parts = {}, []
        for o in ops:
            s = idx.setdefault(o["slot"], len(idx))
            if o["op"] == "reg":
                parts.append("reg%s%d(%s)" % (o["kind"], s, ",".join(
                    "%d%s" % (idx.setdefault(d, len(idx)), "r" if r else "o") for d, r in o["deps"])))
            else:
                parts.append("%s%d" % (o["op"], s))
        return mode + "|" + " ".join(parts)

    def nontrivial(self, line, out):
        _, ops = parse_case(line)
        return len(ops) >= 2 and any(o["op"] != "reg" for o in ops)

    # ---------------------------------------------------------------- monitor
    def monitor(self, line, out):
        hits = []
        out = out.strip()
        if out == "HANG" or out.startswith("DRIVER-TIMEOUT"):
            if " selfreg " in line:
                return [("hang-register-in-factory", "a factory that re-registers its own key never returns "
                         "(DashMap shard read guard held across the factory call, insert needs the write lock)")]
            return [("hang", "the case did not terminate")]
        if out.startswith("OVERFLOW"):
            return [("crash", "unbounded factory recursion: " + out)]
        if out.startswith("CRASH") or out.startswith("DRIVER-DIED"):
            return [("crash", "the driver process died: " + out)]
        if out.startswith("DRIVER"):
            return [("driver", out)]
        mode, ops = parse_case(line)
        body, _, runs = out.partition(" | ")
        outs = [o.strip() for o in body.split(" ; ")] if body else []
        if len(outs) != len(ops):
            return [("bad-output", "expected %d op results, got %r" % (len(ops), out))]
        bk = Book()

        def attribute(iid, fid, what):
            old = bk.seen_ids.get(iid)
            if old is not None and old != fid:
                hits.append(("alias-id", "instance %d attributed to registration f%d and f%d (%s)" % (iid, old, fid, what)))
            bk.seen_ids[iid] = fid

        for k, (o, x) in enumerate(zip(ops, outs)):
            sl = o["slot"]
            if o["op"] == "reg":
                if x != "ok":
                    hits.append(("register-failed", "op %d: %s -> %s" % (k, " ".join(o["toks"]), x)))
                bk.register(o["kind"], sl, o["deps"])
                continue
            fid = bk.cur.get(sl)
            if o["op"] == "res":
                if fid is None:
                    if x != "none":
                        hits.append(("unregistered-not-none", "op %d: unregistered %r resolved to %r" % (k, sl, x)))
                    continue
                reg = bk.regs[fid]
                if x == "none":
                    hits.append(("registered-none", "op %d: %r is registered (f%d) but resolved to none" % (k, sl, fid)))
                    continue
                if x == "PANIC":
                    tc, kc = bk.panic_causes(sl)
                    if not tc and kc:
                        hits.append(("cross-container-spurious-cycle",
                                     "op %d: resolving %r panicked although no registration depends on itself: the same "
                                     "(type,name) key is being resolved in another container" % (k, sl)))
                    elif not tc:
                        hits.append(("spurious-panic", "op %d: resolving %r panicked without a cycle or a missing required dependency" % (k, sl)))
                    bk.mark_panic(sl)
                    continue
                mm = SOME_RE.match(x)
                if not mm:
                    hits.append(("bad-output", "op %d: %r" % (k, x)))
                    break
                iid, f = int(mm.group(1)), int(mm.group(2))
                deps = [None if d == "-" else int(d) for d in mm.group(3).split(",")] if mm.group(3) else []
                if bk.must_panic(sl):
                    hits.append(("cycle-no-panic", "op %d: a live dependency cycle is reachable from %r but it resolved to %r" % (k, sl, x)))
                if f != fid:
                    if f < len(bk.regs) and bk.regs[f]["slot"] == sl:
                        hits.append(("latest-wins", "op %d: %r resolved to an instance of the replaced registration f%d (current f%d)" % (k, sl, f, fid)))
                    else:
                        other = bk.regs[f]["slot"] if f < len(bk.regs) else "?"
                        hits.append(("alias", "op %d: %r resolved to an instance produced for %r (f%d)" % (k, sl, other, f)))
                    continue
                fresh = iid not in bk.seen_ids
                if reg["kind"] == "t":
                    if not fresh:
                        hits.append(("transient-not-fresh", "op %d: transient %r returned instance %d seen before" % (k, sl, iid)))
                else:
                    if reg["ids"] and iid not in reg["ids"]:
                        hits.append(("singleton-differs", "op %d: singleton %r (f%d) returned instance %d, earlier %r" % (k, sl, fid, iid, sorted(reg["ids"]))))
                attribute(iid, fid, "result of op %d" % k)
                made_now = (reg["kind"] == "t") or (reg["kind"] == "s" and reg["init"] == "no")
                reg["ids"].add(iid)
                if made_now and reg["kind"] != "i":
                    if len(deps) != len(reg["deps"]):
                        hits.append(("dep-mismatch", "op %d: %d dependencies seen, script has %d" % (k, len(deps), len(reg["deps"]))))
                    else:
                        for (d, req), got in zip(reg["deps"], deps):
                            dfid = bk.cur.get(d)
                            if (dfid is None) != (got is None) or (got is None and req):
                                hits.append(("dep-mismatch", "op %d: dependency %r (registered=%s, required=%s) was seen as %r" % (k, d, dfid is not None, req, got)))
                            elif got is not None:
                                attribute(got, dfid, "dependency of op %d" % k)
                                if bk.regs[dfid]["kind"] != "t":
                                    ids = bk.regs[dfid]["ids"]
                                    if ids and got not in ids:
                                        hits.append(("singleton-differs", "op %d: dependency singleton %r seen as %d, earlier %r" % (k, d, got, sorted(ids))))
                                    ids.add(got)
                bk.mark_success(sl, made_now)
            else:  # stress
                mm = STRESS_RE.match(x)
                if not mm:
                    hits.append(("bad-output", "op %d: %r" % (k, x)))
                    break
                some, none, pan, dist = (int(g) for g in mm.groups())
                n = o["n"]
                if some + none + pan != n:
                    hits.append(("stress-count", "op %d: %d threads, results %r" % (k, n, x)))
                if fid is None:
                    if none != n:
                        hits.append(("unregistered-not-none", "op %d: unregistered %r under %d threads: %r" % (k, sl, n, x)))
                    continue
                reg = bk.regs[fid]
                if none:
                    hits.append(("registered-none", "op %d: %r is registered but %d threads got none" % (k, sl, none)))
                if reg["kind"] == "t":
                    if dist != some:
                        hits.append(("transient-not-fresh", "op %d: %d transient resolutions gave %d distinct instances" % (k, some, dist)))
                elif some and dist != 1:
                    hits.append(("stress-singleton-distinct", "op %d: %d threads observed %d distinct instances of singleton %r" % (k, some, dist, sl)))
                if some and bk.must_panic(sl):
                    hits.append(("cycle-no-panic", "op %d: live cycle reachable from %r but %d threads resolved it" % (k, sl, some)))
                if pan:
                    tc, kc = bk.panic_causes(sl)
                    if not tc and kc:
                        hits.append(("cross-container-spurious-cycle", "op %d: %r panicked under stress with only a cross-container key match as cause" % (k, sl)))
                    elif not tc:
                        hits.append(("spurious-panic", "op %d: %r panicked under stress without a cause" % (k, sl)))
                    bk.mark_panic(sl)
                if some:
                    bk.mark_success(sl, reg["kind"] == "t" or reg["init"] == "no")
        # run counters
        rt = runs.split()
        if not rt or rt[0] != "runs" or len(rt) - 1 != len(bk.regs):
            if not any(c == "bad-output" for c, _ in hits):
                hits.append(("bad-output", "run counters %r for %d registrations" % (runs, len(bk.regs))))
            return hits
        for fid, (rc, reg) in enumerate(zip(rt[1:], bk.regs)):
            st, co = (int(v) for v in rc.split("/"))
            if co > st:
                hits.append(("bad-output", "f%d completed %d > started %d" % (fid, co, st)))
            if reg["kind"] == "s" and co > 1:
                hits.append(("singleton-ran-twice", "singleton registration f%d at %r: factory completed %d times" % (fid, reg["slot"], co)))
            if reg["kind"] == "i" and st:
                hits.append(("instance-factory-ran", "add_instance registration f%d: factory invoked %d times" % (fid, st)))
            if reg["kind"] == "s" and reg["ids"] and co != 1:
                hits.append(("singleton-ran-twice", "singleton f%d was resolved but its factory completed %d times" % (fid, co)))
        return hits
