#!/usr/bin/env python3
"""Generates the state record + setters of coq/Chan/OneshotK3.v (printed to stdout; pasted into the
model file between the GENERATED markers).  Kept so the record can be regenerated if a field is added."""
FIELDS = [
    # OneShotShared
    ("cs", "cst"), ("slot", "option nat"), ("mlock", "option nat"), ("rd", "bool"), ("cnt", "nat"),
    ("arc", "nat"),
    # receiver_waker (AtomicWaker as a one-slot register) and the block_on executor of the receiver thread
    ("wk", "option nat"), ("gen", "nat"), ("woken", "bool"), ("token", "bool"),
    # receiver handle / thread
    ("rclosed", "bool"), ("rprog", "list rop"), ("rpc", "rpc_t"),
    # sender threads
    ("spc", "nat -> spc_t"),
    # ghost
    ("wrote", "list nat"), ("oks", "list nat"), ("back", "list nat"), ("got", "list nat"),
    ("drops", "list (nat * dropper)"), ("rlog", "list rres"), ("slog", "list (nat * sres)"),
]
print("Record st := mkSt {")
print(";\n".join("  %s : %s" % f for f in FIELDS))
print("}.\n")
names = [f[0] for f in FIELDS]
for n, t in FIELDS:
    args = " ".join("v" if m == n else "(%s s)" % m for m in names)
    print("Definition set_%s (s : st) (v : %s) : st :=\n  mkSt %s." % (n, t, args))
print()
print("Ltac st_cbn := cbn [%s\n  %s] in *." % (" ".join(names), " ".join("set_" + n for n in names)))
