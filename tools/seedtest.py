#!/usr/bin/env python3
"""Run the registered checks against a seeded change without touching /repo:
    tools/seedtest.py <seeded-id> [--props C01,C05] [--tier quick]
makes a scratch copy of /repo (outside /repo and /verif), applies seeded/<id>/patch.diff, runs
`VERIF_REPO=<copy> ./check <prop>` for every property named in meta.json (or --props), prints the
verdict lines, and removes the copy and its build output.  (The official way — git -C /repo apply,
run, git -C /repo checkout -- . — gives the same result; this one can run while /repo is in use.)"""
import json
import os
import shutil
import subprocess
import sys

ROOT = os.path.dirname(os.path.dirname(os.path.abspath(__file__)))


def summarize(lines):
    """-> short description of which gate/clause caught the change, from the VIOLATION lines' replay files"""
    import re
    hows = []
    for l in lines:
        m = re.match(r"VIOLATION property=(\S+) replay=(\S+)(.*)", l)
        if not m:
            continue
        try:
            r = json.load(open(os.path.join(ROOT, m.group(2))))
        except Exception:
            continue
        kind = r.get("kind")
        if kind == "property-monitor":
            hows.append("%s: monitor clause `%s` on engine %s, case `%s`" % (m.group(1), r.get("clause"), r.get("engine"), str(r.get("case"))[:90]))
        elif kind == "correspondence":
            hows.append("%s: %s%s" % (m.group(1), (r.get("broken") or "model/implementation disagreement")[:110],
                                       (", clause `%s`" % r["clause"]) if r.get("clause") else (" (" + m.group(3).strip() + ")" if m.group(3).strip() else "")))
        else:
            hows.append("%s: %s %s" % (m.group(1), kind, m.group(3).strip()))
    return hows


def record(sid, results):
    mp = os.path.join(ROOT, "seeded", sid, "meta.json")
    meta = json.load(open(mp))
    hows = []
    for p, v in results.items():
        hows += summarize(v["lines"])
    caught = any(v["exit"] == 1 for v in results.values())
    meta["check_result"] = {"verdict": "CAUGHT" if caught else "MISSED",
                            "checks_run": {p: v["exit"] for p, v in results.items()},
                            "how": "; ".join(dict.fromkeys(hows))[:600]}
    json.dump(meta, open(mp, "w"), indent=1)


def main():
    sid = sys.argv[1]
    d = os.path.join(ROOT, "seeded", sid)
    meta = json.load(open(os.path.join(d, "meta.json")))
    props = meta.get("breaks", [])
    tier = "quick"
    if "--props" in sys.argv:
        props = sys.argv[sys.argv.index("--props") + 1].split(",")
    if "--tier" in sys.argv:
        tier = sys.argv[sys.argv.index("--tier") + 1]
    # a fixed scratch path per slot keeps the cargo target dir of the scratch build warm
    slot = os.environ.get("SEED_SLOT", "")
    scratch = ("/tmp/seed_slot_%s" % slot) if slot else "/tmp/seed_%s_%d" % (sid.replace("/", "_"), os.getpid())
    subprocess.check_call(["rsync", "-a", "--delete", "--exclude", "target", "--exclude", ".git", "/repo/", scratch + "/"])
    try:
        subprocess.check_call(["patch", "-p1", "-s", "-d", scratch, "-i", os.path.join(d, "patch.diff")])
        env = dict(os.environ, VERIF_REPO=scratch, VERIF_TIER=tier)
        results = {}
        for p in props:
            r = subprocess.run(["./check", p, "--tier", tier], cwd=ROOT, env=env, capture_output=True, text=True)
            lines = [l for l in r.stdout.splitlines() if l.startswith(("VIOLATION", "OK", "KNOWN"))]
            results[p] = {"exit": r.returncode, "lines": lines}
            print(p, "exit=%d" % r.returncode)
            for l in lines:
                print("   ", l)
            if r.returncode not in (0, 1):
                print(r.stderr[-2000:])
        caught = any(v["exit"] == 1 for v in results.values())
        record(sid, results)
        print("CAUGHT" if caught else "MISSED", sid)
        return 0 if caught else 3
    finally:
        if not slot:
            shutil.rmtree(scratch, ignore_errors=True)
            import hashlib
            tag = hashlib.md5(scratch.encode()).hexdigest()[:8]
            shutil.rmtree(os.path.join(ROOT, ".build", "alt_" + tag), ignore_errors=True)
        # evidence files were rewritten by the scratch run: restore the committed ones
        subprocess.run(["git", "checkout", "--", "evidence"], cwd=ROOT)


if __name__ == "__main__":
    sys.exit(main())
