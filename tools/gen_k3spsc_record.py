#!/usr/bin/env python3
"""Generates the state record + setters of coq/Chan/SpscK3.v (printed to stdout; pasted into the
model file between the GENERATED markers).  Kept so the record can be regenerated if a field is added."""
FIELDS = [
    # ring
    ("tail", "N"), ("head", "N"), ("ch", "N"), ("ct", "N"), ("slots", "N -> option N"),
    # handle / lifecycle flags
    ("p_closed", "bool"), ("c_closed", "bool"), ("pdropped", "bool"), ("cdropped", "bool"),
    ("scount", "N"), ("rcount", "N"), ("p_rel", "bool"), ("c_rel", "bool"),
    # consumer-side waiter cell (consumer waits, producer wakes)
    ("cw_lock", "bool"), ("cw_slot", "bool"), ("recv_w", "N"), ("c_notif", "bool"), ("tok_c", "bool"),
    # producer-side waiter cell
    ("pw_lock", "bool"), ("pw_slot", "bool"), ("send_w", "N"), ("p_notif", "bool"), ("tok_p", "bool"),
    # threads
    ("ppc", "ppc_t"), ("cpc", "cpc_t"), ("pprog", "list pop"), ("cprog", "list cop"), ("pseq", "N"),
    # ghost
    ("accepted", "list N"), ("received", "list N"), ("dropped", "list N"), ("chand", "N"),
    ("presults", "list pres"), ("cresults", "list cres"), ("bad", "bool"),
]
print("Record st := mkSt {")
print(";\n".join("  %s : %s" % f for f in FIELDS))
print("}.\n")
names = [f[0] for f in FIELDS]
for n, t in FIELDS:
    args = " ".join("v" if m == n else "(%s s)" % m for m in names)
    print("Definition set_%s (s : st) (v : %s) : st :=\n  mkSt %s." % (n, t, args))
print()
print("Ltac st_cbn := cbn [%s\n  %s] in *." % (" ".join(names), " ".join("set_" + n for n in names)))
