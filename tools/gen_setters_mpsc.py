#!/usr/bin/env python3
"""Generate Coq record + setter boilerplate: gen_setters.py <RecName> <mk> field:type ..."""
import sys
rec, mk = sys.argv[1], sys.argv[2]
fields = [a.split(":", 1) for a in sys.argv[3:]]
print("Record %s := %s {" % (rec, mk))
print(";\n".join("  %s : %s" % (f, t) for f, t in fields))
print("}.\n")
for f, t in fields:
    args = " ".join("x" if g == f else "(%s s)" % g for g, _ in fields)
    print("Definition set_%s (s : %s) (x : %s) : %s :=\n  %s %s." % (f, rec, t, rec, mk, args))
