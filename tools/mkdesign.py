#!/usr/bin/env python3
"""Assemble /verif/DESIGN.md from docs/design_parts/DESIGN.md.in and the part files
(fixes.md, props.md, known.md, seeded.md).  known.md is generated from known_findings.txt."""
import os
import re

ROOT = os.path.dirname(os.path.dirname(os.path.abspath(__file__)))
P = os.path.join(ROOT, "docs", "design_parts")


def read(name):
    p = os.path.join(P, name)
    return open(p).read().rstrip("\n") if os.path.exists(p) else "(nothing yet)"


def known_table():
    rows_k, rows_f = [], []
    for l in open(os.path.join(ROOT, "known_findings.txt")):
        l = l.strip()
        if l.startswith("known:"):
            f = dict(re.findall(r"(\w+)=(\S+)", l.split("::")[0]))
            rows_k.append("| %s | %s | `%s` / `%s` | %s |" % (f.get("property"), f.get("id"), f.get("engine"), f.get("clause"), l.split("::", 1)[1].strip().replace("|", "\\|")))
        elif l.startswith("fixed:"):
            f = dict(re.findall(r"(\w+)=(\S+)", l.split("::")[0]))
            rows_f.append("* `%s` %s (commit %s): %s" % (f.get("property"), f.get("id"), f.get("commit"), l.split("::", 1)[1].strip()))
    k = "| property | id | engine / monitor clause | what fails |\n|---|---|---|---|\n" + "\n".join(sorted(rows_k))
    return k, "\n".join(rows_f)


def props_section():
    import json
    man = json.load(open(os.path.join(ROOT, "MANIFEST.json")))
    titles = {}
    for l in open(os.path.join(ROOT, "properties.jsonl")):
        pr = json.loads(l)
        titles[pr["id"]] = pr["title"]
    out = []
    pdir = os.path.join(ROOT, "coq", "Props")
    docs = sorted(os.listdir(os.path.join(ROOT, "docs")))
    for c in man["checks"]:
        pid = c["property_id"]
        files = sorted(f for f in os.listdir(pdir) if f.endswith('.v') and (f == pid + ".v" or f.startswith(pid + "_")))
        nth = 0
        for f in files:
            src = open(os.path.join(pdir, f)).read()
            nth += len(re.findall(r"^\s*(Theorem|Example)\s+\w+", src, re.M))
        out.append("### %s — %s\n" % (pid, titles.get(pid, "")))
        out.append("* **Pinned theorems**: %d in %s." % (nth, ", ".join("`coq/Props/%s`" % f for f in files)))
        out.append("* **Proved / claimed**: " + c["level_claimed"]["text"])
        out.append("* **Technique / tie**: " + c.get("technique", ""))
        out.append("* **Trusted, modelled-not-verified, not covered**: " + c["level_note"])
        out.append("* **Engines**: " + c.get("engine", "") + ".  Details (models, theorem tables, generator, monitors, sanity mutations): "
                   + ", ".join("`docs/%s`" % d for d in docs if d.lower().startswith(pid.lower()) or d.lower().startswith(pid.lower() + "_")) + "\n")
    for na in man.get("not_applicable", []):
        out.append("### %s — %s\n\nNot claimed: %s\n" % (na["property_id"], titles.get(na["property_id"], ""), na["reason"]))
    return "\n".join(out)


def seed_table():
    import json
    d = os.path.join(ROOT, "seeded")
    rows = []
    for sid in sorted(os.listdir(d)) if os.path.isdir(d) else []:
        mp = os.path.join(d, sid, "meta.json")
        if not os.path.exists(mp):
            continue
        m = json.load(open(mp))
        res = m.get("check_result", {})
        rows.append("| %s | %s | %s | %s | %s |" % (
            sid, (m.get("title") or m.get("what_it_breaks") or "")[:150].replace("|", "/"),
            (m.get("needs_to_manifest") or "")[:150].replace("|", "/"),
            res.get("verdict", "(not run yet)"), (res.get("how") or "")[:220].replace("|", "/")))
    return ("| id | change | needs to manifest | caught? | by which gate / clause |\n|---|---|---|---|---|\n" + "\n".join(rows)) if rows else "(none yet)"


def main():
    t = open(os.path.join(P, "DESIGN.md.in")).read()
    k, f = known_table()
    t = t.replace("@@FIXES@@", f + "\n\n" + read("fixes.md"))
    t = t.replace("@@PROPS@@", read("props_intro.md") + "\n\n" + props_section())
    t = t.replace("@@KNOWN@@", read("known_intro.md") + "\n\n" + k)
    t = t.replace("@@SEEDED@@", read("seeded.md").replace("@@SEEDTABLE@@", seed_table()))
    open(os.path.join(ROOT, "DESIGN.md"), "w").write(t)


if __name__ == "__main__":
    main()
