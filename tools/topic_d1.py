#!/usr/bin/env python3
"""quick differential run of the topic engine (developer aid): tools/topic_d1.py [n] [seed] [fixes]"""
import sys, os, collections
sys.path.insert(0, os.path.dirname(os.path.dirname(os.path.abspath(__file__))))
from vlib import common as C
from vlib.engines_topic import TopicEngine
n = int(sys.argv[1]) if len(sys.argv) > 1 else 3000
seed = int(sys.argv[2]) if len(sys.argv) > 2 else 1
eng = TopicEngine(sys.argv[3] if len(sys.argv) > 3 else None)
exe, err = C.build_harness("seqdrv", "topic")
if exe is None:
    print(err[-3000:]); sys.exit(1)
model = C.build_model("topic")
cases = eng.corpus() + [eng.gen(C.Rng(seed, eng.name, i), "quick") for i in range(n)]
a = C.run_lines(exe, cases, shards=16)
b = C.run_lines(model, cases, shards=16)
mis = 0
clauses = collections.Counter()
first = {}
for c, x, y in zip(cases, a, b):
    if x != y:
        mis += 1
        if mis <= 3:
            print("MISMATCH", c); print("  impl ", x); print("  model", y)
    for cl, d in eng.monitor(c, x):
        clauses[cl] += 1
        if cl not in first or len(c) < len(first[cl][0]):
            first[cl] = (c, d)
print("cases", len(cases), "mismatches", mis)
for cl, k in sorted(clauses.items()):
    print(" ", cl, k, "|", first[cl][0][:150], "|", first[cl][1][:160])
