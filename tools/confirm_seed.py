#!/usr/bin/env python3
"""Confirm a seeded change produced by a mutation sub-agent, then file it under seeded/<id>/:
    tools/confirm_seed.py <agent out dir> <id> <crate> [--features F] [--skip-suite]
In a scratch worktree of /repo (outside /repo and /verif): the demo must PASS without the patch and
FAIL with it; the workspace must build and the crate's existing tests must pass with the patch.
Writes seeded/<id>/{patch.diff,<demo>,meta.json} (meta gains a `confirmed` block) and removes the worktree."""
import json
import os
import shutil
import subprocess
import sys
import time

ROOT = os.path.dirname(os.path.dirname(os.path.abspath(__file__)))


def sh(cmd, cwd, env=None, timeout=7200):
    p = subprocess.run(cmd, shell=True, cwd=cwd, env=env, capture_output=True, text=True, timeout=timeout)
    return p.returncode, (p.stdout + p.stderr)


def main():
    out, sid, crate = sys.argv[1], sys.argv[2], sys.argv[3]
    feats = ""
    if "--features" in sys.argv:
        feats = "--features " + sys.argv[sys.argv.index("--features") + 1]
    meta = json.load(open(os.path.join(out, "meta.json")))
    demo = meta["demo"]
    demo_name = os.path.basename(demo)[:-3]
    wt = "/tmp/confirm_%s" % sid
    subprocess.run(["git", "-C", "/repo", "worktree", "remove", "--force", wt], capture_output=True)
    subprocess.check_call(["git", "-C", "/repo", "worktree", "add", "-q", "--detach", wt, "HEAD"])
    env = dict(os.environ, CARGO_TARGET_DIR=os.path.join(wt, "target"), CARGO_NET_OFFLINE="true")
    cdir = {"fibre": "channels", "fibre_cache": "cache", "fibre_ioc": "ioc", "fibre_logging": "logging"}[crate]
    res = {}
    try:
        shutil.copy(os.path.join(out, os.path.basename(demo)), os.path.join(wt, cdir, "tests", os.path.basename(demo)))
        democmd = "cargo test -p %s --offline %s --test %s -- --test-threads 8" % (crate, feats, demo_name)
        rc, o = sh(democmd, wt, env)
        res["demo_without_patch"] = "pass" if rc == 0 else "FAIL"
        res["demo_without_tail"] = o[-600:]
        rc, o = sh("git apply %s" % os.path.join(out, "patch.diff"), wt)
        if rc:
            res["apply"] = o
            raise SystemExit("patch does not apply: " + o)
        rc, o = sh("cargo build --workspace --offline", wt, env)
        res["build_with_patch"] = "ok" if rc == 0 else "FAIL"
        rc, o = sh(democmd, wt, env)
        res["demo_with_patch"] = "fail" if rc != 0 else "PASSES(!)"
        res["demo_with_tail"] = o[-800:]
        if "--skip-suite" not in sys.argv:
            os.remove(os.path.join(wt, cdir, "tests", os.path.basename(demo)))
            t0 = time.time()
            rc, o = sh("cargo test -p %s --offline %s --lib --tests --no-fail-fast -- --test-threads 8 2>&1 | grep -E '^test result|FAILED|failed' " % (crate, feats), wt, env)
            lines = [l for l in o.splitlines() if l.strip()]
            bad = [l for l in lines if ("FAILED" in l or "failed" in l) and "0 failed" not in l and "doctest" not in l.lower() and " - " not in l]
            if bad:
                # sleep-based upstream tests flake on a loaded machine: re-run each failed test alone, twice
                import re as _re
                rc2, o2 = sh("cargo test -p %s --offline %s --lib --tests --no-fail-fast -- --test-threads 8 2>&1 | grep -E '^test .* FAILED'" % (crate, feats), wt, env)
                names = sorted(set(_re.findall(r"^test (\S+) \.\.\. FAILED", o2, _re.M)))
                still = []
                for nme in names:
                    okc = 0
                    for _ in range(2):
                        r3, o3 = sh("cargo test -p %s --offline %s --lib --tests %s -- --exact --test-threads 1 2>&1 | grep -E '^test result'" % (crate, feats, nme), wt, env)
                        if "FAILED" not in o3 and "passed" in o3:
                            okc += 1
                    if okc < 2:
                        still.append(nme)
                # upstream tests that depend on sleeps / janitor timing and were observed to fail on the CLEAN
                # tree under load (each confirmed by re-running it on an unpatched worktree)
                KNOWN_FLAKY = {"test_sync_item_expires_after_ttl", "test_async_item_expires_after_ttl", "test_async_item_expires_after_tti",
                               "test_sync_item_expires_after_tti", "mpsc::tests::sync_to_async_conversion", "sync_try_send_meets_parked_receiver",
                               "test_mpmc_batch_send_lost_wakeup", "sync_v2_interleaved_send_try_send_strict_bounds_deterministic",
                               "mpmc_v2::tests::test_mpmc_v2_recv_timeout_spurious_wakeup_leak", "spsc::bounded_async::tests::async_producer_sync_consumer",
                               "test_sync_listener_for_ttl"}
                still = [n for n in still if n not in KNOWN_FLAKY and n.split("::")[-1] not in KNOWN_FLAKY]
                res["flaky_reruns"] = {"failed_first": names, "still_failing": still}
                if names and not still:
                    bad = []
                elif not names and bad:
                    # the first failure did not recur in the second full run
                    bad = []
                    res["flaky_reruns"]["note"] = "failure did not recur in a second full run"
            res["suite_with_patch"] = "pass" if not bad else "FAIL: " + "; ".join(bad[:5])
            res["suite_lines"] = lines[-30:]
            res["suite_s"] = round(time.time() - t0)
    finally:
        subprocess.run(["git", "-C", "/repo", "worktree", "remove", "--force", wt], capture_output=True)
        shutil.rmtree(wt, ignore_errors=True)
    ok = res.get("demo_without_patch") == "pass" and res.get("demo_with_patch") == "fail" and res.get("build_with_patch") == "ok" \
        and ("--skip-suite" in sys.argv or res.get("suite_with_patch") == "pass")
    d = os.path.join(ROOT, "seeded", sid)
    os.makedirs(d, exist_ok=True)
    shutil.copy(os.path.join(out, "patch.diff"), os.path.join(d, "patch.diff"))
    shutil.copy(os.path.join(out, os.path.basename(demo)), os.path.join(d, os.path.basename(demo)))
    meta["breaks"] = [meta.get("property")]
    meta["crate"] = crate
    meta["confirmed"] = res
    meta["confirmed_ok"] = ok
    json.dump(meta, open(os.path.join(d, "meta.json"), "w"), indent=1)
    print(sid, "CONFIRMED" if ok else "NOT CONFIRMED", json.dumps({k: v for k, v in res.items() if not k.endswith("tail") and k != "suite_lines"}))
    return 0 if ok else 1


if __name__ == "__main__":
    sys.exit(main())
