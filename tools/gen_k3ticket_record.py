#!/usr/bin/env python3
"""Generates the state record + setters of coq/Chan/TicketK3.v (printed to stdout; pasted into the
model file between the GENERATED markers).  Kept so the record can be regenerated if a field is added."""
FIELDS = [
    # ticket counters
    ("gtail", "N"), ("progress", "N"), ("drained", "N"), ("retired", "N"),
    # chunk table: entry j -> resident chunk id; physical slot q = j*cc+i -> state byte / payload cell
    ("ids", "N -> N"), ("sstate", "N -> N"), ("sdata", "N -> option val"),
    # Head (under the head lock)
    ("hcid", "N"), ("hidx", "N"), ("hpos", "N"), ("unpub", "N"), ("hlock", "bool"),
    # lifecycle
    ("scount", "N"), ("rdropped", "bool"),
    # the four waiter mutexes (sync/async recv waiter slot, sync/async send waiter queue)
    ("lk_srw", "bool"), ("lk_arw", "bool"), ("lk_ssw", "bool"), ("lk_asw", "bool"),
    # producer threads (by index)
    ("ppc", "nat -> ppc_t"), ("pprog", "nat -> list pop"), ("pseq", "nat -> N"), ("presl", "nat -> list pres"),
    # the consumer thread
    ("cpc", "cpc_t"), ("cprog", "list cop"), ("cresl", "list cres"), ("chand", "list val"),
    # ghost
    ("tk", "N -> tstat"), ("received", "list val"), ("bad", "bool"),
]
print("Record st := mkSt {")
print(";\n".join("  %s : %s" % f for f in FIELDS))
print("}.\n")
names = [f[0] for f in FIELDS]
for n, t in FIELDS:
    args = " ".join("v" if m == n else "(%s s)" % m for m in names)
    print("Definition set_%s (s : st) (v : %s) : st :=\n  mkSt %s." % (n, t, args))
print()
print("Ltac st_cbn := cbn [%s\n  %s] in *." % (" ".join(names), " ".join("set_" + n for n in names)))
print("Ltac st_goal := cbn [%s\n  %s]." % (" ".join(names), " ".join("set_" + n for n in names)))
print("Ltac st_in H := cbn [%s\n  %s] in H." % (" ".join(names), " ".join("set_" + n for n in names)))
