#!/usr/bin/env python3
"""Helper used while writing coq/Chan/*Ops.v: regenerate the `set_<field>` definitions of the flat
state record `st` between the markers (* SETTERS-BEGIN *) / (* SETTERS-END *) from the Record text.
usage: tools/gen_setters.py coq/Chan/SpscOps.v"""
import re
import sys


def strip_comments(src):
    out, depth, i = [], 0, 0
    while i < len(src):
        if src.startswith("(*", i):
            depth += 1
            i += 2
        elif src.startswith("*)", i) and depth:
            depth -= 1
            i += 2
        else:
            if not depth:
                out.append(src[i])
            i += 1
    return "".join(out)


def main(path):
    src = open(path).read()
    m = re.search(r"Record st := \{(.*?)\}\.", src, re.S)
    body = strip_comments(m.group(1))
    fields = []
    for part in body.split(";"):
        part = " ".join(part.split())
        if not part:
            continue
        f, t = part.split(":", 1)
        fields.append((f.strip(), t.strip()))
    lines = []
    for f, t in fields:
        b = "; ".join("%s := %s" % (g, "v" if g == f else "%s s" % g) for g, _ in fields)
        lines.append("Definition set_%s (v : %s) (s : st) : st := {| %s |}." % (f, t, b))
    new = "(* SETTERS-BEGIN *)\n" + "\n".join(lines) + "\n(* SETTERS-END *)"
    if "(* SETTERS-BEGIN *)" in src:
        src = re.sub(r"\(\* SETTERS-BEGIN \*\).*?\(\* SETTERS-END \*\)", lambda _: new, src, flags=re.S)
    else:
        src = src[:m.end()] + "\n\n" + new + src[m.end():]
    open(path, "w").write(src)
    print("%d fields" % len(fields))


if __name__ == "__main__":
    main(sys.argv[1])
