#!/usr/bin/env python3
"""one-off helper: print Coq setter definitions for a flat record (used to write coq/Chan/*Ops.v)"""
import sys
def gen(rec, fields):
    out = []
    for f, t in fields:
        body = "; ".join("%s := %s" % (g, "v" if g == f else "%s s" % g) for g, _ in fields)
        out.append("Definition set_%s (v : %s) (s : %s) : %s := {| %s |}." % (f, t, rec, rec, body))
    return "\n".join(out)
if __name__ == "__main__":
    rec = sys.argv[1]
    fields = [a.split(":", 1) for a in sys.argv[2:]]
    print(gen(rec, fields))
