#!/usr/bin/env python3
"""dev helper: tools/d1_try.py <engine module> <n> [seed] — run corpus + n generated cases through impl
and model, print mismatches and monitor hits (no gates)."""
import sys, os, importlib, collections
sys.path.insert(0, os.path.dirname(os.path.dirname(os.path.abspath(__file__))))
from vlib import common as C
mod = importlib.import_module("vlib." + sys.argv[1])
eng = mod.ENGINE
n = int(sys.argv[2]); seed = int(sys.argv[3]) if len(sys.argv) > 3 else 1
tier = sys.argv[4] if len(sys.argv) > 4 else "quick"
impl = os.path.join(C.TARGET, "release", eng.exe)
model = os.path.join(C.OCAML_BUILD, "modelrun_" + eng.exe)
cases = list(eng.corpus()) + [eng.gen(C.Rng(seed, eng.name, i), tier) for i in range(n)]
a = C.run_lines(impl, cases, shards=16)
b = C.run_lines(model, cases, shards=16)
mis = 0; hits = collections.Counter(); ex = {}
ops = collections.Counter(); res = collections.Counter()
for c, x, y in zip(cases, a, b):
    for op in eng.split(c)[1]: ops[op[0]] += 1
    for o in x.split(";"):
        t = o.split()
        if t: res[" ".join(w for w in t[:2] if not w[0].isdigit() and w[0] not in "[@!~")] += 1
    if x != y:
        mis += 1
        if mis <= 5:
            print("MISMATCH\n case :", c, "\n impl :", x, "\n model:", y)
    for cl, d in eng.monitor(c, x):
        hits[cl] += 1
        ex.setdefault(cl, (c, x, d))
print("cases", len(cases), "mismatches", mis)
print("ops", dict(ops))
print("results", dict(res))
for cl, k in hits.items():
    print("HIT", cl, k, "\n   e.g.", ex[cl][2], "\n   case:", ex[cl][0][:300], "\n   out :", ex[cl][1][:300])
