#!/usr/bin/env python3
"""Regenerate /verif/MANIFEST.json from vlib/props/Cxx.py (MANIFEST dicts) — run after adding a property."""
import importlib
import json
import os
import sys

ROOT = os.path.dirname(os.path.dirname(os.path.abspath(__file__)))
sys.path.insert(0, ROOT)
props = [json.loads(l) for l in open(os.path.join(ROOT, "properties.jsonl"))]
checks, engines, na = [], {}, []
NA_REASONS = {}
for p in props:
    pid = p["id"]
    path = os.path.join(ROOT, "vlib", "props", pid + ".py")
    has_thms = any(f == pid + ".v" or f.startswith(pid + "_") for f in os.listdir(os.path.join(ROOT, "coq", "Props")))
    if not os.path.exists(path) or not has_thms:
        na.append({"property_id": pid, "reason": NA_REASONS.get(pid, "not yet built in this phase (planned, DESIGN.md §12); no claim made")})
        continue
    m = importlib.import_module("vlib.props." + pid).MANIFEST
    checks.append({
        "property_id": pid,
        "quick_cmd": "./check %s --tier quick" % pid,
        "thorough_cmd": "./check %s --tier thorough" % pid,
        "evidence_file": "/verif/evidence/%s.json" % pid,
        "replay_cmd_template": "./check %s --replay {path}" % pid,
        "engine": m["engine"],
        "technique": m["technique"],
        "level_claimed": {"category": "proof", "text": m["text"], "design_ref": m["design_ref"]},
        "level_note": m["note"],
    })
    for e in m.get("engines", []):
        ent = engines.setdefault(e["name"], {"name": e["name"], "path": e["path"], "serves_properties": [], "kind_free_text": e["kind"]})
        if pid not in ent["serves_properties"]:
            ent["serves_properties"].append(pid)
hooks_path = os.path.join(ROOT, "hooks.json")
hooks = json.load(open(hooks_path))
man = {
    "version": 1,
    "setup_cmd": "./setup.sh",
    "hooks": hooks,
    "engines": list(engines.values()),
    "checks": checks,
    "not_applicable": na,
    "notes": "Built engine by engine; a property enters `checks` only once its minimum theorem set and tie exist (DESIGN.md §12.1). "
             "Every check: static gate (no Admitted/Axiom/...), proof gate (full .vo build + Print Assumptions), tie gate "
             "(model vs implementation on generated cases + property monitors), verdict per DESIGN.md §6.",
}
json.dump(man, open(os.path.join(ROOT, "MANIFEST.json"), "w"), indent=1)
print("checks:", [c["property_id"] for c in checks], "n/a:", [x["property_id"] for x in na])
