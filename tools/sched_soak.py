#!/usr/bin/env python3
"""Soak the D2 scenario engines (vlib/engines_sched.py) outside ./check:
    tools/sched_soak.py [--flavours spmc,topic,...] [--seeds 1,2,3] [--cases 40] [--runs 100] [--tier quick]
generates the corpus + `cases` scenarios per flavour and seed exactly like the check does (same PRNG
derivation), runs them through the scen binary built for VERIF_REPO, and prints one summary line per
flavour (scenarios, schedules, FAIL lines).  Exit 1 if any scenario fails.  Used to establish that a new
flavour's monitors raise no false alarm on the unchanged tree before it is wired into a property."""
import os
import re
import sys
import time

ROOT = os.path.dirname(os.path.dirname(os.path.abspath(__file__)))
sys.path.insert(0, ROOT)
from vlib import common as C          # noqa: E402
from vlib import engines_sched as E   # noqa: E402


def arg(name, default):
    return sys.argv[sys.argv.index(name) + 1] if name in sys.argv else default


def main():
    flavours = arg("--flavours", ",".join(E.FLAVOURS)).split(",")
    seeds = [int(x) for x in arg("--seeds", "1,2,3").split(",")]
    ncases = int(arg("--cases", "40"))
    runs = arg("--runs", None)
    tier = arg("--tier", "quick")
    exe, err = C.build_harness("sched", "scen")
    if exe is None:
        print(err[-3000:])
        return 2
    bad = 0
    for f in flavours:
        eng = E.SchedEngine(f, "soak")
        cases = []
        for seed in seeds:
            cases += eng.corpus() if seed == seeds[0] else []
            for i in range(ncases):
                line = eng.gen(C.Rng(seed, eng.name, i), tier)
                if runs:
                    h = line.split("|", 1)
                    t = h[0].split()
                    t[2] = runs
                    line = " ".join(t) + " |" + h[1]
                cases.append(line)
        t0 = time.time()
        out = C.run_lines(exe, cases, shards=12, per_shard=4)
        nsched = 0
        fails = []
        skipped = 0
        for c, o in zip(cases, out):
            m = re.match(r"ok runs=(\d+)", o)
            if "skipped=" in o:
                skipped += 1
            elif m:
                nsched += int(m.group(1))
            else:
                fails.append((c, o))
        print("%-8s scenarios=%d schedules=%d skipped=%d fails=%d  %.1fs" % (f, len(cases), nsched, skipped, len(fails), time.time() - t0), flush=True)
        for c, o in fails[:6]:
            print("    CASE ", c)
            print("    OUT  ", o[:700])
        bad += len(fails)
    return 1 if bad else 0


if __name__ == "__main__":
    sys.exit(main())
