(* eng_cache.ml — line driver for the E-CACHE K2 model (coq/Cache/CacheOps.v).
   engine exe: modelrun_cache
   case:   <pol> <shards> <cap|0> <ttl_ns|0> <tti_ns|0> <wheel> <listener 0|1> <opp 0|1> <intro 0|1> <now0_ns> <handle s|a> op*
   ops:    i K V C | t K V C D | g K | f K | p K | e K V C | ew K V C | eo K | c K F | tc K F | cv K F | tv K F
           | r K | x K | C | mg KS | mi K:V:C,.. | mr KS | mx KS | m | a D | $ | y V
           (F = sV | k ; KS = comma list or -)
   output: one token group per op, joined by " ; " (same format as harness/seqdrv/src/bin/cache.rs) *)
open Model_cache
open Conv_cache

let sentinel = 1000

let policy_of = function
  | "lru" -> lruP
  | "fifo" -> fifoP
  | "sieve" -> sieveP
  | "clock" -> clockP
  | "null" -> nullP
  | s -> failwith ("unknown policy " ^ s)

let ni s = n_of_int (int_of_string s)
let opt_n s = if s = "0" then None else Some (ni s)

let klist s = if s = "-" then [] else List.map ni (String.split_on_char ',' s)

let items s =
  if s = "-" then []
  else List.map (fun it -> match String.split_on_char ':' it with
      | [k; v; c] -> ((ni k, ni v), ni c)
      | _ -> failwith ("bad item " ^ it)) (String.split_on_char ',' s)

let cfun s =
  if s = "k" then FKeep
  else if String.length s > 1 && s.[0] = 's' then FSet (ni (String.sub s 1 (String.length s - 1)))
  else failwith ("bad closure " ^ s)

type pop = Plain of op | Sync of n

let rec parse_ops asy = function
  | [] -> []
  | "i" :: k :: v :: c :: r -> Plain (OInsert (ni k, ni v, ni c)) :: parse_ops asy r
  | "t" :: k :: v :: c :: d :: r -> Plain (OInsertTtl (ni k, ni v, ni c, ni d)) :: parse_ops asy r
  | "g" :: k :: r -> Plain (OGet (ni k)) :: parse_ops asy r
  | "f" :: k :: r -> Plain (OFetch (ni k)) :: parse_ops asy r
  | "p" :: k :: r -> Plain (OPeek (ni k)) :: parse_ops asy r
  | ("e" | "ew") :: k :: v :: c :: r -> Plain (OEntryOrInsert (ni k, ni v, ni c)) :: parse_ops asy r
  | "eo" :: k :: r -> Plain (OEntryGet (ni k)) :: parse_ops asy r
  | ("c" | "tc") :: k :: f :: r -> Plain (OCompute (ni k, cfun f)) :: parse_ops asy r
  | ("cv" | "tv") :: k :: f :: r -> Plain (OComputeVal (ni k, cfun f)) :: parse_ops asy r
  | "r" :: k :: r -> Plain (ORemove (ni k)) :: parse_ops asy r
  | "x" :: k :: r -> Plain (OInvalidate (ni k)) :: parse_ops asy r
  | "C" :: r -> Plain OClear :: parse_ops asy r
  | "mg" :: ks :: r -> Plain (if asy then OMultiGetAsync (klist ks) else OMultiGet (klist ks)) :: parse_ops asy r
  | "mi" :: its :: r -> Plain (OMultiInsert (items its)) :: parse_ops asy r
  | "mr" :: ks :: r -> Plain (OMultiRemove (klist ks)) :: parse_ops asy r
  | "mx" :: ks :: r -> Plain (OMultiInvalidate (klist ks)) :: parse_ops asy r
  | "m" :: r -> Plain (OMaint []) :: parse_ops asy r
  | "a" :: d :: r -> Plain (OAdvance (ni d)) :: parse_ops asy r
  | "$" :: r -> Plain OCost :: parse_ops asy r
  | "y" :: v :: r -> Sync (ni v) :: parse_ops asy r
  | t :: _ -> failwith ("bad op token " ^ t)

let si x = string_of_int (int_of_n x)

(* u64 values (current_cost can wrap): print through Int64, unsigned *)
let rec i64_of_pos = function
  | XH -> 1L
  | XO q -> Int64.shift_left (i64_of_pos q) 1
  | XI q -> Int64.logor (Int64.shift_left (i64_of_pos q) 1) 1L
let su64 = function N0 -> "0" | Npos p -> Printf.sprintf "%Lu" (i64_of_pos p)

let show_pairs l =
  let l = List.sort compare (List.map (fun (k, v) -> (int_of_n k, int_of_n v)) l) in
  "[" ^ String.concat "," (List.map (fun (k, v) -> string_of_int k ^ ":" ^ string_of_int v) l) ^ "]"

let show_res = function
  | RUnit -> "ok"
  | ROpt None -> "none"
  | ROpt (Some v) -> si v
  | RBool true -> "true"
  | RBool false -> "false"
  | RVal v -> si v
  | RPairs l -> show_pairs l
  | RCost c -> "c=" ^ su64 c

let reason_str = function Capacity -> "C" | Expired -> "E" | Invalidated -> "I"

(* which patches the model assumes: coq/Cache/CacheOps.v impl_fixes, unless the
   environment says otherwise (scratch-copy testing of a patched /repo:
   VERIF_CACHE_FIXES="15,16,18,28,33" | "all" | "none") *)
let fixes_of_env () =
  match Sys.getenv_opt "VERIF_CACHE_FIXES" with
  | None | Some "" -> impl_fixes
  | Some "all" -> all_fixes
  | Some "none" -> no_fixes
  | Some s ->
      let l = String.split_on_char ',' s in
      let has x = List.mem x l in
      { fix_f15 = has "15"; fix_f16 = has "16"; fix_f18 = has "18"; fix_f28 = has "28"; fix_f33 = has "33" }

let rec drop n l = if n <= 0 then l else match l with [] -> [] | _ :: t -> drop (n - 1) t

let run (toks : string list) : string =
  match toks with
  | pol :: n :: cap :: ttl :: tti :: wheel :: lis :: opp :: intro :: now0 :: h :: rest ->
      let p = policy_of pol in
      let cfg = { c_shards = ni n;
                  c_cap = (if cap = "0" then u64_MAX else ni cap);
                  c_ttl = opt_n ttl; c_tti = opt_n tti;
                  c_wheel = ni wheel; c_tick = n_of_int 1000000000;
                  c_listener = (lis = "1"); c_track = (pol <> "null");
                  c_opp = (opp = "1"); c_intro = (intro = "1");
                  c_fix = fixes_of_env () } in
      let st = ref (init p (ni now0)) in
      let seen = ref 0 in
      let outs = List.map (fun o ->
          match o with
          | Plain o -> let (s', r) = step p cfg !st o in st := s'; show_res r
          | Sync v ->
              let (s1, _) = step p cfg !st (OInsert (n_of_int sentinel, v, N0)) in
              let (s2, _) = step p cfg s1 (ORemove (n_of_int sentinel)) in
              let (s3, _) = step p cfg s2 (ODeliver u64_MAX) in
              st := s3;
              let log = s3.st_log in
              let fresh = drop !seen log in
              seen := List.length log;
              let l = List.sort compare
                  (List.map (fun nt -> (int_of_n nt.n_key, int_of_n nt.n_val, reason_str nt.n_reason)) fresh) in
              "n[" ^ String.concat "," (List.map (fun (k, v, r) ->
                  string_of_int k ^ ":" ^ string_of_int v ^ ":" ^ r) l) ^ "]") (parse_ops (h = "a") rest) in
      String.concat " ; " outs
  | _ -> failwith "short cache case header"

let () = main run
