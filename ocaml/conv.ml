(* conv.ml — conversions between OCaml ints/strings and the extracted Coq
   datatypes (nat, positive, N, Z stay Coq datatypes; see Extract.v). *)
open MODEL

let rec pos_of_int (i : int) : positive =
  if i <= 1 then XH
  else if i land 1 = 1 then XI (pos_of_int (i lsr 1))
  else XO (pos_of_int (i lsr 1))

let n_of_int (i : int) : n = if i <= 0 then N0 else Npos (pos_of_int i)

let rec int_of_pos (p : positive) : int =
  match p with
  | XH -> 1
  | XO q -> 2 * int_of_pos q
  | XI q -> 2 * int_of_pos q + 1

let int_of_n (x : n) : int = match x with N0 -> 0 | Npos p -> int_of_pos p

let rec nat_of_int (i : int) : nat = if i <= 0 then O else S (nat_of_int (i - 1))

let int_of_nat (x : nat) : int =
  let rec go acc = function O -> acc | S m -> go (acc + 1) m in
  go 0 x

let split_ws (s : string) : string list =
  List.filter (fun t -> t <> "") (String.split_on_char ' ' s)

(* line driver: one case per line on stdin, one result line per case on stdout *)
let main (run : string list -> string) : unit =
  try
    while true do
      let line = input_line stdin in
      let toks = split_ws line in
      (match toks with
       | [] -> print_endline ""
       | _ -> print_endline (try run toks with e -> "MODEL-ERROR " ^ Printexc.to_string e))
    done
  with End_of_file -> ()
