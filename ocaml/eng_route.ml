(* eng_route.ml — line driver for the E-ROUTE model (coq/Log/Route.v).
   engine exe: modelrun_route
   case / output: see harness/seqdrv/src/bin/route.rs (same grammar, same canonical output).
   Parsing and printing only: which appender receives which event is decided by the extracted
   [deliveries_of] (= model_delivers through both entry points).  Events after the scripted
   shutdown point `S` are not delivered (the channels are closed: Log/Pipeline.v). *)
open Model_route
open Conv_route

let targets = [ "app"; "app::db"; "app::db::pool"; "app::db::pool::conn"; "apple"; "apple::x"; "ap";
                "app:"; "app::"; "app:::x"; "app::dbx"; "other"; "other::x"; "root"; "root::x"; "";
                "::x"; "noisy"; "noisy::x"; "app::x"; "a"; "a::x"; "a::b::x"; "aa::x" ]

exception Bad

let uname s = if s = "~" then "" else s
let bytes_of (s : string) : n list = List.init (String.length s) (fun i -> n_of_int (Char.code s.[i]))

let app_id (s : string) : int =
  let l = String.length s in
  if l < 2 || l > 4 || s.[0] <> 's' then raise Bad;
  String.iteri (fun i c -> if i > 0 && (c < '0' || c > '9') then raise Bad) s;
  int_of_string (String.sub s 1 (l - 1))

let filter_of = function
  | "off" -> Some OFF | "error" -> Some (UPTO ERROR) | "warn" -> Some (UPTO WARN)
  | "info" -> Some (UPTO INFO) | "debug" -> Some (UPTO DEBUG) | "trace" -> Some (UPTO TRACE)
  | _ -> None                       (* the real loader rejects it: CONFIG-ERROR *)

let level_of = function
  | "error" -> ERROR | "warn" -> WARN | "info" -> INFO | "debug" -> DEBUG | "trace" -> TRACE
  | _ -> raise Bad

let int_tok s = match int_of_string_opt s with Some i when i >= 0 -> i | _ -> raise Bad

let rec take n l = if n = 0 then ([], l) else match l with [] -> raise Bad | x :: t -> let (a, b) = take (n - 1) t in (x :: a, b)

type parsed = {
  mutable apps : (int * int) list;                 (* id, capacity *)
  mutable loggers : (string * lfilter option * bool * int list) list;
  mutable ev1 : (int * int * string * level) list;  (* thread, id, target, level *)
  mutable threads : int list;
}

let parse (toks : string list) : parsed =
  let p = { apps = []; loggers = []; ev1 = []; threads = [] } in
  let id = ref 0 and after = ref false in
  let rec go = function
    | [] -> ()
    | "A" :: name :: kind :: cap :: pol :: r ->
        if kind <> "c" && kind <> "f" then raise Bad;
        if pol <> "b" && pol <> "d" then raise Bad;
        p.apps <- p.apps @ [ (app_id name, int_tok cap) ];
        go r
    | "L" :: name :: lvl :: add :: n :: r ->
        let add = (match add with "1" -> true | "0" -> false | _ -> raise Bad) in
        let (apps, r') = take (int_tok n) r in
        p.loggers <- p.loggers @ [ (uname name, filter_of lvl, add, List.map app_id apps) ];
        go r'
    | "E" :: th :: target :: lvl :: r ->
        let t = uname target in
        if not (List.mem t targets) then raise Bad;
        let th = int_tok th and lv = level_of lvl in
        if not (List.mem th p.threads) then p.threads <- p.threads @ [ th ];
        if not !after then p.ev1 <- p.ev1 @ [ (th, !id, t, lv) ];
        incr id;
        go r
    | "S" :: r -> after := true; go r
    | "D" :: k :: r -> ignore (int_tok k); go r      (* consumer speed: no effect on what is delivered *)
    | _ -> raise Bad
  in
  go toks;
  p

let rec has_dup = function [] -> false | x :: t -> List.mem x t || has_dup t

let is_race m = String.length m >= 1 && (m.[0] = 'x' || m.[0] = 'y')

let run (toks : string list) : string =
  match toks with
  | "route" :: mode :: _ when is_race mode -> "RACE-NOT-MODELLED"   (* monitor-only scenarios *)
  | "route" :: mode :: rest when mode = "s" || mode = "d" -> (
      match (try Some (parse rest) with Bad -> None) with
      | None -> "BAD-CASE"
      | Some p ->
          if has_dup (List.map fst p.apps) || has_dup (List.map (fun (n, _, _, _) -> n) p.loggers) then "DUP-KEY"
          else if List.exists (fun (_, cap) -> cap = 0) p.apps then "CONFIG-ERROR"
          else if List.exists (fun (_, f, _, _) -> f = None) p.loggers then "CONFIG-ERROR"
          else
            let cfg =
              { cappenders = List.map (fun (i, _) -> n_of_int i) p.apps;
                cloggers =
                  List.map
                    (fun (name, f, add, apps) ->
                      { lname = bytes_of name;
                        llevel = (match f with Some f -> f | None -> OFF);
                        ladd = add;
                        lapps = List.map n_of_int apps })
                    p.loggers }
            in
            if not (wf_cfg cfg) then "CONFIG-ERROR"
            else
              let evs = List.map (fun (th, id, t, lv) -> (((n_of_int th, n_of_int id), bytes_of t), lv)) p.ev1 in
              let threads = List.sort compare p.threads in
              let ids = List.sort compare (List.map fst p.apps) in
              let parts =
                List.map
                  (fun a ->
                    let ds = deliveries_of cfg (n_of_int a) evs in
                    let per_thread th =
                      let items =
                        List.filter_map
                          (fun ((t, id), v) ->
                            if int_of_n t = th then
                              Some (string_of_int (int_of_n id) ^ (match v with ViaLog -> "l" | ViaTracing -> "t"))
                            else None)
                          ds
                      in
                      " T" ^ string_of_int th ^ "=" ^ (if items = [] then "-" else String.concat "," items)
                    in
                    "s" ^ string_of_int a ^ ":" ^ String.concat "" (List.map per_thread threads))
                  ids
              in
              String.concat " ; " (parts @ [ "END=disc" ]))
  | _ -> "BAD-CASE"

let () = main run
