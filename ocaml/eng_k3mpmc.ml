(* eng_k3mpmc.ml — D2 trace check ("tracecheck") and D3 table for the K3' bounded-MPMC model
   (coq/Chan/MpmcK3.v).   engine exe: modelrun_k3mpmc
   case (T):  <cap> | P s ts | C r tr rt D | ... || t0=[ok:101,..] t1=[..] || <event> <event> ...
              event = t<tid>,kind,var,ord,ordfail,a,b,r,ok,file      (ALL traced events)
   output:    ok <n raw events> done          the trace is an execution of the model, same API results
              reject at <i>: model expected <e'>, trace has <e>
   LAYERING.  Events of the HybridMutex protecting `internal` (variables mutex.state#0,
   wait_queue.*; yield / park / unpark / spin issued from mutex.rs / wait_queue.rs) belong to the
   lock layer (engine k3lock): they are skipped, except the two that delimit a critical section:
   the successful compare_exchange on mutex.state that sets LOCKED (model event ELock, enabled
   only while the model's lock is free) and the fetch_and(!LOCKED) (EUnlock).
   Variables: `mod.closed#k` is bound to the handle of the first thread that touches it;
   `sync_impl.done_flag#k` is bound to the (thread, generation) the model expects at its first
   access; both bindings must stay injective.  The choice of each step (spin / yield / park /
   spurious return / deadline) is read off the trace; the decisive check is the extracted strict
   `replay` (Conc.v), run chunk by chunk from re-tabulated states.
   case (K):  K <function id> <row>*   ->  skel <function id> :: <model rows>   (D3)
   case (S):  S                         ->  search ok *)
open Model_k3mpmc
open Conv_k3mpmc

type raw = { tid : int; kind : string; var : string; o : string; f : string; a : string; b : string; r : string;
             ok : bool; file : string }

let parse_event (tok : string) : raw =
  match String.split_on_char ',' tok with
  | [t; kind; var; o; f; a; b; r; ok; file] ->
      { tid = int_of_string (String.sub t 1 (String.length t - 1)); kind; var; o; f; a; b; r; ok = (ok = "1"); file }
  | _ -> failwith ("bad event: " ^ tok)

let ord_of = function
  | "Rlx" -> Rlx | "Acq" -> Acq | "Rel" -> Rel | "AcqRel" -> AcqRel | "SeqCst" -> SeqCst
  | s -> failwith ("bad ordering " ^ s)
let ord_s = function Rlx -> "Rlx" | Acq -> "Acq" | Rel -> "Rel" | AcqRel -> "AcqRel" | SeqCst -> "SeqCst"

let n_s x = string_of_int (int_of_n x)
let nat_s x = string_of_int (int_of_nat x)
let b_s b = if b then "1" else "0"
let ev_s = function
  | ELdClosed (o, r) -> Printf.sprintf "load closed %s r=%s" (ord_s o) (b_s r)
  | ECasClosed (o, f, k) -> Printf.sprintf "cas closed %s/%s ok=%s" (ord_s o) (ord_s f) (b_s k)
  | ELock -> "lock internal (acquired)"
  | EUnlock -> "unlock internal"
  | ELdFlag (u, g, o, r) -> Printf.sprintf "load done_flag(t%s,#%s) %s r=%s" (nat_s u) (nat_s g) (ord_s o) (n_s r)
  | ECasFlag (u, g, o, f, a, b, r, k) ->
      Printf.sprintf "cas done_flag(t%s,#%s) %s/%s a=%s b=%s r=%s ok=%s" (nat_s u) (nat_s g) (ord_s o) (ord_s f) (n_s a) (n_s b) (n_s r) (b_s k)
  | EPark -> "park" | EParkT -> "park_timeout" | EUnpark u -> "unpark t" ^ nat_s u | ESpin -> "spin" | EYield -> "yield"

let starts_with p s = String.length s >= String.length p && String.sub s 0 (String.length p) = p
let num s = n_of_int (int_of_string s)

type cls = Skip | Acquire | Release | Chan

let classify (e : raw) : cls =
  if starts_with "mutex.state#" e.var then begin
    if e.var <> "mutex.state#0" then failwith ("unexpected mutex instance " ^ e.var);
    if e.kind = "cas" && e.ok && (int_of_string e.b) land 1 = 1 && (int_of_string e.a) land 1 = 0 then Acquire
    else if e.kind = "fand" && e.a = "18446744073709551614" then Release
    else Skip
  end
  else if starts_with "wait_queue." e.var then Skip
  else if e.file = "mutex.rs" || e.file = "wait_queue.rs" then Skip
  else Chan

let op_of_p = function "s" -> Send | "ts" -> TrySend | o -> failwith ("bad producer op " ^ o)
let op_of_c = function "r" -> Recv | "tr" -> TryRecv | "rt" -> RecvT | "D" -> Drain | o -> failwith ("bad consumer op " ^ o)

let split_on sep toks =
  let rec go cur acc = function
    | [] -> List.rev (List.rev cur :: acc)
    | x :: r when x = sep -> go [] (List.rev cur :: acc) r
    | x :: r -> go (x :: cur) acc r
  in
  go [] [] toks

let choices = [CGo; CSpin; CYield; CTimeout; CSpur]

(* what the thread's next raw event must look like, given its pc *)
type expect = XApi | XLock | XAny
let expect_of_pc = function
  | Idle -> XApi
  | SLock _ | SRegLock | SUnlLock _ | RLock _ | RRegLock _ | TCancelLock | RUnlLock _ | DLock -> XLock
  | _ -> XAny

let res_s (prods : int array) (r : res) : string =
  let id (v : id) = let (p, s) = v in Printf.sprintf "%d" ((1 + prods.(int_of_nat p)) * 100 + int_of_nat s) in
  match r with
  | POk v -> "ok:" ^ id v | PFull v -> "full:" ^ id v | PClosed v -> "closed:" ^ id v | PGone v -> "gone:" ^ id v
  | RVal v -> "val:" ^ id v | REmp -> "empty" | RDis -> "disc" | RTimeout -> "timeout"

let run_trace (cap : int) (threads : (bool * string list) list) (impl_res : string) (evtoks : string list) : string =
  let progs = List.map (fun (p, ops) -> if p then TProd (List.map op_of_p ops) else TCons (List.map op_of_c ops)) threads in
  let nthr = List.length progs in
  (* producer index of each thread (scen numbers payloads (pi+1)*100 + seq) *)
  let prods = Array.make (max nthr 1) (-1) in
  let _ = List.fold_left (fun (i, pi) (p, _) -> if p then (prods.(i) <- pi; (i + 1, pi + 1)) else (i + 1, pi)) (0, 0) threads in
  let capn = nat_of_int cap in
  let cf = cfg_fixed in
  let evs = Array.of_list (List.map parse_event evtoks) in
  let n = Array.length evs in
  let nxt = Array.make n (-1) in
  let last = Hashtbl.create 8 in
  for i = n - 1 downto 0 do
    let t = evs.(i).tid in
    (match Hashtbl.find_opt last t with Some j -> nxt.(i) <- j | None -> ());
    Hashtbl.replace last t i
  done;
  let s0 = init0 progs in
  let tab : 'a. (nat -> 'a) -> (nat -> 'a) -> nat -> 'a = fun f d ->
    let a = Array.init nthr (fun i -> f (nat_of_int i)) in
    fun t -> let i = int_of_nat t in if i < nthr then a.(i) else d t in
  let compact (s : st) : st =
    { s with flag = tab s.flag s0.flag; gen = tab s.gen s0.gen; tok = tab s.tok s0.tok; hcl = tab s.hcl s0.hcl;
             pcs = tab s.pcs s0.pcs; prog = tab s.prog s0.prog; pseq = tab s.pseq s0.pseq } in
  let s = ref s0 in
  let start = ref s0 in
  let tr = ref [] in
  let failed = ref None in
  let closed_of = Hashtbl.create 8 in       (* mod.closed#k -> tid *)
  let closed_rev = Hashtbl.create 8 in
  let flag_of = Hashtbl.create 16 in        (* done_flag#k -> (u, g) *)
  let flag_rev = Hashtbl.create 16 in
  let nmodel = ref 0 in
  let verify upto =
    (match replay_from capn cf progs !start (List.rev !tr) with
     | Inl (Some sf) -> s := compact sf; start := !s; tr := []
     | Inl None -> failed := Some "reject: replay returned no state"; raise Exit
     | Inr k -> failed := Some (Printf.sprintf "reject at %d: extracted replay refused the step" (upto - int_of_nat k)); raise Exit) in
  let expected t =
    let l = List.sort_uniq compare (List.filter_map (fun c -> match peek capn cf !s t c with Some a -> Some (ev_s a) | None -> None) choices) in
    if l = [] then "(thread not enabled)" else String.concat " | " l in
  (try
     for i = 0 to n - 1 do
       let e = evs.(i) in
       let t = nat_of_int e.tid in
       let reject what =
         failed := Some (Printf.sprintf "reject at %d: model expected t%d %s, trace has t%d %s" i e.tid (expected t) e.tid what);
         raise Exit in
       let mev : ev option =
         match classify e with
         | Skip -> None
         | Acquire -> Some ELock
         | Release -> Some EUnlock
         | Chan ->
             if starts_with "mod.closed#" e.var then begin
               (match Hashtbl.find_opt closed_of e.var with
                | Some u -> if u <> e.tid then reject (Printf.sprintf "%s %s: the handle flag of t%d" e.kind e.var u)
                | None ->
                    if Hashtbl.mem closed_rev e.tid then reject (Printf.sprintf "%s %s: a second handle flag for this thread" e.kind e.var);
                    Hashtbl.add closed_of e.var e.tid; Hashtbl.add closed_rev e.tid e.var);
               match e.kind with
               | "load" -> Some (ELdClosed (ord_of e.o, e.r <> "0"))
               | "cas" ->
                   if not (e.a = "0" && e.b = "1") then reject (Printf.sprintf "cas %s a=%s b=%s" e.var e.a e.b);
                   Some (ECasClosed (ord_of e.o, ord_of e.f, e.ok))
               | k -> reject (k ^ " " ^ e.var)
             end
             else if starts_with "sync_impl.done_flag#" e.var then begin
               let ug =
                 match Hashtbl.find_opt flag_of e.var with
                 | Some x -> x
                 | None ->
                     (* first access: the record the model expects this thread to touch now *)
                     let cands = List.sort_uniq compare (List.filter_map (fun c ->
                         match peek capn cf !s t c with
                         | Some (ELdFlag (u, g, _, _)) | Some (ECasFlag (u, g, _, _, _, _, _, _)) ->
                             let x = (int_of_nat u, int_of_nat g) in
                             if Hashtbl.mem flag_rev x then None else Some x
                         | _ -> None) choices) in
                     (match cands with
                      | [x] -> Hashtbl.add flag_of e.var x; Hashtbl.add flag_rev x e.var; x
                      | _ -> reject (Printf.sprintf "%s %s (a waiter record the model does not expect here)" e.kind e.var))
               in
               let (u, g) = ug in
               match e.kind with
               | "load" -> Some (ELdFlag (nat_of_int u, nat_of_int g, ord_of e.o, num e.r))
               | "cas" -> Some (ECasFlag (nat_of_int u, nat_of_int g, ord_of e.o, ord_of e.f, num e.a, num e.b, num e.r, e.ok))
               | k -> reject (k ^ " " ^ e.var)
             end
             else begin
               match e.kind with
               | "park" -> Some EPark
               | "parkt" -> Some EParkT
               | "unpark" -> Some (EUnpark (nat_of_int (int_of_string e.a)))
               | "spin" -> Some ESpin
               | "yield" -> Some EYield
               | k -> reject (Printf.sprintf "%s %s (variable not in the model)" k e.var)
             end
       in
       (match mev with
        | None -> ()
        | Some me ->
            incr nmodel;
            let cands = List.filter_map (fun c ->
                match step0 capn cf !s t c with
                | Some (s', e') when ev_eqb me e' -> Some (c, s')
                | _ -> None) choices in
            let good (_, s') =
              match expect_of_pc (s'.pcs t) with
              | XAny -> true
              | x ->
                  if nxt.(i) < 0 then x = XApi
                  else
                    let en = evs.(nxt.(i)) in
                    let is_api = starts_with "mod.closed#" en.var in
                    if x = XApi then is_api else not is_api
            in
            let pick = match List.filter good cands with x :: _ -> Some x | [] -> (match cands with x :: _ -> Some x | [] -> None) in
            (match pick with
             | Some (c, s') -> tr := ((t, c), me) :: !tr; s := s'
             | None -> reject (ev_s me)));
       if (i + 1) mod 64 = 0 then verify i
     done;
     verify (n - 1)
   with Exit -> ());
  match !failed with
  | Some m -> m
  | None ->
      let sf = !s in
      if sf.bad then "reject: the model reached bad = true (dangling waiter record / unreachable!())"
      else if sf.discbad then "reject: the model returned Disconnected with a non-empty queue or a live sender"
      else begin
        let per = Array.make nthr [] in
        List.iter (fun (t, r) -> let i = int_of_nat t in if i < nthr then per.(i) <- res_s prods r :: per.(i)) sf.results;
        let mres = String.concat " " (List.mapi (fun i l -> Printf.sprintf "t%d=[%s]" i (String.concat "," (List.rev l))) (Array.to_list per)) in
        let unfinished = List.filter (fun i -> sf.pcs (nat_of_int i) <> Done) (List.init nthr (fun i -> i)) in
        if mres <> impl_res then Printf.sprintf "reject results: model %s, implementation %s" mres impl_res
        else if unfinished <> [] then
          Printf.sprintf "reject: trace ended but model threads %s are not Done" (String.concat "," (List.map string_of_int unfinished))
        else if Sys.getenv_opt "K3MPMC_STATS" <> None then Printf.sprintf "ok %d done model_events=%d" n !nmodel
        else Printf.sprintf "ok %d done" n
      end

(* ------------------------------------------------------------------ skeleton (D3) *)
let fn_id = function
  | FnTrySendCore -> "core.rs::MpmcShared::try_send_core" | FnTryRecvCore -> "core.rs::MpmcShared::try_recv_core"
  | FnSendSync -> "sync_impl.rs::send_sync" | FnRecvSync -> "sync_impl.rs::recv_sync"
  | FnRecvTimeoutSync -> "sync_impl.rs::recv_timeout_sync" | FnAdaptiveWait -> "backoff.rs::adaptive_wait"
  | FnSpinHint -> "backoff.rs::spin_hint"
  | FnSenderSend -> "mod.rs::Sender::send" | FnSenderTrySend -> "mod.rs::Sender::try_send"
  | FnSenderClose -> "mod.rs::Sender::close" | FnSenderCloseInternal -> "mod.rs::Sender::close_internal"
  | FnSenderDrop -> "mod.rs::Sender::drop"
  | FnReceiverRecv -> "mod.rs::Receiver::recv" | FnReceiverTryRecv -> "mod.rs::Receiver::try_recv"
  | FnReceiverRecvTimeout -> "mod.rs::Receiver::recv_timeout" | FnReceiverClose -> "mod.rs::Receiver::close"
  | FnReceiverCloseInternal -> "mod.rs::Receiver::close_internal" | FnReceiverDrop -> "mod.rs::Receiver::drop"
  | FnWakeRefWake -> "core.rs::WakeRef::wake"

let call_name = function
  | FnTrySendCore -> "try_send_core" | FnTryRecvCore -> "try_recv_core" | FnSendSync -> "send_sync"
  | FnRecvSync -> "recv_sync" | FnRecvTimeoutSync -> "recv_timeout_sync" | FnAdaptiveWait -> "adaptive_wait"
  | FnSpinHint -> "spin_hint" | FnSenderClose | FnReceiverClose -> "close"
  | FnSenderCloseInternal | FnReceiverCloseInternal -> "close_internal"
  | FnWakeRefWake -> "wake" | _ -> "?"

let row_s (r : row) : string =
  let (((v, o), a), b) = r in
  let vs = match v with SvClosed -> "closed" | SvFlag -> "done_flag" | SvWaiterState -> "waiter.state" | SvInternal -> "internal" | SvNone -> "-" in
  let os = function Some x -> ord_s x | None -> "-" in
  match o with
  | KLoad -> Printf.sprintf "%s.load.%s" vs (os a)
  | KCas -> Printf.sprintf "%s.cas.%s/%s" vs (os a) (os b)
  | KLockOp -> vs ^ ".lock.-"
  | KPark -> "-.park.-" | KParkT -> "-.parkt.-" | KUnpark -> "-.unpark.-" | KWakerWake -> "-.wake.-"
  | KSpin -> "-.spin.-" | KYield -> "-.yield.-"
  | KCall f -> "call." ^ call_name f

let skel_of (fid : string) : string =
  match List.filter (fun (f, _) -> fn_id f = fid) skeleton with
  | (_, rows) :: _ -> String.concat " ; " (List.map row_s rows)
  | [] -> "<not-modelled>"

let run (toks : string list) : string =
  match toks with
  | ["--skeleton"] -> String.concat " || " (List.map (fun (f, rows) -> fn_id f ^ " := " ^ String.concat " ; " (List.map row_s rows)) skeleton)
  | "K" :: fid :: _ -> "skel " ^ fid ^ " :: " ^ skel_of fid
  | ["S"] -> "search ok"
  | _ ->
      (match split_on "||" toks with
       | [scen; res; evs] ->
           (match split_on "|" scen with
            | [capt] :: thr ->
                let threads = List.map (function
                    | "P" :: ops -> (true, ops) | "C" :: ops -> (false, ops)
                    | _ -> failwith "bad thread") thr in
                run_trace (int_of_string capt) threads (String.concat " " res) evs
            | _ -> failwith "bad scenario")
       | _ -> failwith "case must be <scenario> || <results> || <events>")

let () = main run
