(* eng_spsc.ml — line driver for the K2 SPSC model (coq/Chan/SpscOps.v).
   engine exe: modelrun_spsc
   case:   <cap> <s|a> <cfg> <op>*      cfg = two digits: fix_f03 fix_conv (00 = the code as it is)
   output: one group per op and per implicit teardown op, joined by " ; " (see harness/seqdrv/src/bin/spsc.rs) *)
open Model_spsc
open Conv_spsc

let ni s = nat_of_int (int_of_string s)
let is l = "[" ^ String.concat "," (List.map (fun x -> string_of_int (int_of_nat x)) l) ^ "]"
let i x = string_of_int (int_of_nat x)
let b x = if x then "1" else "0"

let rec parse = function
  | [] -> []
  | "ts" :: r -> TrySend :: parse r
  | "sd" :: r -> Send :: parse r
  | "tsb" :: n :: r -> TrySendBatch (ni n) :: parse r
  | "sb" :: n :: r -> SendBatch (ni n) :: parse r
  | "tsbm" :: n :: r -> TrySendBatchMut (ni n) :: parse r
  | "sbm" :: n :: r -> SendBatchMut (ni n) :: parse r
  | "cs" :: r -> CloseS :: parse r
  | "os" :: r -> ObsS :: parse r
  | "vs" :: r -> ConvS :: parse r
  | "ds" :: r -> DropS :: parse r
  | "fs" :: r -> MkSend :: parse r
  | "fsb" :: n :: r -> MkSendBatch (ni n) :: parse r
  | "fsbm" :: n :: r -> MkSendBatchMut (ni n) :: parse r
  | "ps" :: w :: r -> PollS (ni w) :: parse r
  | "xs" :: r -> DropFutS :: parse r
  | "tr" :: r -> TryRecv :: parse r
  | "rc" :: r -> Recv :: parse r
  | "rt" :: r -> RecvTimeout :: parse r
  | ("trb" | "trbm") :: m :: r -> TryRecvBatch (ni m) :: parse r
  | ("rb" | "rbm") :: m :: r -> RecvBatch (ni m) :: parse r
  | "cr" :: r -> CloseR :: parse r
  | "or" :: r -> ObsR :: parse r
  | "vr" :: r -> ConvR :: parse r
  | "dr" :: r -> DropR :: parse r
  | "fr" :: r -> MkRecv :: parse r
  | ("frb" | "frbm") :: m :: r -> MkRecvBatch (ni m) :: parse r
  | "pr" :: w :: r -> PollR (ni w) :: parse r
  | "xr" :: r -> DropFutR :: parse r
  | "nx" :: w :: r -> StreamNext (ni w) :: parse r
  | t :: _ -> failwith ("bad op token " ^ t)

let show_res = function
  | ROk -> "ok"
  | ROkN n -> "ok " ^ i n
  | RVal v -> "v " ^ i v
  | RVals vs -> "vs " ^ is vs
  | RFull v -> "full " ^ i v
  | RClosedV v -> "closed " ^ i v
  | RClosed -> "closed"
  | RTryBatchErr (s, u, c) -> "tberr " ^ i s ^ " " ^ is u ^ (if c then " closed" else " full")
  | RBatchErr (s, u) -> "berr " ^ i s ^ " " ^ is u
  | RMutOk (s, r) -> "mok " ^ i s ^ " " ^ is r
  | RMutClosed r -> "mclosed " ^ is r
  | RRest r -> "rest " ^ is r
  | REmpty -> "empty"
  | RDisc -> "disc"
  | RTimeout -> "timeout"
  | RPending -> "pending"
  | RNone -> "none"
  | RObs (l, e, f, c, k) -> "obs " ^ i l ^ " " ^ b e ^ " " ^ b f ^ " " ^ b c ^ " " ^ i k
  | RCloseErr -> "closeerr"
  | RNA -> "na"
  | RBusy -> "busy"
  | RGone -> "gone"
  | RNoFut -> "nofut"
  | RWouldBlock -> "WOULDBLOCK"

let show_out (r, evs) =
  let ws = List.filter_map (function EWake w -> Some (i w) | _ -> None) evs in
  let ds = List.filter_map (function EDrop v -> Some (i v) | _ -> None) evs in
  show_res r
  ^ (if ws = [] then "" else " w:" ^ String.concat "," ws)
  ^ (if ds = [] then "" else " d:" ^ String.concat "," ds)

let run (toks : string list) : string =
  match toks with
  | cap :: k :: cf :: rest ->
      let kind = if k = "s" then KSync else KAsync in
      let cfg = { fix_f03 = cf.[0] = '1'; fix_conv = cf.[1] = '1' } in
      let outs = run_case cfg (ni cap) kind (parse rest) in
      String.concat " ; " (List.map show_out outs)
  | _ -> failwith "bad spsc case"

let () = main run
