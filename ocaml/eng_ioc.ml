(* eng_ioc.ml — line driver for the E-IOC container model (coq/Ioc/Container.v).
   engine exe: modelrun_ioc
   case:   <mode I|G|L> <op>*      (the mode only selects the implementation flavour; one model)
     op:   reg <s|t|i> <cid> <ty> <name> <ndeps> (<cid> <ty> <name> <r|o>)*
           res <cid> <ty> <name>
           stress <cid> <ty> <name> <n>     = n resolutions, summarised
   output: mirrors harness/seqdrv/src/bin/ioc.rs *)
open Model_ioc
open Conv_ioc

let name_of = function
  | "-" -> None
  | "a" -> Some (n_of_int 1)
  | "b" -> Some (n_of_int 2)
  | s -> failwith ("bad name " ^ s)

let slot_of cid ty name = (n_of_int (int_of_string cid), (n_of_int (int_of_string ty), name_of name))

let kind_of = function
  | "s" -> KSingleton
  | "t" -> KTransient
  | "i" -> KInstance
  | s -> failwith ("bad kind " ^ s)

type xop = Plain of op | Stress of slot * int

let rec take_deps n toks =
  if n = 0 then ([], toks)
  else match toks with
    | cid :: ty :: name :: m :: r ->
        let (ds, rest) = take_deps (n - 1) r in
        ((slot_of cid ty name, (m = "r")) :: ds, rest)
    | _ -> failwith "short deps"

let rec parse = function
  | [] -> []
  | "reg" :: k :: cid :: ty :: name :: nd :: r ->
      let (ds, rest) = take_deps (int_of_string nd) r in
      Plain (Register (kind_of k, slot_of cid ty name, ds)) :: parse rest
  | "res" :: cid :: ty :: name :: r -> Plain (Resolve (slot_of cid ty name)) :: parse r
  | "stress" :: cid :: ty :: name :: n :: r -> Stress (slot_of cid ty name, int_of_string n) :: parse r
  | t :: _ -> failwith ("bad op " ^ t)

let show_dep = function None -> "-" | Some i -> string_of_int (int_of_n i)

let show_out = function
  | OOk -> "ok"
  | ONone -> "none"
  | OSome (i, fid, ds) ->
      Printf.sprintf "some %d f%d [%s]" (int_of_n i) (int_of_n fid) (String.concat "," (List.map show_dep ds))
  | OPanic -> "PANIC"
  | OFuel -> "OUT-OF-FUEL"

let count x l = List.length (List.filter (fun y -> y = x) l)

let run (toks : string list) : string =
  match toks with
  | _mode :: rest ->
      let ops = parse rest in
      let s = ref init in
      let outs = List.map (fun o ->
        match o with
        | Plain op -> let (s', x) = step !s op in s := s'; show_out x
        | Stress (sl, n) ->
            let some = ref 0 and none = ref 0 and panic = ref 0 and ids = ref [] and fuel = ref false in
            for _ = 1 to n do
              let (s', x) = step !s (Resolve sl) in
              s := s';
              (match x with
               | OSome (i, _, _) -> incr some; let i = int_of_n i in if not (List.mem i !ids) then ids := i :: !ids
               | ONone -> incr none
               | OPanic -> incr panic
               | OFuel -> fuel := true
               | OOk -> ())
            done;
            if !fuel then "OUT-OF-FUEL" else
            Printf.sprintf "stress some=%d none=%d panic=%d distinct=%d" !some !none !panic (List.length !ids)) ops in
      let nf = int_of_n (nextf !s) in
      let st = List.map int_of_n (started !s) and co = List.map int_of_n (completed !s) in
      let runs = List.init nf (fun f -> Printf.sprintf "%d/%d" (count f st) (count f co)) in
      String.concat " ; " outs ^ " | " ^ String.concat " " ("runs" :: runs)
  | [] -> failwith "empty case"

let () = main run
