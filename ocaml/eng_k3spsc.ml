(* eng_k3spsc.ml — tracecheck for the K3 SPSC model (coq/Chan/SpscK3.v).
   engine exe: modelrun_k3spsc
   case (one line):
     <cap> P <s|ts>* C <r|tr|D>* RP <ok:N|full:N|closed:N|gone:N>* RC <val:N|empty|disc>* T <event>*
     event = tid,kind,var,ord,a,r,ok     (one token per traced facade event, in trace order)
   The driver maps every trace event to (tid, choice, event) -- the choice is read off the trace
   (a `spin` event = CSpin, everything else CGo); inserts the untraced payload-cell steps
   (KWSlot before every `store tail`, KRSlot before every `store head`, same thread); runs the
   extracted `replay_spsc`; then compares the API results recorded by the model with the
   implementation's.
   output: `ok <n events> <done|open>`  |  `reject at <i>: ...`  |  `results differ: ...`
   `modelrun_k3spsc --skeleton` prints the (function, row, var, op, Ordering) table read off the
   model's step function (D3). *)
open Model_k3spsc
open Conv_k3spsc

let n i = n_of_int i

let var_of (tid : int) (kind : string) (v : string) : evar =
  (* strip the instance ordinal: shared.tail#0 -> shared.tail *)
  let v = match String.index_opt v '#' with Some i -> String.sub v 0 i | None -> v in
  match v with
  | "shared.tail" -> VTail
  | "shared.head" -> VHead
  | "shared.send_waiters" -> VSendW
  | "shared.recv_waiters" -> VRecvW
  | "shared.sender_count" -> VSenderCnt
  | "shared.receiver_count" -> VRecvCnt
  | "shared.producer_dropped" -> VProdDropped
  | "shared.consumer_dropped" -> VConsDropped
  | "shared.producer_waiter" -> VLockP
  | "shared.consumer_waiter" -> VLockC
  (* each handle's `closed` is only ever touched by its own thread *)
  | "bounded_sync.closed" -> if tid = 0 then VClosedP else VClosedC
  (* `notified` (stack local of send/recv): swapped by its owner, stored by the waker *)
  | "bounded_sync.notified" ->
      if kind = "swap" then (if tid = 0 then VNotifP else VNotifC)
      else (if tid = 0 then VNotifC else VNotifP)
  | "-" -> VNone
  | s -> failwith ("unknown variable " ^ s)

let ord_of = function
  | "Rlx" -> ORlx | "Acq" -> OAcq | "Rel" -> ORel | "AcqRel" -> OAcqRel | "SeqCst" -> OSeqCst
  | "-" -> ONone
  | s -> failwith ("unknown ordering " ^ s)

let show_var = function
  | VTail -> "tail" | VHead -> "head" | VSendW -> "send_waiters" | VRecvW -> "recv_waiters"
  | VSenderCnt -> "sender_count" | VRecvCnt -> "receiver_count" | VProdDropped -> "producer_dropped"
  | VConsDropped -> "consumer_dropped" | VClosedP -> "closed(tx)" | VClosedC -> "closed(rx)"
  | VNotifP -> "notified(tx)" | VNotifC -> "notified(rx)" | VLockP -> "producer_waiter"
  | VLockC -> "consumer_waiter" | VSlot -> "slot" | VNone -> "-"
let show_kind = function
  | KLoad -> "load" | KStore -> "store" | KSwap -> "swap" | KFsub -> "fsub" | KFence -> "fence"
  | KLock -> "lock" | KUnlock -> "unlock" | KPark -> "park" | KUnpark -> "unpark" | KSpin -> "spin"
  | KWSlot -> "wslot" | KRSlot -> "rslot"
let show_ord = function
  | ORlx -> "Rlx" | OAcq -> "Acq" | ORel -> "Rel" | OAcqRel -> "AcqRel" | OSeqCst -> "SeqCst" | ONone -> "-"
let show_ev (e : event0) =
  Printf.sprintf "%s %s %s a=%d r=%d ok=%d" (show_kind e.ek) (show_var e.evr) (show_ord e.eo)
    (int_of_n e.ea) (int_of_n e.er) (if e.eok then 1 else 0)

let kind_of = function
  | "load" -> KLoad | "store" -> KStore | "swap" -> KSwap | "fsub" -> KFsub | "fence" -> KFence
  | "lock" -> KLock | "unlock" -> KUnlock | "park" -> KPark | "unpark" -> KUnpark | "spin" -> KSpin
  | s -> failwith ("event kind outside the model's alphabet: " ^ s)

(* one trace token -> list of (tid, choice, event) (with the synthetic payload-cell step) *)
let parse_ev (tok : string) : ((tid0 * choice0) * event0) list =
  match String.split_on_char ',' tok with
  | [t; k; v; o; a; r; ok] ->
      let ti = int_of_string (String.sub t 1 (String.length t - 1)) in
      let tid = if ti = 0 then TP else TC in
      let kind = kind_of k in
      let var = var_of ti k v in
      let a = int_of_string a and r = int_of_string r in
      (* operands the model does not carry are normalised: load has no operand, store/lock/fence/...
         have no result *)
      let e =
        match kind with
        | KLoad -> { ek = kind; evr = var; eo = ord_of o; ea = n 0; er = n r; eok = true }
        | KStore -> { ek = kind; evr = var; eo = ord_of o; ea = n a; er = n 0; eok = true }
        | KSwap | KFsub -> { ek = kind; evr = var; eo = ord_of o; ea = n a; er = n r; eok = true }
        | KLock -> { ek = kind; evr = var; eo = ord_of o; ea = n 0; er = n 0; eok = (ok = "1") }
        | KUnpark -> { ek = kind; evr = var; eo = ord_of o; ea = n a; er = n 0; eok = true }
        | _ -> { ek = kind; evr = var; eo = ord_of o; ea = n 0; er = n 0; eok = true }
      in
      let ch = if kind = KSpin then CSpin else CGo in
      let pre =
        if kind = KStore && var = VTail then [ ((tid, CGo), eWSlot) ]
        else if kind = KStore && var = VHead then [ ((tid, CGo), eRSlot) ]
        else []
      in
      pre @ [ ((tid, ch), e) ]
  | _ -> failwith ("bad event token " ^ tok)

let pres_of (s : string) : pres =
  match String.split_on_char ':' s with
  | [ "ok"; v ] -> POk (n (int_of_string v))
  | [ "full"; v ] -> PFull (n (int_of_string v))
  | [ "closed"; v ] -> PClosed (n (int_of_string v))
  | [ "gone"; v ] -> PGone (n (int_of_string v))
  | _ -> failwith ("bad producer result " ^ s)
let cres_of (s : string) : cres =
  match String.split_on_char ':' s with
  | [ "val"; v ] -> RVal (n (int_of_string v))
  | [ "empty" ] -> REmpty
  | [ "disc" ] -> RDisc
  | _ -> failwith ("bad consumer result " ^ s)
let show_pres = function
  | POk v -> "ok:" ^ string_of_int (int_of_n v) | PFull v -> "full:" ^ string_of_int (int_of_n v)
  | PClosed v -> "closed:" ^ string_of_int (int_of_n v) | PGone v -> "gone:" ^ string_of_int (int_of_n v)
let show_cres = function
  | RVal v -> "val:" ^ string_of_int (int_of_n v) | REmpty -> "empty" | RDisc -> "disc"

(* split a token list at the section markers *)
let rec upto (stop : string list) (acc : string list) = function
  | t :: r when List.mem t stop -> (List.rev acc, t :: r)
  | t :: r -> upto stop (t :: acc) r
  | [] -> (List.rev acc, [])

let section (name : string) (next : string list) (toks : string list) =
  match toks with
  | t :: r when t = name -> upto next [] r
  | _ -> failwith ("expected section " ^ name)

let skel_line_ref : (string -> string) ref = ref (fun f -> "skel " ^ f)

let run (toks : string list) : string =
  match toks with
  | "S" :: _ -> "search ok"
  | "K" :: f :: _ -> !skel_line_ref f
  | capt :: rest ->
      let cap = n (int_of_string capt) in
      let phys = phys_of cap in
      let pt, rest = section "P" [ "C" ] rest in
      let ct, rest = section "C" [ "RP" ] rest in
      let rp, rest = section "RP" [ "RC" ] rest in
      let rc, rest = section "RC" [ "T" ] rest in
      let tt, _ = section "T" [] rest in
      let pp0 = List.map (function "s" -> Send | "ts" -> TrySend | o -> failwith ("bad producer op " ^ o)) pt in
      let cp0 =
        List.map (function "r" -> Recv | "tr" -> TryRecv | "D" -> Drain | o -> failwith ("bad consumer op " ^ o)) ct
      in
      let tr = List.concat_map parse_ev tt in
      let total = List.length tr in
      (match replay_spsc cap phys pp0 cp0 tr with
       | Inl (Some s) ->
           if s.bad then "reject: model reached an ownership violation (bad flag)"
           else
             let mp = List.map show_pres s.presults and mc = List.map show_cres s.cresults in
             let ip = List.map (fun x -> show_pres (pres_of x)) rp
             and ic = List.map (fun x -> show_cres (cres_of x)) rc in
             if mp <> ip || mc <> ic then
               Printf.sprintf "results differ: model P=[%s] C=[%s] impl P=[%s] C=[%s]" (String.concat "," mp)
                 (String.concat "," mc) (String.concat "," ip) (String.concat "," ic)
             else
               Printf.sprintf "ok %d %s" (List.length tt)
                 (if s.ppc = PDone && s.cpc = CDone then "done" else "open")
       | Inl None -> "reject: replay returned no state"
       | Inr _ ->
           (* diagnostics: find the first step the model refuses *)
           let rec go s i = function
             | [] -> "reject: (unreachable)"
             | ((t, c), e) :: r -> (
                 match step0 cap phys s t c with
                 | None ->
                     Printf.sprintf "reject at %d/%d: model thread %s is not enabled, trace has %s" i total
                       (if t = TP then "t0" else "t1") (show_ev e)
                 | Some (s', e') ->
                     if event_eqb e e' then go s' (i + 1) r
                     else
                       Printf.sprintf "reject at %d/%d: %s model expected [%s], trace has [%s]" i total
                         (if t = TP then "t0" else "t1") (show_ev e') (show_ev e))
           in
           go (init0 pp0 cp0) 0 tr)
  | [] -> failwith "empty case"

(* ---------------------------------------------------------------- D3 skeleton table *)
(* For every modelled Rust function: the model pcs that implement its facade operations, in the
   source order of the function body (calls to other modelled functions appear as `call`).  The
   (var, op, Ordering) of each row is NOT written here: it is read off the extracted step function
   by executing the pc on a state where it is enabled. *)
type row = PRow of ppc_t | CRow of cpc_t | Call of string

let base () =
  let s = init0 [ Send ] [ Recv ] in
  { s with tok_p = true; tok_c = true }

let skel_var = function
  | VClosedP | VClosedC -> "closed" | VNotifP | VNotifC -> "notified" | v -> show_var v

let ev_of_row (r : row) : string =
  let cap = n 2 and phys = n 2 in
  let show (e : event0) = Printf.sprintf "%s.%s.%s" (skel_var e.evr) (show_kind e.ek) (show_ord e.eo) in
  match r with
  | Call f -> "call." ^ f
  | PRow pc -> (
      let s = { (base ()) with ppc = pc } in
      let c = if pc = PSpinDec then CSpin else CGo in
      match step0 cap phys s TP c with Some (_, e) -> show e | None -> "DISABLED")
  | CRow pc -> (
      let s = { (base ()) with cpc = pc } in
      let c = if pc = CSpinDec then CSpin else CGo in
      match step0 cap phys s TC c with Some (_, e) -> show e | None -> "DISABLED")

let skeleton : (string * row list) list =
  [ ("shared.rs::Ring::push", [ PRow (PPush (KTry, LdA)); PRow (PPush (KTry, LdB)); PRow (PPush (KTry, StIdx)) ]);
    ("shared.rs::Ring::pop", [ CRow (CPop (CTry1, LdA)); CRow (CPop (CTry1, LdB)); CRow (CPop (CTry1, StIdx)) ]);
    ("shared.rs::Ring::drop", [ Call "pop" ]);
    ("shared.rs::SpscShared::senders_alive", [ CRow (CSc STry) ]);
    ("shared.rs::SpscShared::register",
     [ PRow (PReg RgLock); PRow (PReg RgSt); CRow (CReg RgLock); CRow (CReg RgSt) ]);
    ("shared.rs::SpscShared::unregister",
     [ PRow (PUnreg (UOk, UnLock)); PRow (PUnreg (UOk, UnSt)); CRow (CUnreg (CUVal, UnLock)); CRow (CUnreg (CUVal, UnSt)) ]);
    ("shared.rs::SpscShared::wake_one",
     [ CRow (CWake (WNotify, WkLock)); CRow (CWake (WNotify, WkSt0)); CRow (CWake (WNotify, WkStN));
       PRow (PWake (WNotify, WkLock)); PRow (PWake (WNotify, WkSt0)); PRow (PWake (WNotify, WkStN)); Call "wake" ]);
    ("shared.rs::SpscShared::notify_receivers", [ PRow PNfFence; PRow PNfLd; Call "wake_one" ]);
    ("shared.rs::SpscShared::notify_senders", [ CRow CNfFence; CRow CNfLd; Call "wake_one" ]);
    ("shared.rs::SpscShared::pre_park_fence", [ PRow PFence ]);
    ("shared.rs::SpscShared::drop_sender", [ PRow PDrSub; Call "wake_one" ]);
    ("shared.rs::SpscShared::drop_receiver", [ CRow CDrSub; Call "wake_one" ]);
    (* the second row is the Waker arm (async handles), outside this model *)
    ("shared.rs::WakeRef::wake", [ PRow (PWake (WNotify, WkUnpark)); Call "wake" ]);
    ("bounded_sync.rs::BoundedSyncSender::close_internal", [ PRow PDrStore; Call "drop_sender" ]);
    ("bounded_sync.rs::BoundedSyncSender::try_send",
     [ PRow PIdle; PRow (PCd KTry); Call "push"; Call "notify_receivers" ]);
    ("bounded_sync.rs::BoundedSyncSender::send",
     [ PRow PIdle; PRow (PCd KFirst); Call "push"; Call "notify_receivers"; PRow (PCd (KLoop false));
       Call "unregister"; Call "push"; Call "unregister"; Call "notify_receivers"; Call "park_thread";
       PRow PSwap; PRow PSpinDec; Call "register"; Call "pre_park_fence" ]);
    ("bounded_sync.rs::BoundedSyncSender::drop", [ PRow PIdle; Call "close_internal" ]);
    ("bounded_sync.rs::BoundedSyncReceiver::close_internal", [ CRow CDrStore; Call "drop_receiver" ]);
    ("bounded_sync.rs::BoundedSyncReceiver::try_recv",
     [ CRow CIdle; Call "pop"; Call "notify_senders"; Call "senders_alive"; Call "pop"; Call "notify_senders" ]);
    ("bounded_sync.rs::BoundedSyncReceiver::recv",
     [ CRow CIdle; Call "pop"; Call "notify_senders"; Call "pop"; Call "unregister"; Call "notify_senders";
       Call "senders_alive"; Call "pop"; Call "unregister"; Call "notify_senders"; Call "unregister";
       Call "park_thread"; CRow CSwap; CRow CSpinDec; Call "register"; Call "pre_park_fence" ]);
    ("bounded_sync.rs::BoundedSyncReceiver::drop", [ CRow CIdle; Call "close_internal" ]);
    ("sync_util.rs::park_thread", [ CRow CPark ]) ]

let is_drop f = String.length f > 4 && String.sub f (String.length f - 4) 4 = "drop"

let rows_of (f : string) (rows : row list) : string list =
  List.map
    (fun r ->
      (* the Drop rows run with an empty program *)
      let drop_ev tid s =
        match step0 (n 2) (n 2) s tid CGo with
        | Some (_, e) -> Printf.sprintf "%s.%s.%s" (skel_var e.evr) (show_kind e.ek) (show_ord e.eo)
        | None -> "DISABLED"
      in
      match r with
      | PRow PIdle when is_drop f -> drop_ev TP { (init0 [] []) with ppc = PIdle }
      | CRow CIdle when is_drop f -> drop_ev TC { (init0 [] []) with cpc = CIdle }
      | _ -> ev_of_row r)
    rows

let skel_line (f : string) : string =
  match List.assoc_opt f skeleton with
  | Some rows -> Printf.sprintf "skel %s :: %s" f (String.concat " ; " (rows_of f rows))
  | None -> Printf.sprintf "skel %s :: <not modelled>" f

let () = skel_line_ref := skel_line

let print_skeleton () = List.iter (fun (f, _) -> print_endline (skel_line f)) skeleton

let () =
  if Array.length Sys.argv > 1 && Sys.argv.(1) = "--skeleton" then print_skeleton () else main run
