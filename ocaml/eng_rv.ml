(* eng_rv.ml — line driver for the rendezvous K2 model (coq/Chan/Rendezvous.v).
   engine exe: modelrun_rv
   case:   <spsc|mpsc|mpmc> <s|a> <fixmask: 3 chars of 0/1 = fix_conv fix_fut fix_clone> op*
   ops:    ts H V | s H V | tr H | r H | rt H | cl H | dh H | cn H H2 | cv H | ob H
           | ms F H V | mr F H | p F W | df F
   output: per op "<result>[ w<waker>]*[ d<payload>]*", joined by " ; "; a case stops after `block`. *)
open Model_rv
open Conv_rv

let nn s = n_of_int (int_of_string s)

let cfg_of fl mask =
  let b i = String.length mask > i && mask.[i] = '1' in
  let (m, t, r) = match fl with
    | "spsc" -> (false, false, false)
    | "mpsc" -> (false, true, false)
    | "mpmc" -> (true, true, true)
    | s -> failwith ("unknown flavour " ^ s) in
  { multi_rx = m; tx_clone = t; rx_clone = r; fix_conv = b 0; fix_fut = b 1; fix_clone = b 2 }

let rec parse_ops = function
  | [] -> []
  | "ts" :: h :: v :: r -> TrySend (nn h, nn v) :: parse_ops r
  | "s" :: h :: v :: r -> Send (nn h, nn v) :: parse_ops r
  | "tr" :: h :: r -> TryRecv (nn h) :: parse_ops r
  | "r" :: h :: r -> Recv (nn h) :: parse_ops r
  | "rt" :: h :: r -> RecvTimeout0 (nn h) :: parse_ops r
  | "cl" :: h :: r -> Close (nn h) :: parse_ops r
  | "dh" :: h :: r -> DropH (nn h) :: parse_ops r
  | "cn" :: h :: h2 :: r -> Clone (nn h, nn h2) :: parse_ops r
  | "cv" :: h :: r -> Conv (nn h) :: parse_ops r
  | "ob" :: h :: r -> Obs (nn h) :: parse_ops r
  | "ms" :: f :: h :: v :: r -> MkSend (nn f, nn h, nn v) :: parse_ops r
  | "mr" :: f :: h :: r -> MkRecv (nn f, nn h) :: parse_ops r
  | "p" :: f :: w :: r -> Poll (nn f, nn w) :: parse_ops r
  | "df" :: f :: r -> DropF (nn f) :: parse_ops r
  | t :: _ -> failwith ("bad op token " ^ t)

let si x = string_of_int (int_of_n x)
let sb b = if b then "1" else "0"

let show_out = function
  | OOk -> "ok"
  | OFull v -> "full " ^ si v
  | OClosedV v -> "closedv " ^ si v
  | OClosed -> "closed"
  | OVal v -> "val " ^ si v
  | OEmpty -> "empty"
  | ODisc -> "disc"
  | OTimeout -> "timeout"
  | OCloseErr -> "closeerr"
  | OPending -> "pending"
  | OReadyOk -> "rok"
  | OReadyClosed -> "rclosed"
  | OReadyVal v -> "rval " ^ si v
  | OReadyDisc -> "rdisc"
  | OObs (c, l, e, f, cap) -> "obs " ^ sb c ^ " " ^ si l ^ " " ^ sb e ^ " " ^ sb f ^ " " ^ si cap
  | ONone -> "none"
  | ONa -> "na"
  | OPanic -> "PANIC"
  | OBlock -> "block"

let show_evs evs =
  let wakes = List.filter_map (function EWake w -> Some (" w" ^ si w) | _ -> None) evs in
  let drops = List.filter_map (function
      | EDropSlot v | EDropDest v | EDropArg v -> Some (" d" ^ si v) | _ -> None) evs in
  String.concat "" wakes ^ String.concat "" drops

let run (toks : string list) : string =
  match toks with
  | fl :: mode :: mask :: rest ->
      let c = cfg_of fl mask in
      let ops = parse_ops rest in
      let rec go s ops acc =
        match ops with
        | [] -> List.rev acc
        | o :: t ->
            let ((s', r), e) = step c s o in
            (match r with
             | OBlock -> List.rev ("block" :: acc)
             | _ -> go s' t ((show_out r ^ show_evs e) :: acc)) in
      String.concat " ; " (go (init (mode = "a")) ops [])
  | _ -> failwith "bad rv case"

let () = main run
