(* eng_k3rv.ml — tracecheck for the K3' rendezvous model (coq/Chan/RvK3.v).
   engine exe: modelrun_k3rv
   case (one line, the part of the implementation driver's output after ` ;; `):
     <flavour> { TH <S|R> <op>.. } RES { RT <res>.. } T <event>..
     op = s ts | r tr rt D ; res = ok:T.K full:T.K closed:T.K gone:T.K val:T.K empty disc timeout
     event = tid,kind,var,ord,ordfail,a,b,r,ok   (one token per traced facade event, in trace order)
   The driver maps every trace event to (tid, choice, event): the choice is read off the trace
   (a `lock` / `cas` event = CTimeout: it is the cancel path when the thread stands at the deadline
   check, and is ignored everywhere else; everything else CGo).  Every `rendezvous.state#k` is
   resolved to (owner thread, ordinal among the owner's registered frames) by a pre-pass: the owner
   is the only thread that loads / CASes its state, and ordinals follow creation order.  Then the
   extracted `replay_rv true` must accept the trace event by event and reproduce the API results.
   output: `ok <n events> <done|open>`  |  `reject at <i>: ...`  |  `results differ: ...`
   A leading token `PREFIX` replays against the pre-fix model (`cul = false`).
   `modelrun_k3rv --skeleton` prints the (function, row) table read off the model's step function
   (D3). *)
open Model_k3rv
open Conv_k3rv

let nat i = nat_of_int i
let n i = n_of_int i

let ord_of = function
  | "Rlx" -> Rlx | "Acq" -> Acq | "Rel" -> Rel | "AcqRel" -> AcqRel | "SeqCst" -> SeqCst
  | s -> failwith ("unknown ordering " ^ s)

let show_ord = function Rlx -> "Rlx" | Acq -> "Acq" | Rel -> "Rel" | AcqRel -> "AcqRel" | SeqCst -> "SeqCst"
let show_var = function
  | VClosed -> "closed"
  | VState (o, g) -> Printf.sprintf "state(t%d,frame %d)" (int_of_nat o) (int_of_nat g)
let show_ev = function
  | EvLoad (v, o, r) -> Printf.sprintf "load %s %s r=%d" (show_var v) (show_ord o) (int_of_n r)
  | EvStore (v, o, a) -> Printf.sprintf "store %s %s a=%d" (show_var v) (show_ord o) (int_of_n a)
  | EvCas (v, o, f, a, b, r, ok) ->
      Printf.sprintf "cas %s %s %s a=%d b=%d r=%d ok=%d" (show_var v) (show_ord o) (show_ord f) (int_of_n a)
        (int_of_n b) (int_of_n r) (if ok then 1 else 0)
  | EvLock ok -> Printf.sprintf "lock core ok=%d" (if ok then 1 else 0)
  | EvUnlock -> "unlock core"
  | EvPark -> "park"
  | EvParkT -> "parkt"
  | EvUnpark t -> Printf.sprintf "unpark t%d" (int_of_nat t)

(* ---------------------------------------------------------------- parsing *)
let split_hash (v : string) : string * int =
  match String.index_opt v '#' with
  | Some i -> (String.sub v 0 i, int_of_string (String.sub v (i + 1) (String.length v - i - 1)))
  | None -> (v, 0)

type raw = { tid : int; kind : string; base : string; ordi : int; o : string; f : string; a : int; b : int; r : int; ok : bool }

let parse_raw (tok : string) : raw =
  match String.split_on_char ',' tok with
  | [ t; k; v; o; f; a; b; r; ok ] ->
      let base, ordi = split_hash v in
      { tid = int_of_string (String.sub t 1 (String.length t - 1)); kind = k; base; ordi; o; f;
        a = int_of_string a; b = int_of_string b; r = int_of_string r; ok = ok = "1" }
  | _ -> failwith ("bad event token " ^ tok)

(* state#k -> (owner, frame number): owner = the thread that loads / CASes it *)
let resolve_states (evs : raw list) : (int, int * int) Hashtbl.t =
  let owner = Hashtbl.create 16 in
  List.iter
    (fun e ->
      if e.base = "rendezvous.state" && (e.kind = "load" || e.kind = "cas") then
        match Hashtbl.find_opt owner e.ordi with
        | None -> Hashtbl.add owner e.ordi e.tid
        | Some t -> if t <> e.tid then failwith (Printf.sprintf "state#%d is loaded by two threads (t%d, t%d)" e.ordi t e.tid))
    evs;
  let ks = List.sort compare (Hashtbl.fold (fun k _ acc -> k :: acc) owner []) in
  let res = Hashtbl.create 16 in
  let count = Hashtbl.create 16 in
  List.iter
    (fun k ->
      let t = Hashtbl.find owner k in
      let g = 1 + (match Hashtbl.find_opt count t with Some c -> c | None -> 0) in
      Hashtbl.replace count t g;
      Hashtbl.add res k (t, g))
    ks;
  res

let to_ev (states : (int, int * int) Hashtbl.t) (closed_of : (int, int) Hashtbl.t) (e : raw) : (nat * choice0) * ev =
  let var () =
    match e.base with
    | "rendezvous.state" -> (
        match Hashtbl.find_opt states e.ordi with
        | Some (t, g) -> VState (nat t, nat g)
        | None -> failwith (Printf.sprintf "state#%d is never loaded by an owner (stray record?)" e.ordi))
    | "rendezvous.closed" ->
        (* each handle's `closed` is only touched by its own thread *)
        (match Hashtbl.find_opt closed_of e.tid with
         | None ->
             Hashtbl.iter (fun t k -> if k = e.ordi && t <> e.tid then failwith "closed flag shared by two threads") closed_of;
             Hashtbl.add closed_of e.tid e.ordi
         | Some k -> if k <> e.ordi then failwith (Printf.sprintf "t%d touches a second closed flag" e.tid));
        VClosed
    | s -> failwith ("unknown variable " ^ s)
  in
  let core () = if e.base <> "rendezvous.core" || e.ordi <> 0 then failwith ("unknown mutex " ^ e.base) in
  let ev, ch =
    match e.kind with
    | "load" -> (EvLoad (var (), ord_of e.o, n e.r), CGo)
    | "store" -> (EvStore (var (), ord_of e.o, n e.a), CGo)
    | "cas" -> (EvCas (var (), ord_of e.o, ord_of e.f, n e.a, n e.b, n e.r, e.ok), CTimeout)
    | "lock" -> core (); (EvLock e.ok, CTimeout)
    | "unlock" -> core (); (EvUnlock, CGo)
    | "park" -> (EvPark, CGo)
    | "parkt" -> (EvParkT, CGo)
    | "unpark" -> (EvUnpark (nat e.a), CGo)
    | k -> failwith ("event kind outside the model's alphabet: " ^ k)
  in
  ((nat e.tid, ch), ev)

let val_of (s : string) : val0 =
  match String.split_on_char '.' s with
  | [ t; k ] -> (nat (int_of_string t), nat (int_of_string k))
  | _ -> failwith ("bad payload id " ^ s)

let show_val ((t, k) : val0) = Printf.sprintf "%d.%d" (int_of_nat t) (int_of_nat k)

(* implementation results carry no `lost` information: compare modulo it *)
let show_res = function
  | POk v -> "ok:" ^ show_val v | PFull v -> "full:" ^ show_val v | PClosed v -> "closed:" ^ show_val v
  | PGone v -> "gone:" ^ show_val v | RVal v -> "val:" ^ show_val v | REmpty -> "empty" | RDisc -> "disc"
  | RTimeout _ -> "timeout"
let norm_res (s : string) : string =
  match String.split_on_char ':' s with
  | [ k; v ] -> k ^ ":" ^ show_val (val_of v)
  | _ -> s

let sop_of = function "s" -> Send | "ts" -> TrySend | o -> failwith ("bad sender op " ^ o)
let rop_of = function "r" -> Recv | "tr" -> TryRecv | "rt" -> RecvT | "D" -> Drain | o -> failwith ("bad receiver op " ^ o)

(* `TH S s ts TH R r D RES ...` -> cfg, rest *)
let rec parse_threads (acc : tcfg list) = function
  | "TH" :: "S" :: r ->
      let rec ops a = function
        | (("TH" | "RES") :: _) as rest -> (List.rev a, rest)
        | o :: rest -> ops (sop_of o :: a) rest
        | [] -> (List.rev a, [])
      in
      let p, rest = ops [] r in
      parse_threads (CS p :: acc) rest
  | "TH" :: "R" :: r ->
      let rec ops a = function
        | (("TH" | "RES") :: _) as rest -> (List.rev a, rest)
        | o :: rest -> ops (rop_of o :: a) rest
        | [] -> (List.rev a, [])
      in
      let p, rest = ops [] r in
      parse_threads (CR p :: acc) rest
  | rest -> (List.rev acc, rest)

let rec parse_results (acc : string list list) = function
  | "RT" :: r ->
      let rec rs a = function
        | (("RT" | "T") :: _) as rest -> (List.rev a, rest)
        | x :: rest -> rs (norm_res x :: a) rest
        | [] -> (List.rev a, [])
      in
      let l, rest = rs [] r in
      parse_results (l :: acc) rest
  | rest -> (List.rev acc, rest)

let skel_line_ref : (string -> string) ref = ref (fun f -> "skel " ^ f)

let all_done (cfg : tcfg list) (s : st) : bool =
  let rec go i = function [] -> true | _ :: r -> s.pcs (nat i) = Done && go (i + 1) r in
  go 0 cfg

let run_case (cul : bool) (toks : string list) : string =
  match toks with
  | _flavour :: rest ->
      let cfg, rest = parse_threads [] rest in
      let rest = match rest with "RES" :: r -> r | _ -> failwith "expected RES" in
      let ires, rest = parse_results [] rest in
      let tt = match rest with "T" :: r -> r | [] -> [] | _ -> failwith "expected T" in
      let raws = List.map parse_raw tt in
      let states = resolve_states raws in
      let closed_of = Hashtbl.create 8 in
      let tr = List.map (to_ev states closed_of) raws in
      let total = List.length tr in
      (match replay_rv cul cfg tr with
       | Inl (Some s) ->
           if s.bad then "reject: model reached an ownership violation (bad flag)"
           else
             let mres = List.mapi (fun i _ -> List.map show_res (s.results (nat i))) cfg in
             let pad = List.mapi (fun i _ -> match List.nth_opt ires i with Some l -> l | None -> []) cfg in
             if mres <> pad then
               let sh l = String.concat " | " (List.map (String.concat ",") l) in
               Printf.sprintf "results differ: model [%s] impl [%s]" (sh mres) (sh pad)
             else Printf.sprintf "ok %d %s" total (if all_done cfg s then "done" else "open")
       | Inl None -> "reject: replay returned no state"
       | Inr _ ->
           let rec go s i = function
             | [] -> "reject: (unreachable)"
             | ((t, c), e) :: r -> (
                 match step0 cul cfg s t c with
                 | None ->
                     Printf.sprintf "reject at %d/%d: model thread t%d is not enabled, trace has [%s]" i total
                       (int_of_nat t) (show_ev e)
                 | Some (s', e') ->
                     if ev_eqb e e' then go s' (i + 1) r
                     else
                       Printf.sprintf "reject at %d/%d: t%d model expected [%s], trace has [%s]" i total (int_of_nat t)
                         (show_ev e') (show_ev e))
           in
           go (init0 cfg) 0 tr)
  | [] -> failwith "empty case"

let run (toks : string list) : string =
  match toks with
  | "S" :: _ -> "search ok"
  | "K" :: f :: _ -> !skel_line_ref f
  | "PREFIX" :: rest -> run_case false rest
  | _ -> run_case true toks

(* ---------------------------------------------------------------- D3 skeleton table *)
(* For every modelled Rust function: the model pcs that implement its facade operations, in the
   source order of the function body (calls to other modelled functions appear as `call.<fn>`).
   The (var, op, Ordering) of each row is NOT written here: it is read off the extracted step
   function by executing the pc on a state where it is enabled.  `cul` selects the model variant
   (rows of cancel_* are read from the cul = true machine: lock, then cas). *)
type row = SRow of pc | RRow of pc | SDrop | RDrop | Call of string

(* thread 0 = sender, thread 1 = receiver; both queues non-empty so that every pc is enabled *)
let base () : st =
  let cfg = [ CS [ Send ]; CR [ Recv ] ] in
  let s = init0 cfg in
  { s with sq = [ nat 0 ]; rq = [ nat 1 ]; token = (fun _ -> true);
           cell = (fun t -> if t = nat 0 then Some (nat 0, nat 1) else None) }

let skel_cfg = [ CS [ Send ]; CR [ Recv ] ]

let show_skel (e : ev) : string =
  let v = function VClosed -> "closed" | VState _ -> "state" in
  match e with
  | EvLoad (x, o, _) -> Printf.sprintf "%s.load.%s" (v x) (show_ord o)
  | EvStore (x, o, _) -> Printf.sprintf "%s.store.%s" (v x) (show_ord o)
  | EvCas (x, o, f, _, _, _, _) -> Printf.sprintf "%s.cas.%s/%s" (v x) (show_ord o) (show_ord f)
  | EvLock _ -> "core.lock.-"
  | EvUnlock -> "core.unlock.-"
  | EvPark -> "-.park.-"
  | EvParkT -> "-.parkt.-"
  | EvUnpark _ -> "-.unpark.-"

let ev_of_row (r : row) : string =
  let at t pc (s : st) = { s with pcs = (fun u -> if u = nat t then pc else Idle) } in
  let go t s c = match step0 true skel_cfg s (nat t) c with Some (_, e) -> show_skel e | None -> "DISABLED" in
  match r with
  | Call f -> "call." ^ f
  | SRow pc -> go 0 (at 0 pc (base ())) CGo
  | RRow RtDec -> go 1 (at 1 RtDec (base ())) CGo         (* the park_timeout arm *)
  | RRow pc -> go 1 (at 1 pc (base ())) CGo
  | SDrop -> go 0 { (at 0 Idle (base ())) with sprog = (fun _ -> []) } CGo
  | RDrop -> go 1 { (at 1 Idle (base ())) with rprog = (fun _ -> []) } CGo

let core = "internal/rendezvous.rs::RendezvousShared::"

let wrapper (f : string) : (string * row list) list =
  [ (f ^ "::RendezvousSyncSender::send", [ SRow Idle; Call "send_blocking" ]);
    (f ^ "::RendezvousSyncSender::try_send", [ SRow Idle; Call "try_send" ]);
    (f ^ "::RendezvousSyncSender::close", [ SDrop; Call "drop_sender" ]);
    (f ^ "::RendezvousSyncSender::drop", [ Call "close" ]);
    (f ^ "::RendezvousSyncReceiver::recv", [ RRow Idle; Call "recv_blocking" ]);
    (f ^ "::RendezvousSyncReceiver::try_recv", [ RRow Idle; Call "try_recv" ]);
    (f ^ "::RendezvousSyncReceiver::recv_timeout", [ RRow Idle; Call "recv_timeout" ]);
    (f ^ "::RendezvousSyncReceiver::close", [ RDrop; Call "drop_receiver" ]);
    (f ^ "::RendezvousSyncReceiver::drop", [ Call "close" ]) ]

let skeleton : (string * row list) list =
  [ (core ^ "try_send", [ SRow (SLock KTry); Call "fulfill_receiver"; Call "wake" ]);
    (core ^ "try_recv", [ RRow (RLock KTryR); Call "fulfill_sender"; Call "wake" ]);
    (core ^ "send_blocking",
     [ SRow (SLock KSend); Call "fulfill_receiver"; Call "wake"; Call "park_until_terminal"; SRow SFinal ]);
    (core ^ "recv_blocking",
     [ RRow (RLock KRecv); Call "fulfill_sender"; Call "wake"; Call "park_until_terminal"; RRow (RFinal KRecv) ]);
    (core ^ "recv_timeout",
     [ RRow (RLock KRt); Call "fulfill_sender"; Call "wake"; RRow RtLoad; Call "cancel_receiver"; RRow RtDec;
       RRow RPark; RRow (RFinal KRt) ]);
    (core ^ "cancel_receiver", [ RRow CLock; RRow CCas ]);
    (* cancel_sender is the mirror image of cancel_receiver (used by the async SendFuture's Drop
       only); its rows are compared with the same model steps *)
    (core ^ "cancel_sender", [ RRow CLock; RRow CCas ]);
    (core ^ "drop_sender", [ SRow DLock; Call "disconnect_all"; Call "wake" ]);
    (core ^ "drop_receiver", [ RRow DLock; RRow (DDisc []); Call "wake" ]);
    ("internal/rendezvous.rs::VecDeque::disconnect_all", [ SRow (DDisc []) ]);
    ("internal/rendezvous.rs::Option::disconnect_all", [ SRow (DDisc []) ]);
    ("internal/rendezvous.rs::fulfill_receiver", [ SRow (SFul KSend) ]);
    ("internal/rendezvous.rs::fulfill_sender", [ RRow (RFul KRecv) ]);
    ("internal/rendezvous.rs::park_until_terminal", [ SRow SWait; SRow SPark ]);
    (* second row: the Waker arm (async), outside this model *)
    ("internal/rendezvous.rs::WakeHandle::wake", [ SRow (SUnpark (nat 1)); Call "wake" ]) ]
  @ wrapper "mpmc_v2/rendezvous.rs" @ wrapper "mpsc/rendezvous.rs" @ wrapper "spsc/rendezvous.rs"

let skel_line (f : string) : string =
  match List.assoc_opt f skeleton with
  | Some rows -> Printf.sprintf "skel %s :: %s" f (String.concat " ; " (List.map ev_of_row rows))
  | None -> Printf.sprintf "skel %s :: <not modelled>" f

let () = skel_line_ref := skel_line

let print_skeleton () = List.iter (fun (f, _) -> print_endline (skel_line f)) skeleton

let () = if Array.length Sys.argv > 1 && Sys.argv.(1) = "--skeleton" then print_skeleton () else main run
