(* eng_spmc.ml — line driver for the K2 model of the broadcast SPMC channel (coq/Chan/SpmcOps.v).
   engine exe: modelrun_spmc
   case:   <cap> <s|a> <fx> op*      (ops: see docs/spmc.md; mirrored by harness/seqdrv/src/bin/spmc.rs)
   output: one token group per op joined by " ; ", each followed by `^w` per waker invocation of that
           op (ascending waker id); then ` | W c0 c1 c2 c3 | D id:drops,...` after the teardown. *)
open Model_spmc
open Conv_spmc

let nw = 4
let ni s = n_of_int (int_of_string s)
let si x = string_of_int (int_of_n x)

let ids = function
  | [] -> "-"
  | l -> String.concat "," (List.map si l)

let rec take n l = if n <= 0 then ([], l) else
  match l with [] -> failwith "short list" | x :: t -> let (a, b) = take (n - 1) t in (x :: a, b)

let nlist = function
  | k :: r -> let (a, b) = take (int_of_string k) r in (List.map ni a, b)
  | [] -> failwith "missing list"

let rec parse = function
  | [] -> []
  | "ts" :: v :: r -> TrySend (ni v) :: parse r
  | "sd" :: v :: r -> Send (ni v) :: parse r
  | "tsb" :: r -> let (vs, r) = nlist r in TrySendB vs :: parse r
  | "tsm" :: r -> let (vs, r) = nlist r in TrySendM vs :: parse r
  | "sdb" :: r -> let (vs, r) = nlist r in SendB vs :: parse r
  | "sdm" :: r -> let (vs, r) = nlist r in SendM vs :: parse r
  | "scl" :: r -> SClose :: parse r
  | "sdr" :: r -> SDrop :: parse r
  | "scv" :: r -> SConv :: parse r
  | "sob" :: r -> SObs :: parse r
  | "tr" :: x :: r -> TryRecv (ni x) :: parse r
  | "rv" :: x :: r -> Recv (ni x) :: parse r
  | "rt" :: x :: r -> RecvT (ni x) :: parse r
  | "trb" :: x :: n :: r -> TryRecvB (ni x, ni n) :: parse r
  | "rvb" :: x :: n :: r -> RecvB (ni x, ni n) :: parse r
  | "cl" :: x :: r -> RClose (ni x) :: parse r
  | "dr" :: x :: r -> RDrop (ni x) :: parse r
  | "cn" :: x :: c :: r -> RClone (ni x, ni c) :: parse r
  | "cv" :: x :: r -> RConv (ni x) :: parse r
  | "ob" :: x :: r -> RObs (ni x) :: parse r
  | "mr" :: f :: x :: r -> MkRecv (ni f, ni x) :: parse r
  | "mrb" :: f :: x :: n :: r -> MkRecvB (ni f, ni x, ni n) :: parse r
  | "ms" :: f :: v :: r -> MkSend (ni f, ni v) :: parse r
  | "msb" :: f :: r -> let (vs, r) = nlist r in MkSendB (ni f, vs) :: parse r
  | "msm" :: f :: r -> let (vs, r) = nlist r in MkSendM (ni f, vs) :: parse r
  | "pl" :: f :: w :: r -> Poll (ni f, n_of_int (int_of_string w mod nw)) :: parse r
  | "df" :: f :: r -> DropF (ni f) :: parse r
  | "pn" :: x :: w :: r -> PollNext (ni x, n_of_int (int_of_string w mod nw)) :: parse r
  | "snap" :: r -> Snap :: parse r
  | t :: _ -> failwith ("bad op token " ^ t)

let b x = if x then "1" else "0"

let counts (l : n list) : string =
  let l = List.sort compare (List.map int_of_n l) in
  let rec go = function
    | [] -> []
    | x :: t ->
        let same, rest = List.partition (fun y -> y = x) t in
        (string_of_int x ^ ":" ^ string_of_int (1 + List.length same)) :: go rest in
  match l with [] -> "-" | _ -> String.concat "," (go l)

let rec show = function
  | ONA -> "NA" | OBusy -> "BUSY" | OWouldBlock -> "WOULDBLOCK" | OOk -> "ok" | OCloseErr -> "cerr"
  | OClosed -> "closed" | OPending -> "pending" | OTimeout -> "timeout" | ONone -> "none"
  | OFull v -> "full " ^ si v
  | OClosedV v -> "closed " ^ si v
  | OVal (_, v) -> "v " ^ si v
  | OVals (_, vs) -> "vs " ^ ids vs
  | OEmpty _ -> "empty"
  | ODisc _ -> "disc"
  | OBatch (BOk, n, _) -> "bok " ^ si n
  | OBatch (BFull, n, u) -> "bfull " ^ si n ^ " " ^ ids u
  | OBatch (BClosed, n, u) -> "bclosed " ^ si n ^ " " ^ ids u
  | OBErr (n, u) -> "berr " ^ si n ^ " " ^ ids u
  | OMut (true, k, rem) -> "mok " ^ si k ^ " " ^ ids rem
  | OMut (false, _, rem) -> "mclosed " ^ ids rem
  | OObs (l, e, f, c, cp) -> "obs " ^ si l ^ " " ^ b e ^ " " ^ b f ^ " " ^ b c ^ " " ^ si cp
  | OReady o -> "ready " ^ show o
  | OSnap d -> "snap " ^ counts d

let wakes_since (before : int) (s : st) : string =
  let l = List.map int_of_n s.wlog in
  let fresh = List.filteri (fun i _ -> i < List.length l - before) l in
  String.concat "" (List.map (fun w -> " ^" ^ string_of_int w) (List.sort compare fresh))

let run (toks : string list) : string =
  match toks with
  | cap :: fl :: fx :: rest ->
      let s0 = init (fx = "1") (ni cap) (fl = "a") in
      let ops = parse rest in
      let (s, outs) = List.fold_left (fun (s, acc) o ->
          let before = List.length s.wlog in
          let (s', x) = step s o in
          (s', (show x ^ wakes_since before s') :: acc)) (s0, []) ops in
      let s = teardown s in
      let wl = List.map int_of_n s.wlog in
      let w = String.concat " " (List.init nw (fun k ->
          string_of_int (List.length (List.filter (fun x -> x = k) wl)))) in
      String.concat " ; " (List.rev outs) ^ " | W " ^ w ^ " | D " ^ counts s.dlog
  | _ -> failwith "bad spmc case header"

let () = main run
