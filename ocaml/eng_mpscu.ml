(* eng_mpscu.ml — line driver for the unbounded-MPSC K2 model (coq/Chan/MpscU.v).
   engine exe: modelrun_mpscu
   case / output format: see harness/seqdrv/src/bin/mpscu.rs (identical). *)
open Model_mpscu
open Conv_mpscu

let n s = n_of_int (int_of_string s)
let i x = string_of_int (int_of_n x)
let ids l = String.concat "," (List.map i l)

let rec take k l = if k = 0 then ([], l) else match l with
  | [] -> failwith "short id list"
  | x :: t -> let (a, b) = take (k - 1) t in (n x :: a, b)

let rec parse = function
  | [] -> []
  | "ts" :: h :: v :: r -> TrySend (n h, n v) :: parse r
  | "sd" :: h :: v :: r -> Send (n h, n v) :: parse r
  | "tr" :: h :: r -> TryRecv (n h) :: parse r
  | "rc" :: h :: r -> Recv (n h) :: parse r
  | "rt" :: h :: r -> RecvT0 (n h) :: parse r
  | "cl" :: h :: r -> Close (n h) :: parse r
  | "dr" :: h :: r -> DropH (n h) :: parse r
  | "cn" :: h :: h2 :: r -> Clone (n h, n h2) :: parse r
  | "tos" :: h :: r -> ToSync (n h) :: parse r
  | "toa" :: h :: r -> ToAsync (n h) :: parse r
  | "ln" :: h :: r -> Len (n h) :: parse r
  | "ie" :: h :: r -> IsEmpty (n h) :: parse r
  | "ic" :: h :: r -> IsClosed (n h) :: parse r
  | "sc" :: h :: r -> SenderCount (n h) :: parse r
  | "ms" :: f :: h :: v :: r -> MkSend (n f, n h, n v) :: parse r
  | "mr" :: f :: h :: r -> MkRecv (n f, n h) :: parse r
  | "pl" :: f :: w :: r -> Poll (n f, n w) :: parse r
  | "df" :: f :: r -> DropF (n f) :: parse r
  | "pn" :: h :: w :: r -> PollNext (n h, n w) :: parse r
  | ("tsb" | "sdb" | "tsm" | "sdm" as t) :: h :: k :: r ->
      let (vs, r) = take (int_of_string k) r in
      SendB (n h, vs, (t = "tsm" || t = "sdm"), (t = "sdb" || t = "sdm")) :: parse r
  | "trb" :: h :: m :: r -> TryRecvB (n h, n m) :: parse r
  | "rcb" :: h :: m :: r -> RecvB (n h, n m) :: parse r
  | "msb" :: f :: h :: k :: r -> let (vs, r) = take (int_of_string k) r in MkSendB (n f, n h, vs) :: parse r
  | "mrb" :: f :: h :: m :: r -> MkRecvB (n f, n h, n m) :: parse r
  | t :: _ -> failwith ("bad op token " ^ t)

let rec show = function
  | ROk -> "ok"
  | RClosedV v -> "closed " ^ i v
  | RClosed -> "closed"
  | RVal v -> "v " ^ i v
  | REmpty -> "empty"
  | RDisc -> "disc"
  | RTimeout -> "timeout"
  | RCloseErr -> "cerr"
  | RBad -> "bad"
  | RBlock -> "WOULDBLOCK"
  | RPanic -> "PANIC"
  | RNum x -> "n " ^ i x
  | RBool b -> if b then "b 1" else "b 0"
  | RBatchOk k -> "bok " ^ i k
  | RBatchErr (s, un) -> "berr " ^ i s ^ " closed [" ^ ids un ^ "]"
  | RMutOk (k, l) -> "mok " ^ i k ^ " [" ^ ids l ^ "]"
  | RMutClosed l -> "mclosed [" ^ ids l ^ "]"
  | RVals vs -> "vs [" ^ ids vs ^ "]"
  | RPending -> "pending"
  | RReady r -> "ready " ^ show r

let show_out ((r, ws), ds) =
  let ds = List.sort compare (List.map int_of_n ds) in
  show r ^ String.concat "" (List.map (fun w -> " !" ^ i w) ws)
  ^ String.concat "" (List.map (fun d -> " ~" ^ string_of_int d) ds)

let run (toks : string list) : string =
  match toks with
  | fl :: fix :: rest ->
      let fx = int_of_string fix in
      let s0 = init (fl = "a") (fx land 2 = 2) in
      let ops = parse rest in
      let rec go s ops acc = match ops with
        | [] -> List.rev acc
        | o :: t -> let (s1, x) = step s o in go s1 t (show_out x :: acc) in
      String.concat " ; " (go s0 ops [])
  | _ -> failwith "bad mpscu case"

let () = main run
