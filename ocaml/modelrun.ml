(* modelrun.ml — reads one case per line on stdin: "<engine> <case...>",
   prints one result line per case.  All semantics come from Model (extracted). *)
let () =
  try
    while true do
      let line = input_line stdin in
      let toks = Conv.split_ws line in
      match toks with
      | [] -> print_endline ""
      | "policy" :: rest -> print_endline (Eng_policy.run rest)
      | e :: _ -> failwith ("unknown engine " ^ e)
    done
  with End_of_file -> ()
