(* eng_topic.ml — line driver for the topic K2 model (coq/Chan/TopicOps.v).
   engine exe: modelrun_topic
   case:   <fx> <s|a> <cap> op*     fx = four 0/1 digits: fix04 fix05 fix07 fix14
   output: one token group per op joined by " ; ", woken waker ids appended as " wN" (sorted) *)
open Model_topic
open Conv_topic

let n s = n_of_int (int_of_string s)

let rec parse = function
  | [] -> []
  | "pub" :: s :: t :: v :: r -> Publish (n s, n t, n v) :: parse r
  | "cls" :: s :: s2 :: r -> CloneS (n s, n s2) :: parse r
  | "xs" :: s :: r -> CloseS (n s) :: parse r
  | "ds" :: s :: r -> DropS (n s) :: parse r
  | "cvs" :: s :: r -> ConvS (n s) :: parse r
  | "ics" :: s :: r -> IsClosedS (n s) :: parse r
  | "sub" :: x :: t :: r -> Subscribe (n x, n t) :: parse r
  | "uns" :: x :: t :: r -> Unsubscribe (n x, n t) :: parse r
  | "clr" :: x :: y :: r -> CloneR (n x, n y) :: parse r
  | "xr" :: x :: r -> CloseR (n x) :: parse r
  | "dr" :: x :: r -> DropR (n x) :: parse r
  | "cvr" :: x :: r -> ConvR (n x) :: parse r
  | "try" :: x :: r -> TryRecv (n x) :: parse r
  | "rto" :: x :: r -> RecvTimeout0 (n x) :: parse r
  | "mk" :: f :: x :: r -> MkRecv (n f, n x) :: parse r
  | "poll" :: f :: w :: r -> Poll (n f, n w) :: parse r
  | "df" :: f :: r -> DropF (n f) :: parse r
  | "pn" :: x :: w :: r -> PollNext (n x, n w) :: parse r
  | "icr" :: x :: r -> IsClosedR (n x) :: parse r
  | "emp" :: x :: r -> IsEmptyR (n x) :: parse r
  | "cap" :: x :: r -> CapR (n x) :: parse r
  | t :: _ -> failwith ("bad op token " ^ t)

let i x = string_of_int (int_of_n x)

let show_res (o : op) (r : res) : string =
  match r with
  | RNoHandle -> "nohandle"
  | RBadId -> "badid"
  | RNoApi -> "noapi"
  | RBusy -> "busy"
  | ROk -> "ok"
  | RClosed -> "closed"
  | RCloseErr -> "closeerr"
  | RBool b -> if b then "true" else "false"
  | RNum x -> i x
  | RVal (t, v) ->
      (match o with
       | Poll _ -> "ready " | PollNext _ -> "some " | _ -> "val ") ^ i t ^ " " ^ i v
  | REmpty -> "empty"
  | RTimeout -> "timeout"
  | RPending -> "pending"
  | RDisc -> (match o with Poll _ -> "ready disc" | PollNext _ -> "none" | _ -> "disc")

let show (o : op) ((r, ws) : out) : string =
  let ws = List.sort compare (List.map int_of_n ws) in
  show_res o r ^ String.concat "" (List.map (fun w -> " w" ^ string_of_int w) ws)

let bit s k = s.[k] = '1'

let run (toks : string list) : string =
  match toks with
  | fx :: kind :: cap :: rest ->
      if String.length fx <> 4 then failwith "bad fx";
      let c = { fix04 = bit fx 0; fix05 = bit fx 1; fix07 = bit fx 2; fix14 = bit fx 3 } in
      let async = (match kind with "a" -> true | "s" -> false | _ -> failwith "bad kind") in
      let ops = parse rest in
      let (_, outs) = run c async (n cap) ops in
      String.concat " ; " (List.map2 show ops outs)
  | _ -> failwith "bad header"

let () = main run
