(* eng_policy.ml — line driver for the E-POLICY models.
   engine exe: modelrun_policy
   case:   <policy>[:<capacity>] (a K C | m K C | r K | e N | c)*  [ || <implementation output> ]
   output: one token group per call, joined by " ; "

   Lru/Fifo/Sieve/Clock/Slru/Arc are functional: the model predicts the output.
   Random and TinyLfu are relational: their RNG / frequency sketch are abstract
   components of the model, so the case line carries the implementation's output
   after "||"; the driver instantiates the abstract component with the replay
   instance built from that output (the victims the implementation chose / the
   candidates it rejected) and prints the model's output under that instance.
   The check then diffs it against the implementation's like any other policy:
   equal iff the implementation's behaviour is one the model allows. *)
open Model_policy
open Conv_policy

let num s = n_of_int (int_of_string s)

let rec parse_calls = function
  | [] -> []
  | "a" :: k :: c :: r -> Access (num k, num c) :: parse_calls r
  | "m" :: k :: c :: r -> Admit (num k, num c) :: parse_calls r
  | "r" :: k :: r -> Remove (num k) :: parse_calls r
  | "e" :: n :: r -> Evict (num n) :: parse_calls r
  | "c" :: r -> Clear :: parse_calls r
  | t :: _ -> failwith ("bad call token " ^ t)

let show_keys vs = String.concat "," (List.map (fun k -> string_of_int (int_of_n k)) vs)

let show_out = function
  | ODone -> "ok"
  | OAdmit -> "admit"
  | OReject -> "reject"
  | OAdmitEvict vs -> "admitevict " ^ show_keys vs
  | OVictims (vs, c) -> "v [" ^ show_keys vs ^ "] " ^ string_of_int (int_of_n c)

(* split the token list at "||" *)
let rec split_bar acc = function
  | [] -> (List.rev acc, None)
  | "||" :: r -> (List.rev acc, Some r)
  | t :: r -> split_bar (t :: acc) r

(* implementation output groups: tokens separated by ";" *)
let groups toks =
  let rec go cur acc = function
    | [] -> List.rev (List.rev cur :: acc)
    | ";" :: r -> go [] (List.rev cur :: acc) r
    | t :: r -> go (t :: cur) acc r in
  match toks with [] -> [] | _ -> go [] [] toks

let keys_of s =
  if s = "" then [] else List.map num (String.split_on_char ',' s)

(* Random: every victim of every evict, in order *)
let random_choices impl =
  List.concat_map (function
      | ["v"; ks; _] ->
          let n = String.length ks in
          if n >= 2 then keys_of (String.sub ks 1 (n - 2)) else []
      | _ -> []) (groups impl)

(* TinyLfu: per on_access/on_admit call (those increment the sketch), the rejected candidates *)
let tinylfu_rejects calls impl =
  let rec go cs gs = match cs, gs with
    | [], _ -> []
    | (Access _ | Admit _) :: cr, g :: gr ->
        (match g with ["admitevict"; ks] -> keys_of ks | _ -> []) :: go cr gr
    | (Access _ | Admit _) :: cr, [] -> [] :: go cr []
    | _ :: cr, _ :: gr -> go cr gr
    | _ :: cr, [] -> go cr [] in
  go calls (groups impl)

let cap_of name =
  match String.split_on_char ':' name with
  | [p] -> (p, N0)
  | [p; c] -> (p, num c)
  | _ -> failwith ("bad policy header " ^ name)

let run (toks : string list) : string =
  match toks with
  | name :: rest ->
      let (calls_t, impl) = split_bar [] rest in
      let calls = parse_calls calls_t in
      let (pn, cap) = cap_of name in
      let impl_toks = match impl with Some i -> i | None -> [] in
      let p = match pn with
        | "lru" -> lruP
        | "fifo" -> fifoP
        | "sieve" -> sieveP
        | "clock" -> clockP
        | "slru" -> slruP cap
        | "arc" -> arcP cap
        | "random" -> randomReplayP (random_choices impl_toks)
        | "tinylfu" -> tinyLfuReplayP (tinylfu_rejects calls impl_toks) cap
        | s -> failwith ("unknown policy " ^ s) in
      let (_, outs) = prun p p.pinit calls in
      String.concat " ; " (List.map show_out outs)
  | [] -> failwith "empty policy case"

let () = main run
