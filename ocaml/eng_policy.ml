(* eng_policy.ml — line driver for the E-POLICY models.
   engine exe: modelrun_policy
   case:   <policy> (a K C | m K C | r K | e N | c)*
   output: one token group per call, joined by " ; " *)
open Model_policy
open Conv_policy

let policy_of = function
  | "lru" -> lruP
  | "fifo" -> fifoP
  | "sieve" -> sieveP
  | "clock" -> clockP
  | s -> failwith ("unknown policy " ^ s)

let rec parse_calls = function
  | [] -> []
  | "a" :: k :: c :: r -> Access (n_of_int (int_of_string k), n_of_int (int_of_string c)) :: parse_calls r
  | "m" :: k :: c :: r -> Admit (n_of_int (int_of_string k), n_of_int (int_of_string c)) :: parse_calls r
  | "r" :: k :: r -> Remove (n_of_int (int_of_string k)) :: parse_calls r
  | "e" :: n :: r -> Evict (n_of_int (int_of_string n)) :: parse_calls r
  | "c" :: r -> Clear :: parse_calls r
  | t :: _ -> failwith ("bad call token " ^ t)

let show_out = function
  | ODone -> "ok"
  | OAdmit -> "admit"
  | OReject -> "reject"
  | OAdmitEvict vs -> "admitevict " ^ String.concat "," (List.map (fun k -> string_of_int (int_of_n k)) vs)
  | OVictims (vs, c) ->
      "v [" ^ String.concat "," (List.map (fun k -> string_of_int (int_of_n k)) vs) ^ "] " ^ string_of_int (int_of_n c)

let run (toks : string list) : string =
  match toks with
  | name :: rest ->
      let p = policy_of name in
      let (_, outs) = prun p p.pinit (parse_calls rest) in
      String.concat " ; " (List.map show_out outs)
  | [] -> failwith "empty policy case"

let () = main run
