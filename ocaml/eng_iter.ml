(* eng_iter.ml — line driver for the E-ITER model (Cache/Iter.v, Cache/Snapshot.v).
   engine exe: modelrun_iter
   case:   <shards> <cap|0> <ttl|0> <tti|0>  then ops
             I k v c | T k v c d | A d | G k | P k
             IT | IB n | IC n d K | SD | ST n | SC n d K | IS | AS
             SN gap rtti | SB gap rttl rtti | M | C
   output: one token group per op, joined by " ; "
   time unit: one tick (the harness uses 1 ms); the clock starts at 1000 *)
open Model_iter
open Conv_iter

let n s = n_of_int (int_of_string s)
let optn s = let i = int_of_string s in if i = 0 then None else Some (n_of_int i)

let rec parse = function
  | [] -> []
  | "I" :: k :: v :: c :: r -> OIns (n k, n v, n c) :: parse r
  | "T" :: k :: v :: c :: d :: r -> OInsTtl (n k, n v, n c, n d) :: parse r
  | "A" :: d :: r -> OAdv (n d) :: parse r
  | "G" :: k :: r -> OFetch (n k) :: parse r
  | "P" :: k :: r -> OPeek (n k) :: parse r
  | ("IT" | "SD") :: r -> OIter (nat_of_int 64, n_of_int 0, nat_of_int 0) :: parse r
  | ("IB" | "ST") :: b :: r -> OIter (nat_of_int (int_of_string b), n_of_int 0, nat_of_int 0) :: parse r
  | ("IC" | "SC") :: b :: d :: k :: r ->
      OIter (nat_of_int (int_of_string b), n d, nat_of_int (int_of_string k)) :: parse r
  | ("IS" | "AS") :: r -> OIterSnap :: parse r
  | "SN" :: g :: t :: r -> OSnap (n g, None, optn t) :: parse r
  | "SB" :: g :: l :: t :: r -> OSnap (n g, optn l, optn t) :: parse r
  | "M" :: r -> OMaint :: parse r
  | "C" :: r -> OCost :: parse r
  | t :: _ -> failwith ("bad op token " ^ t)

let si x = string_of_int (int_of_n x)

(* current_cost can wrap to just below 2^64: print through an unsigned int64 *)
let su (x : n) : string =
  let rec pos = function
    | XH -> 1L
    | XO q -> Int64.shift_left (pos q) 1
    | XI q -> Int64.logor (Int64.shift_left (pos q) 1) 1L in
  match x with N0 -> "0" | Npos p -> Printf.sprintf "%Lu" (pos p)

(* clock-advancing iterations are printed with the tag "ic": which entries expire before they
   are reached depends on the map's enumeration order, so `check` does not diff those lists *)
let show (o : op) = function
  | RUnit -> "ok"
  | RVal None -> "-"
  | RVal (Some v) -> "v" ^ si v
  | RItems (l, ok) ->
      let l = List.sort compare (List.map (fun (k, v) -> (int_of_n k, int_of_n v)) l) in
      (match o with OIter (_, _, S _) -> "ic " | _ -> "it ") ^ string_of_int (List.length l) ^ " ["
      ^ String.concat "," (List.map (fun (k, v) -> string_of_int k ^ ":" ^ string_of_int v) l) ^ "]"
      ^ (if ok then "" else " OUT-OF-FUEL")
  | RSnap l ->
      let l = List.sort compare
          (List.map (fun p -> (int_of_n p.pkey, int_of_n p.pval, int_of_n p.pcost,
                               match p.pttl with None -> -1 | Some d -> int_of_n d)) l) in
      "sn " ^ string_of_int (List.length l) ^ " ["
      ^ String.concat "," (List.map (fun (k, v, c, r) ->
            string_of_int k ^ ":" ^ string_of_int v ^ ":" ^ string_of_int c ^ ":"
            ^ (if r < 0 then "-" else string_of_int r)) l) ^ "]"
  | RCost c -> "c " ^ su c

let run_case (toks : string list) : string =
  match toks with
  | sh :: cap :: ttl :: tti :: rest ->
      let c0 = new_cache (nat_of_int (int_of_string sh)) (optn cap) (optn ttl) (optn tti) (n_of_int 1000) in
      let ops = parse rest in
      let (_, outs) = run c0 ops in
      String.concat " ; " (List.map2 show ops outs)
  | _ -> failwith "short iter case"

let () = main run_case
