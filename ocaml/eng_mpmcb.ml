(* eng_mpmcb.ml — line driver for the bounded-MPMC K2 model (coq/Chan/MpmcB.v).
   engine exe: modelrun_mpmcb
   case:   <cap> <s|a> <fixbits:7 x 0/1 = fx03 fx03f fx06 fx07 fx08 fx12 fx33> op*
   output: one group per op joined by " ; ": <result> [w<waker>]* [d<payload>]* [BAD]
   (same format as harness/seqdrv/src/bin/mpmcb.rs) *)
open Model_mpmcb
open Conv_mpmcb

let n s = n_of_int (int_of_string s)
let i = int_of_n

let rec parse = function
  | [] -> []
  | "ts" :: h :: r -> TrySend (n h) :: parse r
  | "tr" :: h :: r -> TryRecv (n h) :: parse r
  | "sd" :: h :: r -> Send (n h) :: parse r
  | "rv" :: h :: r -> Recv (n h) :: parse r
  | "rt" :: h :: r -> RecvTimeout (n h) :: parse r
  | "cl" :: h :: h2 :: r -> Clone (n h, n h2) :: parse r
  | "cs" :: h :: r -> Close (n h) :: parse r
  | "dr" :: h :: r -> DropH (n h) :: parse r
  | "cv" :: h :: h2 :: r -> Convert (n h, n h2) :: parse r
  | "ob" :: h :: r -> Observe (n h) :: parse r
  | "ms" :: f :: h :: r -> MkSend (n f, n h) :: parse r
  | "mr" :: f :: h :: r -> MkRecv (n f, n h) :: parse r
  | "po" :: f :: w :: r -> Poll (n f, n w) :: parse r
  | "df" :: f :: r -> DropF (n f) :: parse r
  | "tsb" :: h :: k :: r -> TrySendBatch (false, n h, n k) :: parse r
  | "tsm" :: h :: k :: r -> TrySendBatch (true, n h, n k) :: parse r
  | "trb" :: h :: k :: r -> TryRecvBatch (false, n h, n k) :: parse r
  | "trm" :: h :: k :: r -> TryRecvBatch (true, n h, n k) :: parse r
  | t :: _ -> failwith ("bad op token " ^ t)

let b2s b = if b then "1" else "0"

let ids l = String.concat "" (List.map (fun x -> " " ^ string_of_int (i x)) l)

let show_res = function
  | ROk -> "ok"
  | RFull v -> "full " ^ string_of_int (i v)
  | RClosedV v -> "closed " ^ string_of_int (i v)
  | RClosed -> "closed"
  | RVal v -> "v " ^ string_of_int (i v)
  | REmpty -> "empty"
  | RDisc -> "disc"
  | RTimeout -> "timeout"
  | RWouldBlock -> "WOULDBLOCK"
  | RCloseErr -> "closeerr"
  | RNoHandle -> "nohandle"
  | RWrongKind -> "wrongkind"
  | RBadId -> "badid"
  | RBorrowed -> "borrowed"
  | RNoFut -> "nofut"
  | RDone -> "done"
  | RPending -> "pending"
  | RReadyOk -> "ready ok"
  | RReadyClosed -> "ready closed"
  | RReadyVal v -> "ready v " ^ string_of_int (i v)
  | RReadyDisc -> "ready disc"
  | RObs (l, e, f, c, cl) ->
      Printf.sprintf "o %d %s %s %d %s" (i l) (b2s e) (b2s f) (i c) (b2s cl)
  | RPanic -> "PANIC"
  | RBOk k -> "ok " ^ string_of_int (i k)
  | RBErr (sent, cl, un) -> "err " ^ string_of_int (i sent) ^ (if cl then " closed" else " full") ^ ids un
  | RMOk (k, rest) -> "ok " ^ string_of_int (i k) ^ ids rest
  | RMClosed rest -> "closed" ^ ids rest
  | RVals l -> "v" ^ ids l
  | RNVals l -> "n " ^ string_of_int (List.length l) ^ ids l

let show_out (o : out) =
  let w = List.map (fun x -> " w" ^ string_of_int (i x)) o.o_wakes in
  let d = List.map (fun x -> " d" ^ string_of_int x) (List.sort compare (List.map i o.o_drops)) in
  show_res o.o_res ^ String.concat "" w ^ String.concat "" d ^ (if o.o_bad then " BAD" else "")

let run (toks : string list) : string =
  match toks with
  | cap :: kind :: fxs :: rest ->
      let bit k = String.length fxs > k && fxs.[k] = '1' in
      let fx = { fx03 = bit 0; fx03f = bit 1; fx06 = bit 2; fx07 = bit 3; fx08 = bit 4; fx12 = bit 5; fx33 = bit 6 } in
      let (_, outs) = run (init (n cap) (kind = "a") fx) (parse rest) in
      String.concat " ; " (List.map show_out outs)
  | _ -> failwith "bad case header"

let () = main run
