(* eng_k3lock.ml — D2 trace check ("tracecheck") for the E-LOCK models.
   engine exe: modelrun_k3lock
   case:    <scenario> || res=<r/r/..> ;; <event> ; <event> ; ...
            scenario = mutex <runs> <seed> [opts] | T: ops | T: ops ...
            event    = t<tid> <kind> <var> <ord> <ordfail> a=<a> b=<b> r=<r> ok=<0|1> [@file:line]
   output:  ok <n events> res=<r/r/..>          the trace is an execution of the model
            reject at <i>: model expected <e'>, trace has <e>
   The schedule choice of each step (spin again / move on, ...) is read off the trace (the
   alternative whose event equals the traced one and whose successor agrees in shape with the
   thread's next traced event); the decisive check is the extracted strict `replay` (Conc.v), run
   chunk by chunk (48 events) from re-tabulated states so that long traces stay linear.
   `--skeleton` as the only token of a line prints the model's D3 table. *)
open Model_k3lock
open Conv_k3lock

let ord_of = function
  | "Rlx" -> Some Rlx | "Acq" -> Some Acq | "Rel" -> Some Rel | "AcqRel" -> Some AcqRel
  | "SeqCst" -> Some SeqCst | _ -> None

let ord_s = function Rlx -> "Rlx" | Acq -> "Acq" | Rel -> "Rel" | AcqRel -> "AcqRel" | SeqCst -> "SeqCst"

type raw = { tid : int; kind : string; var : string; o : string; f : string; a : string; b : string; r : string; ok : bool }

let field pfx s =
  let n = String.length pfx in
  if String.length s >= n && String.sub s 0 n = pfx then String.sub s n (String.length s - n)
  else failwith ("bad field " ^ s ^ " (want " ^ pfx ^ ")")

let parse_event (toks : string list) : raw =
  match toks with
  | t :: kind :: var :: o :: f :: a :: b :: r :: ok :: _ ->
      { tid = int_of_string (field "t" t); kind; var; o; f; a = field "a=" a; b = field "b=" b; r = field "r=" r;
        ok = field "ok=" ok = "1" }
  | _ -> failwith ("bad event: " ^ String.concat " " toks)

(* split a token list on a separator token *)
let split_on sep toks =
  let rec go cur acc = function
    | [] -> List.rev (List.rev cur :: acc)
    | x :: r when x = sep -> go [] (List.rev cur :: acc) r
    | x :: r -> go (x :: cur) acc r
  in
  go [] [] toks

let n_s x = string_of_int (int_of_n x)
let var_s = function VState -> "state" | VLocked -> "list.locked" | VNode o -> "node(t" ^ string_of_int (int_of_nat o) ^ ").state"
let ev_s = function
  | EvLoad (v, o, r) -> Printf.sprintf "load %s %s r=%s" (var_s v) (ord_s o) (n_s r)
  | EvStore (v, o, a) -> Printf.sprintf "store %s %s a=%s" (var_s v) (ord_s o) (n_s a)
  | EvSwap (v, o, a, r) -> Printf.sprintf "swap %s %s a=%s r=%s" (var_s v) (ord_s o) (n_s a) (n_s r)
  | EvCas (v, o, f, a, b, r, k) ->
      Printf.sprintf "cas %s %s/%s a=%s b=%s r=%s ok=%d" (var_s v) (ord_s o) (ord_s f) (n_s a) (n_s b) (n_s r) (if k then 1 else 0)
  | EvCasW (v, o, f, a, b, r, k) ->
      Printf.sprintf "casw %s %s/%s a=%s b=%s r=%s ok=%d" (var_s v) (ord_s o) (ord_s f) (n_s a) (n_s b) (n_s r) (if k then 1 else 0)
  | EvFsub (v, o, a, r) -> Printf.sprintf "fsub %s %s a=%s r=%s" (var_s v) (ord_s o) (n_s a) (n_s r)
  | EvFor (v, o, a, r) -> Printf.sprintf "for %s %s a=%s r=%s" (var_s v) (ord_s o) (n_s a) (n_s r)
  | EvFand (v, o, a, r) -> Printf.sprintf "fand %s %s clr=%s r=%s" (var_s v) (ord_s o) (n_s a) (n_s r)
  | EvPark -> "park"
  | EvUnpark t -> "unpark t" ^ string_of_int (int_of_nat t)
  | EvYield -> "yield"
  | EvSpin -> "spin"

let shape = function
  | EvLoad (v, _, _) -> "load " ^ (match v with VNode _ -> "node" | v -> var_s v)
  | EvStore (v, _, _) -> "store " ^ (match v with VNode _ -> "node" | v -> var_s v)
  | EvSwap _ -> "swap" | EvCas _ -> "cas" | EvCasW _ -> "casw" | EvFsub _ -> "fsub" | EvFor _ -> "for" | EvFand _ -> "fand"
  | EvPark -> "park" | EvUnpark _ -> "unpark" | EvYield -> "yield" | EvSpin -> "spin"

(* !mask operands of fetch_and: 2^64-1-clr *)
let clr_of (a : string) : int =
  match a with
  | "18446744073709551614" -> 1
  | "18446744073709551613" -> 2
  | "18446744073709551611" -> 4
  | "18446744073709551609" -> 6
  | _ -> failwith ("unexpected fetch_and operand " ^ a)

let num s = n_of_int (int_of_string s)

(* ------------------------------------------------------------------ mutex *)
let mutex_op = function
  | "l" | "lh" -> OLock | "tl" -> OTry | "al" -> OAsync | "ap" -> OPoll | "ad" -> ODropFut | "yw" | "ys" -> OWait
  | o -> failwith ("bad mutex op " ^ o)

let res_s = function
  | RL -> "L" | RT true -> "T1" | RT false -> "T0" | RA -> "A" | RP true -> "P1" | RP false -> "P0"

(* node variables are named wait_queue.state#k in order of first access; the first access of
   a node is always its owner's rearm store *)
let to_mev (statevar : string) (nodes : (string, int) Hashtbl.t) (e : raw) : mev =
  let var () =
    if e.var = statevar then VState
    else if e.var = "wait_queue.locked#0" then VLocked
    else if String.length e.var > 17 && String.sub e.var 0 17 = "wait_queue.state#" then begin
      (if not (Hashtbl.mem nodes e.var) then Hashtbl.add nodes e.var e.tid);
      VNode (nat_of_int (Hashtbl.find nodes e.var))
    end else failwith ("unknown variable " ^ e.var)
  in
  let o () = match ord_of e.o with Some x -> x | None -> failwith ("bad ordering " ^ e.o) in
  let f () = match ord_of e.f with Some x -> x | None -> failwith ("bad failure ordering " ^ e.f) in
  match e.kind with
  | "load" -> EvLoad (var (), o (), num e.r)
  | "store" -> EvStore (var (), o (), num e.a)
  | "swap" -> EvSwap (var (), o (), num e.a, num e.r)
  | "cas" -> EvCas (var (), o (), f (), num e.a, num e.b, num e.r, e.ok)
  | "casw" -> EvCasW (var (), o (), f (), num e.a, num e.b, num e.r, e.ok)
  | "fsub" -> EvFsub (var (), o (), num e.a, num e.r)
  | "for" -> EvFor (var (), o (), num e.a, num e.r)
  | "fand" -> EvFand (var (), o (), n_of_int (clr_of e.a), num e.r)
  | "park" -> EvPark
  | "unpark" -> EvUnpark (nat_of_int (int_of_string e.a))
  | "yield" -> EvYield
  | "spin" -> EvSpin
  | k -> failwith ("unexpected event kind " ^ k)

let run_mutex (threads : string list list) (res : string) (evs : raw list) : string =
  let progs = Array.of_list (List.map (fun ops -> List.map mutex_op ops) threads) in
  let nthr = Array.length progs in
  let progf (t : nat) = let i = int_of_nat t in if i < nthr then progs.(i) else [] in
  let nodes = Hashtbl.create 16 in
  let mevs = Array.of_list (List.map (fun e -> (e.tid, to_mev "mutex.state#0" nodes e)) evs) in
  let n = Array.length mevs in
  (* next event index of the same thread *)
  let nxt = Array.make n (-1) in
  let last = Hashtbl.create 8 in
  for i = n - 1 downto 0 do
    let (t, _) = mevs.(i) in
    (match Hashtbl.find_opt last t with Some j -> nxt.(i) <- j | None -> ());
    Hashtbl.replace last t i
  done;
  let s0 = minit progf in
  let tab : 'a. (nat -> 'a) -> (nat -> 'a) -> nat -> 'a = fun f d ->
    let a = Array.init nthr (fun i -> f (nat_of_int i)) in
    fun t -> let i = int_of_nat t in if i < nthr then a.(i) else d t in
  (* same state, function fields re-tabulated (keeps lookups O(1) on long traces) *)
  let compact (s : mstate) : mstate =
    { s with narm = tab s.narm s0.narm; nwk = tab s.nwk s0.nwk; token = tab s.token s0.token;
             bwoken = tab s.bwoken s0.bwoken; prog = tab s.prog s0.prog; pcs = tab s.pcs s0.pcs;
             fut = tab s.fut s0.fut } in
  let s = ref s0 in
  let start = ref s0 in
  let tr = ref [] in
  let all = ref [] in
  let failed = ref None in
  (* the decisive check, chunk by chunk: the extracted strict replay accepts the chunk *)
  let verify upto =
    (match replay_from progf !start (List.rev !tr) with
     | Inl (Some sf) -> s := compact sf; start := !s; all := !tr @ !all; tr := []
     | Inl None -> failed := Some "reject: replay returned no state"; raise Exit
     | Inr k -> failed := Some (Printf.sprintf "reject at %d: extracted replay refused the step" (upto - int_of_nat k)); raise Exit) in
  (try
     for i = 0 to n - 1 do
       let (ti, e) = mevs.(i) in
       let t = nat_of_int ti in
       let cands = List.filter_map (fun c ->
           match mstep !s t c with
           | Some (s', e') when mev_eqb e e' -> Some (c, s')
           | _ -> None) [ChGo; ChAgain] in
       let good (_, s') =
         nxt.(i) < 0 ||
         (let (_, en) = mevs.(nxt.(i)) in
          List.exists (fun c -> match peek s' t c with Some e'' -> shape e'' = shape en | None -> false) [ChGo; ChAgain])
       in
       let pick = match List.filter good cands with x :: _ -> Some x | [] -> (match cands with x :: _ -> Some x | [] -> None) in
       (match pick with
        | Some (c, s') -> tr := ((t, c), e) :: !tr; s := s'
        | None ->
            let exp = match peek !s t ChGo, peek !s t ChAgain with
              | Some a, Some b when a <> b -> ev_s a ^ " | " ^ ev_s b
              | Some a, _ -> ev_s a
              | None, Some b -> ev_s b
              | None, None -> "(thread not enabled)" in
            failed := Some (Printf.sprintf "reject at %d: model expected t%d %s, trace has t%d %s" i ti exp ti (ev_s e));
            raise Exit);
       if (i + 1) mod 48 = 0 then verify i
     done;
     verify (n - 1)
   with Exit -> ());
  match !failed with
  | Some m -> m
  | None ->
      let sf = !s in
      let per = Array.make nthr [] in
      List.iter (fun (t, r) -> let i = int_of_nat t in if i < nthr then per.(i) <- res_s r :: per.(i)) (results sf);
      let mres = String.concat "/" (Array.to_list (Array.map (fun l -> if l = [] then "-" else String.concat "," (List.rev l)) per)) in
      if Sys.getenv_opt "K3LOCK_EMIT" <> None then
        "sched [" ^ String.concat "; " (List.map (fun ((t, c), _) ->
            Printf.sprintf "(%d, %s)" (int_of_nat t) (match c with ChGo -> "ChGo" | ChAgain -> "ChAgain")) (List.rev !all)) ^ "]"
      else if mres = res then Printf.sprintf "ok %d res=%s" n res
      else Printf.sprintf "reject results: model res=%s, implementation res=%s" mres res

(* ------------------------------------------------------------------ skeleton (D3) *)
let fn_s = function
  | FnTryAcquire -> "try_acquire" | FnLock -> "lock" | FnLockSlow -> "lock_slow" | FnLockAsync -> "lock_async"
  | FnTryLock -> "try_lock" | FnUnlock -> "unlock" | FnFixFlags -> "fix_flags" | FnWakeNext -> "wake_next"
  | FnGuardDrop -> "MutexGuard::drop" | FnFutPoll -> "MutexFuture::poll" | FnFutFinish -> "finish_node"
  | FnFutDrop -> "MutexFuture::drop" | FnListLock -> "WaitList::lock" | FnListUnlock -> "ListGuard::drop"
  | FnRearm -> "rearm" | FnMarkWoken -> "take_and_mark_woken" | FnWake -> "Waiter::wake"

let sop_s = function
  | SLoad -> "load" | SStore -> "store" | SSwap -> "swap" | SCas -> "cas" | SCasWeak -> "casw"
  | SFor -> "fetch_or" | SFand -> "fetch_and" | SFadd -> "fetch_add" | SFsub -> "fetch_sub"
  | SPark -> "park" | SUnpark -> "unpark" | SYield -> "yield_now" | SSpin -> "spin_loop" | SCall f -> "call:" ^ fn_s f

let svar_s = function SvState -> "state" | SvLocked -> "locked" | SvNode -> "node.state" | SvNone -> "-"

let skel_lines pfx table =
  List.map (fun (f, rows) ->
      pfx ^ fn_s f ^ " := " ^
      String.concat " ; " (List.map (fun (((v, o), a), b) ->
          let os = function Some x -> ord_s x | None -> "-" in
          Printf.sprintf "%s %s %s %s" (svar_s v) (sop_s o) (os a) (os b)) rows)) table


(* ------------------------------------------------------------------ rwlock *)
let rw_op = function
  | "r" | "rh" -> ROLock RD | "w" | "wh" -> ROLock WR | "tr" -> ROTry RD | "tw" -> ROTry WR
  | "ar" -> ROAsync RD | "aw" -> ROAsync WR | "apr" -> ROPoll RD | "apw" -> ROPoll WR
  | "ad" -> RODropFut | "yw" | "ys" -> ROWait
  | o -> failwith ("bad rwlock op " ^ o)

let rres_s = function
  | RRL RD -> "R" | RRL WR -> "W" | RRT (RD, true) -> "TR1" | RRT (RD, false) -> "TR0"
  | RRT (WR, true) -> "TW1" | RRT (WR, false) -> "TW0" | RRA RD -> "AR" | RRA WR -> "AW"
  | RRP true -> "P1" | RRP false -> "P0"

let run_rwlock (threads : string list list) (res : string) (evs : raw list) : string =
  let progs = Array.of_list (List.map (fun ops -> List.map rw_op ops) threads) in
  let nthr = Array.length progs in
  let progf (t : nat) = let i = int_of_nat t in if i < nthr then progs.(i) else [] in
  let nodes = Hashtbl.create 16 in
  let mevs = Array.of_list (List.map (fun e -> (e.tid, to_mev "rwlock.state#0" nodes e)) evs) in
  let n = Array.length mevs in
  let nxt = Array.make n (-1) in
  let last = Hashtbl.create 8 in
  for i = n - 1 downto 0 do
    let (t, _) = mevs.(i) in
    (match Hashtbl.find_opt last t with Some j -> nxt.(i) <- j | None -> ());
    Hashtbl.replace last t i
  done;
  let s0 = rwinit progf in
  let tab : 'a. (nat -> 'a) -> (nat -> 'a) -> nat -> 'a = fun f d ->
    let a = Array.init nthr (fun i -> f (nat_of_int i)) in
    fun t -> let i = int_of_nat t in if i < nthr then a.(i) else d t in
  let compact (s : rwstate) : rwstate =
    { s with rnarm = tab s.rnarm s0.rnarm; rnwk = tab s.rnwk s0.rnwk; rtoken = tab s.rtoken s0.rtoken;
             rbwoken = tab s.rbwoken s0.rbwoken; rprog = tab s.rprog s0.rprog; rpcs = tab s.rpcs s0.rpcs;
             rfut = tab s.rfut s0.rfut } in
  let s = ref s0 in
  let start = ref s0 in
  let tr = ref [] in
  let failed = ref None in
  let choices = [RGo; RAgain; RSpur] in
  let verify upto =
    (match rw_replay_from progf !start (List.rev !tr) with
     | Inl (Some sf) -> s := compact sf; start := !s; tr := []
     | Inl None -> failed := Some "reject: replay returned no state"; raise Exit
     | Inr k -> failed := Some (Printf.sprintf "reject at %d: extracted replay refused the step" (upto - int_of_nat k)); raise Exit) in
  (try
     for i = 0 to n - 1 do
       let (ti, e) = mevs.(i) in
       let t = nat_of_int ti in
       let cands = List.filter_map (fun c ->
           match rwstep !s t c with
           | Some (s', e') when mev_eqb e e' -> Some (c, s')
           | _ -> None) choices in
       let good (_, s') =
         nxt.(i) < 0 ||
         (let (_, en) = mevs.(nxt.(i)) in
          List.exists (fun c -> match rwpeek s' t c with Some e'' -> shape e'' = shape en | None -> false) choices)
       in
       let pick = match List.filter good cands with x :: _ -> Some x | [] -> (match cands with x :: _ -> Some x | [] -> None) in
       (match pick with
        | Some (c, s') -> tr := ((t, c), e) :: !tr; s := s'
        | None ->
            let exps = List.sort_uniq compare (List.filter_map (fun c -> match rwpeek !s t c with Some a -> Some (ev_s a) | None -> None) choices) in
            let exp = if exps = [] then "(thread not enabled)" else String.concat " | " exps in
            failed := Some (Printf.sprintf "reject at %d: model expected t%d %s, trace has t%d %s" i ti exp ti (ev_s e));
            raise Exit);
       if (i + 1) mod 48 = 0 then verify i
     done;
     verify (n - 1)
   with Exit -> ());
  match !failed with
  | Some m -> m
  | None ->
      let sf = !s in
      let per = Array.make nthr [] in
      List.iter (fun (t, r) -> let i = int_of_nat t in if i < nthr then per.(i) <- rres_s r :: per.(i)) sf.rresults;
      let mres = String.concat "/" (Array.to_list (Array.map (fun l -> if l = [] then "-" else String.concat "," (List.rev l)) per)) in
      if mres = res then Printf.sprintf "ok %d res=%s" n res
      else Printf.sprintf "reject results: model res=%s, implementation res=%s" mres res

let rfn_s = function
  | RfTryAcqR -> "try_acquire_read" | RfTryAcqW -> "try_acquire_write" | RfRead -> "read" | RfReadSlow -> "read_slow"
  | RfReadAsync -> "read_async" | RfWrite -> "write" | RfWriteSlow -> "write_slow" | RfWriteAsync -> "write_async"
  | RfTryRead -> "try_read" | RfTryWrite -> "try_write" | RfUnlockR -> "unlock_read" | RfUnlockW -> "unlock_write"
  | RfFixFlags -> "fix_flags" | RfWakeWaiters -> "wake_waiters" | RfRGuardDrop -> "ReadGuard::drop"
  | RfWGuardDrop -> "WriteGuard::drop" | RfRFutPoll -> "ReadFuture::poll" | RfRFutFinish -> "ReadFuture::finish_node"
  | RfRFutDrop -> "ReadFuture::drop" | RfWFutPoll -> "WriteFuture::poll" | RfWFutFinish -> "WriteFuture::finish_node"
  | RfWFutDrop -> "WriteFuture::drop" | RfListLock -> "WaitList::lock" | RfRearm -> "rearm"
  | RfMarkWoken -> "take_and_mark_woken" | RfWake -> "Waiter::wake"

(* inside a future's poll the callee is just `finish_node` in the source text *)
let rcall_s = function
  | RfRFutFinish | RfWFutFinish -> "finish_node"
  | f -> rfn_s f

let rsop_s = function
  | RsLoad -> "load" | RsStore -> "store" | RsCas -> "cas" | RsCasWeak -> "casw" | RsFor -> "fetch_or"
  | RsFand -> "fetch_and" | RsFsub -> "fetch_sub" | RsPark -> "park" | RsYield -> "yield_now" | RsCall f -> "call:" ^ rcall_s f

let rskel_lines () =
  List.map (fun (f, rows) ->
      "rwlock." ^ rfn_s f ^ " := " ^
      String.concat " ; " (List.map (fun (((v, o), a), b) ->
          let os = function Some x -> ord_s x | None -> "-" in
          Printf.sprintf "%s %s %s %s" (svar_s v) (rsop_s o) (os a) (os b)) rows)) rskeleton

let run (toks : string list) : string =
  match toks with
  | ["--skeleton"] -> String.concat " || " (skel_lines "mutex." skeleton @ rskel_lines ())
  | kind :: _ ->
      (match split_on "||" toks with
       | [scen; body] ->
           let parts = split_on "|" scen in
           let threads = List.filter_map (function [] -> None | _ :: ops -> Some ops) (List.tl parts) in
           let (res, evtoks) = match split_on ";;" body with
             | [[r]; e] -> (field "res=" r, e)
             | [[r]] -> (field "res=" r, [])
             | _ -> failwith "bad trace body" in
           let evs = List.filter_map (function [] -> None | l -> Some (parse_event l)) (split_on ";" evtoks) in
           if kind = "mutex" then run_mutex threads res evs
           else if kind = "rwlock" then run_rwlock threads res evs
           else failwith ("unknown lock kind " ^ kind)
       | _ -> failwith "case must be <scenario> || <trace>")
  | [] -> failwith "empty case"

let () = main run
